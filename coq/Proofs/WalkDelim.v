(* C07, grouping: with the delimiter "/" and no prefix, Walk with any marker and any page size returns, on an order-compatible
   tree whose directories all hold a key, exactly the page the S3 listing rule demands: every top-level object as a key, every
   top-level directory once as a common prefix, in order, the first [max] entries strictly after the marker, truncated iff
   entries remain, the next marker being the last entry. (A directory holding no key is the known finding
   c07:keyless-directory-with-delimiter; the witness is in Properties/C07.v.) *)
From Coq Require Import String Ascii List Arith NArith Lia Bool.
From VGW Require Import Base.GoStr Model.Walk Spec.ListSpec Proofs.WalkProof Proofs.WalkFlat Proofs.WalkRefine Proofs.WalkPage.
Import ListNotations.
Open Scope string_scope.

(* ---------- strings: cutting at the first "/" *)
Definition noslash (n : string) : Prop := has_char "/" n = false.

Lemma has_prefix_slash : forall s, has_prefix s "/" = match s with String a _ => Ascii.eqb a "/" | EmptyString => false end.
Proof. intros [|a s]; [reflexivity|]. cbn [has_prefix]. rewrite ?has_prefix_empty, ?andb_true_r. apply Ascii.eqb_sym. Qed.

Lemma index_noslash : forall n fuel i, noslash n -> index_from fuel n "/" i = None.
Proof.
  induction n as [|a n IH]; intros fuel i Hn; destruct fuel as [|f]; cbn [index_from]; try reflexivity.
  unfold noslash in Hn. cbn [has_char] in Hn. apply orb_false_iff in Hn. destruct Hn as [Ha Hn].
  rewrite has_prefix_slash, Ha. apply IH. exact Hn.
Qed.

Lemma index_slash : forall n r fuel i, noslash n -> String.length n < fuel ->
  index_from fuel (n ++ "/" ++ r) "/" i = Some (i + String.length n).
Proof.
  induction n as [|a n IH]; intros r fuel i Hn Hf; (destruct fuel as [|f]; [cbn [String.length] in Hf; lia|]); cbn [index_from].
  - cbn [String.append]. rewrite has_prefix_slash. cbn [String.length Ascii.eqb Bool.eqb]. rewrite Nat.add_0_r. reflexivity.
  - unfold noslash in Hn. cbn [has_char] in Hn. apply orb_false_iff in Hn. destruct Hn as [Ha Hn].
    cbn [String.append]. rewrite has_prefix_slash, Ha. cbn [String.length] in Hf |- *.
    etransitivity; [apply (IH r f (S i) Hn); lia|f_equal; lia].
Qed.

Lemma length_append : forall a b, String.length (a ++ b) = String.length a + String.length b.
Proof. induction a as [|x a IH]; intros b; cbn [String.append String.length]; [reflexivity|]. rewrite IH. reflexivity. Qed.

Lemma take_append : forall a b, take (String.length a) (a ++ b) = a.
Proof. induction a as [|x a IH]; intros b; cbn [String.append String.length take]; [destruct b; reflexivity|]. rewrite IH. reflexivity. Qed.

Lemma drop_append : forall a b, drop (String.length a) (a ++ b) = b.
Proof. induction a as [|x a IH]; intros b; cbn [String.append String.length drop]; [reflexivity|]. apply IH. Qed.

Lemma append_assoc : forall a b c : string, (a ++ b) ++ c = a ++ (b ++ c).
Proof. induction a as [|x a IH]; intros b c; cbn [String.append]; [reflexivity|]. rewrite IH. reflexivity. Qed.

Lemma cut_noslash : forall n, noslash n -> str_cut n "/" = (n, "", false).
Proof. intros n Hn. unfold str_cut, str_index. rewrite index_noslash by exact Hn. reflexivity. Qed.

Lemma cut_slash : forall n r, noslash n -> str_cut (n ++ "/" ++ r) "/" = (n, r, true).
Proof.
  intros n r Hn. unfold str_cut, str_index. rewrite index_slash by (try exact Hn; rewrite length_append; lia).
  cbn [Nat.add String.length]. rewrite take_append.
  replace (String.length n + 1) with (String.length (n ++ "/")) by (rewrite length_append; reflexivity).
  rewrite <- append_assoc, drop_append. reflexivity.
Qed.

Lemma contains_slash : forall n r, noslash n -> str_contains (n ++ "/" ++ r) "/" = true.
Proof. intros n r Hn. unfold str_contains, str_index. rewrite index_slash by (try exact Hn; rewrite length_append; lia). reflexivity. Qed.

Lemma trim_prefix_empty : forall s, trim_prefix s "" = s.
Proof. intros s. unfold trim_prefix. rewrite has_prefix_empty. reflexivity. Qed.

Lemma append_nil_r : forall s : string, s ++ "" = s.
Proof. induction s as [|a s IH]; cbn [String.append]; [reflexivity|]. rewrite IH. reflexivity. Qed.

(* a prefix of a string is not above it *)
Lemma has_prefix_not_lt : forall m p, has_prefix m p = true -> str_ltb m p = false.
Proof.
  induction m as [|a m IH]; intros [|b p] H; cbn in *; try reflexivity; try discriminate.
  apply andb_true_iff in H. destruct H as [Hab H]. apply Ascii.eqb_eq in Hab. subst b.
  rewrite N.ltb_irrefl. apply IH. exact H.
Qed.

(* ---------- the top level of the tree, as the walk with "/" sees it *)
Inductive kind := KNone | KObj | KCp.
Definition tnode (nt : string * tree) : string * kind :=
  match snd nt with
  | F b => (fst nt, if b then KObj else KNone)
  | D _ _ => ((fst nt ++ "/")%string, KCp)
  end.

Section Delim.
  Variables (marker : string) (max : nat).

  Definition trunc_stop (s : st) : st :=
    {| objs := objs s; cps := cps s; pastMarker := pastMarker s; pastMax := true; truncated := true; newMarker := newMarker s |}.

  Definition emit_cp (c : string) (s : st) : ctl * st :=
    if String.eqb c marker then (Cont, mark_past s)
    else if negb (String.eqb marker "") && has_prefix marker c then (Cont, s)
    else if pastMax s then (SkipAll, trunc_stop s)
    else
      let l := add_cp c (cps s) in
      let full := Nat.eqb (List.length (objs s) + List.length l) max in
      (Cont, {| objs := objs s; cps := l; pastMarker := pastMarker s; pastMax := full || pastMax s;
                truncated := truncated s; newMarker := if full then c else newMarker s |}).

  Definition dbody (e : string * kind) (s : st) : ctl * st :=
    match snd e with
    | KNone => (Cont, s)
    | KObj => emit_obj max (fst e) Cont s
    | KCp => emit_cp (fst e) s
    end.

  Definition dstep (e : string * kind) (s : st) : ctl * st :=
    if pastMarker s then dbody e s
    else if String.eqb (fst e) marker then (Cont, mark_past s)
    else if str_ltb (fst e) marker then (Cont, s)
    else dbody e s.

  Fixpoint drun (l : list (string * kind)) (s : st) : ctl * st :=
    match l with
    | [] => (Cont, s)
    | e :: r => let '(c, s1) := dstep e s in match c with Cont => drun r s1 | other => (other, s1) end
    end.

  Lemma dstep_ctl : forall e s, fst (dstep e s) = Cont \/ fst (dstep e s) = SkipAll.
  Proof.
    intros [p k] s. unfold dstep, dbody, emit_obj, emit_cp. cbn [fst snd].
    repeat match goal with |- context [if ?b then _ else _] => destruct b end; destruct k; cbn [fst]; auto;
    repeat match goal with |- context [if ?b then _ else _] => destruct b end; cbn [fst]; auto.
  Qed.

  (* a top-level child, walked with delimiter "/" and no prefix, is one step; directories are never entered *)
  Lemma walk_kid_dstep : forall n t s, n <> "." -> n <> "" -> noslash n ->
    walk_node "" "/" marker max [] (pjoin "." n) n t s = dstep (tnode (n, t)) s.
  Proof.
    intros n t s Hd He Hs.
    assert (Hp : pjoin "." n = n) by reflexivity. rewrite Hp. clear Hp.
    assert (Hnd : String.eqb n "." = false) by (apply String.eqb_neq; exact Hd).
    assert (E : forall x : ctl * st, (let '(c, s1) := x in (c, s1)) = x) by (intros [? ?]; reflexivity).
    destruct t as [b|b kids].
    - cbn [walk_node]. rewrite E. unfold cb. rewrite Hnd. cbn [existsb]. rewrite andb_false_r.
      cbn [is_dir isobj String.eqb negb andb]. rewrite trim_prefix_empty, cut_noslash by exact Hs.
      unfold dstep, tnode, dbody. cbn [fst snd negb].
      destruct (pastMarker s).
      + destruct b; reflexivity.
      + destruct (String.eqb n marker); [reflexivity|]. destruct (str_ltb n marker); [reflexivity|]. destruct b; reflexivity.
    - cbn [walk_node]. unfold cb. rewrite Hnd. cbn [existsb]. rewrite andb_false_r.
      cbn [is_dir isobj String.eqb negb andb Ascii.eqb Bool.eqb]. rewrite has_prefix_empty, trim_prefix_empty.
      replace (n ++ "/") with (n ++ "/" ++ "") by reflexivity.
      rewrite contains_slash by exact Hs. cbn [andb]. rewrite trim_prefix_empty, cut_slash by exact Hs.
      cbn [String.append]. unfold dstep, tnode, dbody, emit_cp. cbn [fst snd]. fold (mark_past s). fold (trunc_stop s).
      destruct (pastMarker s).
      + destruct (String.eqb (n ++ "/") marker); [reflexivity|].
        destruct (negb (String.eqb marker "") && has_prefix marker (n ++ "/")); [reflexivity|].
        destruct (pastMax s); reflexivity.
      + destruct (String.eqb (n ++ "/") marker); [reflexivity|]. destruct (str_ltb (n ++ "/") marker); [reflexivity|].
        destruct (negb (String.eqb marker "") && has_prefix marker (n ++ "/")); [reflexivity|].
        destruct (pastMax s); reflexivity.
  Qed.
End Delim.

Open Scope list_scope.

(* ---------- lists *)
Lemma sorted_app_l : forall l1 l2, sorted_b (l1 ++ l2) = true -> sorted_b l1 = true.
Proof.
  induction l1 as [|a l1 IH]; intros l2 H; [reflexivity|].
  destruct l1 as [|b l1]; [reflexivity|].
  cbn [app sorted_b] in H |- *. apply andb_true_iff in H. destruct H as [Hab H]. rewrite Hab. cbn [andb]. apply (IH l2). exact H.
Qed.

Lemma sorted_drop_mid : forall l1 x l2, sorted_b (l1 ++ x :: l2) = true -> sorted_b (l1 ++ l2) = true.
Proof.
  induction l1 as [|a l1 IH]; intros x l2 H; cbn [app] in *.
  - eapply sorted_tail. exact H.
  - apply sorted_cons_all.
    + apply (IH x). eapply sorted_tail. exact H.
    + intros y Hy. apply (sorted_head_lt a (l1 ++ x :: l2)); [exact H|].
      apply in_app_or in Hy. apply in_or_app. destruct Hy as [Hy|Hy]; [left; exact Hy|right; right; exact Hy].
Qed.

Lemma sorted_map_filter {B} (f : string * B -> bool) : forall l, sorted_b (map fst l) = true -> sorted_b (map fst (filter f l)) = true.
Proof.
  induction l as [|e l IH]; intros H; [reflexivity|]. cbn [filter].
  assert (Hl : sorted_b (map fst l) = true) by (cbn [map] in H; eapply sorted_tail; exact H).
  destruct (f e); [|apply IH; exact Hl]. cbn [map]. apply sorted_cons_all; [apply IH; exact Hl|].
  intros y Hy. apply (sorted_head_lt (fst e) (map fst l)); [exact H|].
  apply in_map_iff in Hy. destruct Hy as [z [Hz Hin]]. apply filter_In in Hin. subst y. apply in_map. tauto.
Qed.

Lemma insert_last : forall c l, (forall x, In x l -> str_ltb x c = true) -> insert_sorted c l = l ++ [c].
Proof.
  induction l as [|x l IH]; intros H; cbn [insert_sorted app]; [reflexivity|].
  rewrite (str_ltb_asym x c) by (apply H; left; reflexivity). f_equal. apply IH. intros y Hy. apply H. right. exact Hy.
Qed.

Lemma sort_rev : forall l, sorted_b l = true -> sort_strs (rev l) = l.
Proof.
  induction l as [|a l IH] using rev_ind; intros H; [reflexivity|].
  rewrite rev_unit. unfold sort_strs in *. cbn [fold_right]. rewrite IH by (eapply sorted_app_l; exact H).
  apply insert_last. intros x Hx. apply (sorted_app_lt l [a]); [exact H|exact Hx|left; reflexivity].
Qed.

Lemma objs_of_app : forall a b, objs_of (a ++ b) = objs_of a ++ objs_of b.
Proof. intros a b. unfold objs_of. apply flat_map_app. Qed.
Lemma cps_of_app : forall a b, cps_of (a ++ b) = cps_of a ++ cps_of b.
Proof. intros a b. unfold cps_of. apply flat_map_app. Qed.
Lemma len_objs_cps : forall a, List.length (objs_of a) + List.length (cps_of a) = List.length a.
Proof. unfold objs_of, cps_of. induction a as [|[k|p] a IH]; simpl; lia. Qed.
Lemma cps_of_in : forall x a, In x (cps_of a) -> In x (map etext a).
Proof.
  induction a as [|[k|p] a IH]; cbn [cps_of flat_map app map etext In]; intros H; [exact H|right; apply IH; exact H|].
  destruct H as [H|H]; [left; exact H|right; apply IH; exact H].
Qed.
Lemma sorted_cps : forall a, sorted_b (map etext a) = true -> sorted_b (cps_of a) = true.
Proof.
  induction a as [|e a IH]; intros H; [reflexivity|].
  assert (Ha : sorted_b (map etext a) = true) by (cbn [map] in H; eapply sorted_tail; exact H).
  destruct e as [k|p]; cbn [cps_of flat_map app]; [apply IH; exact Ha|].
  apply sorted_cons_all; [apply IH; exact Ha|]. intros x Hx. apply (sorted_head_lt p (map etext a)); [exact H|apply cps_of_in; exact Hx].
Qed.

Section Page.
  Variables (marker : string) (max : nat).

  Definition top_ok (kids : list (string * tree)) : Prop :=
    forall n t, In (n, t) kids -> n <> "." /\ n <> "" /\ noslash n.

  Lemma drun_ctl : forall l s, fst (drun marker max l s) = Cont \/ fst (drun marker max l s) = SkipAll.
  Proof.
    induction l as [|e l IH]; intros s; cbn [drun]; [left; reflexivity|].
    pose proof (dstep_ctl marker max e s) as H. destruct (dstep marker max e s) as [c s1]. cbn [fst] in H.
    destruct H as [H|H]; subst c; [apply IH|right; reflexivity].
  Qed.

  Lemma walk_root_drun : forall b kids s, top_ok kids ->
    walk_node "" "/" marker max [] "." "." (D b kids) s = drun marker max (map tnode kids) s.
  Proof.
    intros b kids s Hk. cbn [walk_node].
    assert (Hcb : cb "" "/" marker max [] "." "." (D b kids) s = (Cont, s)) by reflexivity. rewrite Hcb. clear Hcb.
    revert s. induction kids as [|[n k] r IHr]; intros s; [reflexivity|].
    cbn [map drun]. destruct (Hk n k (or_introl eq_refl)) as [H1 [H2 H3]].
    rewrite (walk_kid_dstep marker max n k s H1 H2 H3).
    pose proof (dstep_ctl marker max (tnode (n, k)) s) as Hc. destruct (dstep marker max (tnode (n, k)) s) as [c s1]. cbn [fst] in Hc.
    destruct Hc as [Hc|Hc]; subst c; [|reflexivity].
    apply IHr. intros n' t' Hin. apply (Hk n' t'). right. exact Hin.
  Qed.

  Definition to_entry (e : string * kind) : entry := match snd e with KCp => ECp (fst e) | _ => EObj (fst e) end.
  Definition keyed (e : string * kind) : bool := match snd e with KNone => false | _ => true end.
  Definition elig (pm : bool) (e : string * kind) : bool := keyed e && (pm || str_ltb marker (fst e)).
  Definition Es (pm : bool) (l : list (string * kind)) : list entry := map to_entry (filter (elig pm) l).

  Lemma Es_cons : forall pm e l, Es pm (e :: l) = (if elig pm e then [to_entry e] else []) ++ Es pm l.
  Proof. intros pm e l. unfold Es. cbn [filter]. destruct (elig pm e); reflexivity. Qed.

  Lemma Es_past : forall l, (forall e, In e l -> str_ltb marker (fst e) = true) -> Es false l = Es true l.
  Proof.
    induction l as [|e l IH]; intros H; [reflexivity|]. rewrite !Es_cons.
    assert (He : elig false e = elig true e) by (unfold elig; rewrite (H e (or_introl eq_refl)); reflexivity).
    rewrite He, IH; [reflexivity|]. intros e' He'. apply H. right. exact He'.
  Qed.

  Lemma etext_to_entry : forall e, etext (to_entry e) = fst e.
  Proof. intros [p k]. destruct k; reflexivity. Qed.

  Definition DInv (s : st) (acc : list entry) : Prop :=
    objs s = objs_of acc /\ cps s = rev (cps_of acc) /\ truncated s = false /\ List.length acc <= max /\
    (pastMax s = true <-> List.length acc = max) /\ (pastMax s = true -> newMarker s = etext (last acc (EObj ""))).

  Definition Post (s' : st) (acc : list entry) (E : list entry) : Prop :=
    let room := max - List.length acc in
    let acc' := acc ++ firstn room E in
    objs s' = objs_of acc' /\ cps s' = rev (cps_of acc') /\ truncated s' = Nat.ltb room (List.length E) /\
    (truncated s' = true -> newMarker s' = etext (last acc' (EObj ""))).

  Lemma DInv_count : forall s acc, DInv s acc -> List.length (objs s) + List.length (cps s) = List.length acc.
  Proof. intros s acc [H1 [H2 _]]. rewrite H1, H2, rev_length. apply len_objs_cps. Qed.

  (* the page is full: the next entry stops the walk *)
  Lemma post_full : forall s acc e E, DInv s acc -> pastMax s = true -> Post (trunc_stop s) acc (e :: E).
  Proof.
    intros s acc e E HI Hpx. pose proof HI as [H1 [H2 [H3 [H4 [H5 H6]]]]].
    assert (Hfull : List.length acc = max) by (apply H5; exact Hpx).
    unfold Post. cbv zeta. rewrite Hfull, Nat.sub_diag. cbn [firstn List.length trunc_stop objs cps truncated newMarker]. rewrite app_nil_r.
    repeat split; try assumption. intros _. apply H6. exact Hpx.
  Qed.

  (* one more entry fits *)
  Lemma post_step : forall s1 acc e E, List.length acc < max -> Post s1 (acc ++ [e]) E -> Post s1 acc (e :: E).
  Proof.
    intros s1 acc e E Hlt. unfold Post. cbv zeta. rewrite app_length. cbn [List.length].
    replace (max - List.length acc) with (S (max - (List.length acc + 1))) by lia. cbn [firstn]. rewrite <- app_assoc. cbn [app].
    intros H. exact H.
  Qed.

  Lemma dpage : 0 < max -> forall l s acc,
    sorted_b (map etext acc ++ map fst l) = true ->
    (forall e, In e l -> fst e <> "") ->
    DInv s acc ->
    (pastMarker s = true -> marker = "" \/ forall e, In e l -> str_ltb marker (fst e) = true) ->
    Post (snd (drun marker max l s)) acc (Es (pastMarker s) l).
  Proof.
    intros Hmax. induction l as [|[p k] l IH]; intros s acc Hs Hne HI Hpm.
    - pose proof HI as [H1 [H2 [H3 [H4 [H5 H6]]]]]. unfold Post, Es. cbv zeta. cbn [drun snd filter map List.length]. rewrite firstn_nil, app_nil_r.
      split; [exact H1|]. split; [exact H2|]. split; [rewrite H3; destruct (max - List.length acc); reflexivity|]. intros Hx. congruence.
    - assert (Hs' : sorted_b (map etext acc ++ map fst l) = true) by (cbn [map fst] in Hs; eapply sorted_drop_mid; exact Hs).
      assert (Hne' : forall e, In e l -> fst e <> "") by (intros e He; apply Hne; right; exact He).
      assert (Hpne : p <> "") by (apply (Hne (p, k)); left; reflexivity).
      assert (Hlt : forall e, In e l -> str_ltb p (fst e) = true).
      { intros e He. cbn [map fst] in Hs. apply sorted_app_r in Hs. apply (sorted_head_lt p (map fst l)); [exact Hs|apply in_map; exact He]. }
      assert (Hacc : forall x, In x (map etext acc) -> str_ltb x p = true).
      { intros x Hx. cbn [map fst] in Hs. apply (sorted_app_lt (map etext acc) (p :: map fst l)); [exact Hs|exact Hx|left; reflexivity]. }
      (* listing p (or passing over a file that is no object), then the rest *)
      assert (Hbody : (marker = "" \/ str_ltb marker p = true) ->
        (forall s1 acc1, pastMarker s1 = pastMarker s -> sorted_b (map etext acc1 ++ map fst l) = true -> DInv s1 acc1 ->
           Post (snd (drun marker max l s1)) acc1 (Es (pastMarker s) l)) ->
        Post (snd (let '(c, s1) := dbody marker max (p, k) s in match c with Cont => drun marker max l s1 | other => (other, s1) end))
             acc ((if keyed (p, k) then [to_entry (p, k)] else []) ++ Es (pastMarker s) l)).
      { intros G R. pose proof HI as [H1 [H2 [H3 [H4 [H5 H6]]]]]. pose proof (DInv_count s acc HI) as Hcnt.
        destruct k; unfold dbody, keyed, to_entry; cbn [fst snd app].
        - apply R; [reflexivity|exact Hs'|exact HI].
        - unfold emit_obj. destruct (pastMax s) eqn:Epx.
          + cbn [snd]. apply (post_full s acc); assumption.
          + assert (Hl : List.length acc < max). { destruct (Nat.eq_dec (List.length acc) max) as [E|E]; [apply H5 in E; congruence|lia]. }
            apply post_step; [exact Hl|]. apply R; [reflexivity| |].
            * rewrite map_app, <- app_assoc. exact Hs.
            * assert (Hc1 : List.length (objs s ++ [p]) + List.length (cps s) = List.length acc + 1) by (rewrite app_length; cbn [List.length]; lia).
              unfold DInv. cbn [objs cps truncated pastMax newMarker]. rewrite Hc1.
              rewrite objs_of_app, cps_of_app, app_length. cbn [objs_of cps_of flat_map app List.length]. rewrite app_nil_r, H1.
              split; [reflexivity|]. split; [exact H2|]. split; [exact H3|]. split; [lia|].
              split; [split; intros H; [apply Nat.eqb_eq in H; exact H|apply Nat.eqb_eq; exact H]|].
              intros H. rewrite H, last_last. reflexivity.
        - unfold emit_cp.
          assert (E1 : String.eqb p marker = false).
          { apply String.eqb_neq. intros E. subst p. destruct G as [G|G]; [congruence|]. rewrite str_ltb_irrefl in G. discriminate. }
          assert (E2 : negb (String.eqb marker "") && has_prefix marker p = false).
          { destruct G as [G|G]; [rewrite G; reflexivity|]. destruct (has_prefix marker p) eqn:Eh; [|apply andb_false_r].
            apply has_prefix_not_lt in Eh. congruence. }
          rewrite E1, E2. destruct (pastMax s) eqn:Epx.
          + cbn [snd]. apply (post_full s acc); assumption.
          + assert (Hl : List.length acc < max). { destruct (Nat.eq_dec (List.length acc) max) as [E|E]; [apply H5 in E; congruence|lia]. }
            assert (Hadd : add_cp p (cps s) = p :: cps s).
            { unfold add_cp. destruct (existsb (String.eqb p) (cps s)) eqn:Ex; [|reflexivity].
              apply existsb_exists in Ex. destruct Ex as [x [Hx Hpx]]. apply String.eqb_eq in Hpx. subst x.
              rewrite H2 in Hx. apply in_rev in Hx. apply cps_of_in in Hx. apply Hacc in Hx. rewrite str_ltb_irrefl in Hx. discriminate. }
            rewrite Hadd. rewrite orb_false_r.
            apply post_step; [exact Hl|]. apply R; [reflexivity| |].
            * rewrite map_app, <- app_assoc. exact Hs.
            * assert (Hc2 : List.length (objs s) + List.length (p :: cps s) = List.length acc + 1) by (cbn [List.length]; lia).
              unfold DInv. cbn [objs cps truncated pastMax newMarker]. rewrite Hc2.
              rewrite objs_of_app, cps_of_app, app_length. cbn [objs_of cps_of flat_map app List.length]. rewrite app_nil_r, rev_unit, <- H2.
              split; [exact H1|]. split; [reflexivity|]. split; [exact H3|]. split; [lia|].
              split; [split; intros H; [apply Nat.eqb_eq in H; exact H|apply Nat.eqb_eq; exact H]|].
              intros H. rewrite H, last_last. reflexivity. }
      cbn [drun]. unfold dstep. cbn [fst snd]. rewrite Es_cons. unfold elig at 1. cbn [fst snd]. destruct (pastMarker s) eqn:Epm.
      + cbn [orb]. rewrite andb_true_r. apply Hbody.
        * destruct (Hpm eq_refl) as [G|G]; [left; exact G|right; apply (G (p, k)); left; reflexivity].
        * intros s1 acc1 Hp1 Hs1 HI1. rewrite <- Hp1. apply IH; try assumption.
          intros _. destruct (Hpm eq_refl) as [G|G]; [left; exact G|right; intros e He; apply G; right; exact He].
      + cbn [orb]. destruct (String.eqb p marker) eqn:E1.
        * apply String.eqb_eq in E1. subst p. rewrite str_ltb_irrefl, andb_false_r. cbn [app].
          assert (HI' : DInv (mark_past s) acc) by exact HI.
          pose proof (IH (mark_past s) acc Hs' Hne' HI' (fun _ => or_intror Hlt)) as Hr. cbn [mark_past pastMarker] in Hr.
          rewrite (Es_past l Hlt). exact Hr.
        * destruct (str_ltb p marker) eqn:E2.
          -- rewrite (str_ltb_asym p marker E2), andb_false_r. cbn [app].
             pose proof (IH s acc Hs' Hne' HI) as Hr. rewrite Epm in Hr. apply Hr. intros H; discriminate.
          -- assert (G : str_ltb marker p = true).
             { destruct (str_ltb_tricho p marker) as [H|[H|H]]; [congruence|subst; rewrite String.eqb_refl in E1; discriminate|exact H]. }
             rewrite G, andb_true_r. apply Hbody; [right; exact G|].
             intros s1 acc1 Hp1 Hs1 HI1. rewrite <- Hp1. apply IH; try assumption. intros H. congruence.
  Qed.
End Page.

(* ---------- the keys below a top-level child, and their entries under the S3 rule *)
Lemma keys_shape : forall t path k, names_ok t -> path <> "." -> In k (keys_at path t) ->
  match t with F _ => k = path | D _ _ => exists r, k = (path ++ "/" ++ r)%string end.
Proof.
  induction t as [b|b kids IH] using tree_ind'; intros path k Hn Hp Hin.
  - destruct b; cbn [keys_at In] in Hin; [destruct Hin as [H|[]]; symmetry; exact H|destruct Hin].
  - rewrite keys_at_dir in Hin by exact Hp. apply in_app_or in Hin. destruct Hin as [Hin|Hin].
    + destruct b; [|destruct Hin]. destruct Hin as [H|[]]. exists ""%string. symmetry. exact H.
    + cbn [names_ok] in Hn. revert Hn Hin. induction IH as [|[n c] r Hc Hr IHr]; intros Hn Hin; [destruct Hin|].
      destruct Hn as [Hn1 [Hn2 [Hn3 Hn4]]]. apply in_app_or in Hin. destruct Hin as [Hin|Hin]; [|apply IHr; assumption].
      cbn [snd] in Hc. specialize (Hc (pjoin path n) k Hn3 (pjoin_not_dot _ _ Hn1 Hn2) Hin).
      assert (Hj : pjoin path n = (path ++ "/" ++ n)%string).
      { unfold pjoin. destruct (String.eqb path ".") eqn:E; [apply String.eqb_eq in E; congruence|reflexivity]. }
      rewrite Hj in Hc. destruct c as [b'|b' kids'].
      * exists n. exact Hc.
      * destruct Hc as [r' Hr']. exists (n ++ "/" ++ r')%string. rewrite Hr'.
        rewrite !append_assoc. reflexivity.
Qed.

Lemma entry_file : forall n, noslash n -> entry_of "" "/" n = EObj n.
Proof. intros n Hn. unfold entry_of. cbn [String.eqb]. rewrite trim_prefix_empty, cut_noslash by exact Hn. reflexivity. Qed.

Lemma entry_under : forall n r, noslash n -> entry_of "" "/" (n ++ "/" ++ r)%string = ECp (n ++ "/")%string.
Proof. intros n r Hn. unfold entry_of. cbn [String.eqb]. rewrite trim_prefix_empty, cut_slash by exact Hn. reflexivity. Qed.

Lemma map_const {A B} (f : A -> B) (c : B) : forall l, (forall x, In x l -> f x = c) -> map f l = repeat c (List.length l).
Proof.
  induction l as [|x l IH]; intros H; [reflexivity|]. cbn [map List.length repeat]. rewrite (H x (or_introl eq_refl)). f_equal.
  apply IH. intros y Hy. apply H. right. exact Hy.
Qed.

Definition kcount (nt : string * tree) : nat := List.length (keys_at (fst nt) (snd nt)).

Lemma entries_kid : forall n t, n <> "." -> n <> ""%string -> noslash n -> names_ok t ->
  map (entry_of "" "/") (keys_at n t) = repeat (to_entry (tnode (n, t))) (kcount (n, t)).
Proof.
  intros n t Hd He Hs Hn. unfold kcount. cbn [fst snd]. apply map_const. intros k Hk.
  pose proof (keys_shape t n k Hn Hd Hk) as Hsh. destruct t as [b|b kids].
  - subst k. rewrite entry_file by exact Hs. unfold to_entry, tnode. cbn [fst snd].
    destruct b; [reflexivity|destruct Hk].
  - destruct Hsh as [r Hr]. subst k. rewrite entry_under by exact Hs. reflexivity.
Qed.

(* adjacent duplicates: a run of equal entries followed by different ones *)
Lemma dedup_block : forall e c X, (forall y, In y X -> entry_eqb e y = false) ->
  dedup_adj (repeat e (S c) ++ X) = e :: dedup_adj X.
Proof.
  intros e c X HX. induction c as [|c IH].
  - cbn [repeat app]. destruct X as [|y X']; [reflexivity|]. cbn [dedup_adj]. rewrite (HX y (or_introl eq_refl)). reflexivity.
  - change (repeat e (S (S c)) ++ X) with (e :: (repeat e (S c) ++ X)).
    change (repeat e (S c) ++ X) with (e :: (repeat e c ++ X)) in *.
    cbn [dedup_adj]. assert (Hee : entry_eqb e e = true) by (destruct e; cbn [entry_eqb]; apply String.eqb_refl).
    rewrite Hee. exact IH.
Qed.

Fixpoint distinct (L : list (entry * nat)) : Prop :=
  match L with [] => True | ec :: r => (forall ec', In ec' r -> entry_eqb (fst ec) (fst ec') = false) /\ distinct r end.

Definition expand (L : list (entry * nat)) : list entry := flat_map (fun ec => repeat (fst ec) (snd ec)) L.

Lemma expand_in : forall L y, In y (expand L) -> exists ec, In ec L /\ fst ec = y.
Proof.
  induction L as [|ec L IH]; intros y H; [destruct H|]. unfold expand in H. cbn [flat_map] in H. apply in_app_or in H. destruct H as [H|H].
  - apply repeat_spec in H. exists ec. split; [left; reflexivity|symmetry; exact H].
  - destruct (IH y H) as [ec' [H1 H2]]. exists ec'. split; [right; exact H1|exact H2].
Qed.

Lemma dedup_blocks : forall L, distinct L ->
  dedup_adj (expand L) = map fst (filter (fun ec => negb (Nat.eqb (snd ec) 0)) L).
Proof.
  induction L as [|[e c] L IH]; intros HD; [reflexivity|]. destruct HD as [Hd HD]. cbn [fst] in Hd.
  unfold expand. cbn [flat_map filter fst snd]. fold (expand L). destruct c as [|c].
  - cbn [repeat app Nat.eqb negb]. apply IH. exact HD.
  - cbn [Nat.eqb negb map fst]. rewrite dedup_block.
    + f_equal. apply IH. exact HD.
    + intros y Hy. destruct (expand_in L y Hy) as [ec [H1 H2]]. subst y. apply Hd. exact H1.
Qed.

(* ---------- assembling the theorem *)
Definition dirs_keyed (kids : list (string * tree)) : Prop :=
  forall n t, In (n, t) kids -> is_dir t = true -> keys_at n t <> [].

Definition topnodes (kids : list (string * tree)) : list (string * bool) := flat_map (fun nt => nodes_at (fst nt) (snd nt)) kids.

Lemma nodes_top : forall b kids, nodes_at "." (D b kids) = topnodes kids.
Proof.
  intros b kids. cbn [nodes_at String.eqb Ascii.eqb Bool.eqb app]. unfold topnodes.
  induction kids as [|[n c] r IH]; [reflexivity|]. cbn [flat_map fst snd]. rewrite IH. reflexivity.
Qed.

Lemma keys_top : forall b kids, keys_at "." (D b kids) = flat_map (fun nt => keys_at (fst nt) (snd nt)) kids.
Proof.
  intros b kids. cbn [keys_at String.eqb Ascii.eqb Bool.eqb negb andb]. rewrite andb_false_r. cbn [app].
  induction kids as [|[n c] r IH]; [reflexivity|]. cbn [flat_map fst snd]. rewrite IH. reflexivity.
Qed.

Lemma nodes_head : forall n t, n <> "."%string -> exists o rest, nodes_at n t = (fst (tnode (n, t)), o) :: rest.
Proof.
  intros n t Hd. destruct t as [b|b kids]; cbn [nodes_at tnode fst snd].
  - exists b, []. destruct b; reflexivity.
  - destruct (String.eqb n ".") eqn:E; [apply String.eqb_eq in E; congruence|]. cbn [app]. eexists. eexists. reflexivity.
Qed.

Lemma top_in_nodes : forall kids y, top_ok kids -> In y (map fst (map tnode kids)) -> In y (map fst (topnodes kids)).
Proof.
  induction kids as [|[n t] r IH]; intros y Hk Hy; [destruct Hy|].
  destruct (Hk n t (or_introl eq_refl)) as [H1 _]. destruct (nodes_head n t H1) as [o [rest Hh]].
  unfold topnodes. cbn [flat_map fst snd]. fold (topnodes r). rewrite map_app. apply in_or_app.
  cbn [map] in Hy. destruct Hy as [Hy|Hy].
  - left. rewrite Hh. left. exact Hy.
  - right. apply IH; [|exact Hy]. intros n' t' Hin. apply (Hk n' t'). right. exact Hin.
Qed.

Lemma top_sorted : forall kids, top_ok kids -> sorted_b (map fst (topnodes kids)) = true -> sorted_b (map fst (map tnode kids)) = true.
Proof.
  induction kids as [|[n t] r IH]; intros Hk Hs; [reflexivity|].
  assert (Hk' : top_ok r) by (intros n' t' Hin; apply (Hk n' t'); right; exact Hin).
  destruct (Hk n t (or_introl eq_refl)) as [H1 _]. destruct (nodes_head n t H1) as [o [rest Hh]].
  unfold topnodes in Hs. cbn [flat_map fst snd] in Hs. fold (topnodes r) in Hs. rewrite map_app in Hs.
  cbn [map]. apply sorted_cons_all.
  - apply IH; [exact Hk'|]. eapply sorted_app_r. exact Hs.
  - intros y Hy. rewrite Hh in Hs. cbn [map fst app] in Hs.
    apply (sorted_head_lt _ (map fst rest ++ map fst (topnodes r))); [exact Hs|]. apply in_or_app. right. apply top_in_nodes; assumption.
Qed.

Lemma entries_top : forall kids, top_ok kids -> (forall n t, In (n, t) kids -> names_ok t) ->
  map (entry_of "" "/") (flat_map (fun nt => keys_at (fst nt) (snd nt)) kids) =
  expand (map (fun nt => (to_entry (tnode nt), kcount nt)) kids).
Proof.
  induction kids as [|[n t] r IH]; intros Hk Hn; [reflexivity|].
  destruct (Hk n t (or_introl eq_refl)) as [H1 [H2 H3]].
  cbn [flat_map map fst snd]. unfold expand. cbn [flat_map fst snd]. fold (expand (map (fun nt => (to_entry (tnode nt), kcount nt)) r)).
  rewrite map_app, entries_kid by (try assumption; apply (Hn n t); left; reflexivity). f_equal.
  apply IH; [intros n' t' Hin; apply (Hk n' t'); right; exact Hin|intros n' t' Hin; apply (Hn n' t'); right; exact Hin].
Qed.

Lemma entry_eqb_text : forall a b, entry_eqb a b = true -> etext a = etext b.
Proof. intros [x|x] [y|y] H; cbn [entry_eqb] in H; try discriminate; apply String.eqb_eq in H; exact H. Qed.

Lemma top_distinct {A} (f : A -> string * kind) (cnt : A -> nat) : forall l, sorted_b (map fst (map f l)) = true ->
  distinct (map (fun a => (to_entry (f a), cnt a)) l).
Proof.
  induction l as [|e tn IH]; intros Hs; [exact I|]. cbn [map distinct fst]. split.
  - intros ec' Hin. apply in_map_iff in Hin. destruct Hin as [e' [He' Hin]]. subst ec'. cbn [fst].
    destruct (entry_eqb (to_entry (f e)) (to_entry (f e'))) eqn:E; [|reflexivity].
    apply entry_eqb_text in E. rewrite !etext_to_entry in E.
    assert (Hlt : str_ltb (fst (f e)) (fst (f e')) = true).
    { cbn [map] in Hs. apply (sorted_head_lt (fst (f e)) (map fst (map f tn))); [exact Hs|]. apply in_map. apply in_map. exact Hin. }
    rewrite E, str_ltb_irrefl in Hlt. discriminate.
  - apply IH. cbn [map] in Hs. eapply sorted_tail. exact Hs.
Qed.

Lemma keyed_count : forall n t, dirs_keyed [(n, t)] -> negb (Nat.eqb (kcount (n, t)) 0) = keyed (tnode (n, t)).
Proof.
  intros n t Hk. unfold kcount, keyed, tnode. cbn [fst snd]. destruct t as [b|b kids].
  - destruct b; reflexivity.
  - cbn [snd]. specialize (Hk n (D b kids) (or_introl eq_refl) eq_refl).
    destruct (keys_at n (D b kids)); [congruence|reflexivity].
Qed.

Lemma keyed_entries : forall kids, dirs_keyed kids ->
  map fst (filter (fun ec : entry * nat => negb (Nat.eqb (snd ec) 0)) (map (fun nt => (to_entry (tnode nt), kcount nt)) kids)) =
  map to_entry (filter keyed (map tnode kids)).
Proof.
  induction kids as [|[n t] r IH]; intros Hk; [reflexivity|]. cbn [map filter fst snd].
  rewrite keyed_count by (intros n' t' [Hin|[]] Hd; inversion Hin; subst; apply (Hk n' t'); [left; reflexivity|exact Hd]).
  assert (IH' := IH (fun n' t' Hin => Hk n' t' (or_intror Hin))).
  destruct (keyed (tnode (n, t))); cbn [map fst]; rewrite IH'; reflexivity.
Qed.

Lemma after_entries : forall marker tn,
  filter (fun e => String.eqb marker "" || str_ltb marker (etext e)) (map to_entry (filter keyed tn)) = Es marker (String.eqb marker "") tn.
Proof.
  intros marker. induction tn as [|e tn IH]; [reflexivity|]. rewrite Es_cons. unfold elig. cbn [filter].
  destruct (keyed e); cbn [andb map filter app]; [|exact IH]. rewrite etext_to_entry.
  destruct (String.eqb marker "" || str_ltb marker (fst e)); cbn [app]; rewrite IH; reflexivity.
Qed.

Lemma firstn_sorted : forall n l, sorted_b l = true -> sorted_b (firstn n l) = true.
Proof. intros n l H. rewrite <- (firstn_skipn n l) in H. eapply sorted_app_l. exact H. Qed.

Lemma Es_sorted : forall marker pm tn, sorted_b (map fst tn) = true -> sorted_b (map etext (Es marker pm tn)) = true.
Proof.
  intros marker pm tn H. unfold Es. rewrite map_map.
  rewrite (map_ext (fun x => etext (to_entry x)) fst) by apply etext_to_entry. apply sorted_map_filter. exact H.
Qed.

Lemma top_facts : forall b kids, names_ok (D b kids) -> (forall n t, In (n, t) kids -> noslash n) ->
  sorted_b (map fst (nodes_at "." (D b kids))) = true ->
  top_ok kids /\ (forall n t, In (n, t) kids -> names_ok t) /\ sorted_b (map fst (map tnode kids)) = true.
Proof.
  intros b kids Hn Hsl Hs.
  assert (Hk : top_ok kids /\ (forall n t, In (n, t) kids -> names_ok t)).
  { cbn [names_ok] in Hn. clear Hs. induction kids as [|[n c] r IH]; [split; intros n t []|].
    destruct Hn as [H1 [H2 [H3 H4]]]. destruct (IH H4 (fun n' t' Hin => Hsl n' t' (or_intror Hin))) as [IH1 IH2]. split.
    - intros n' t' [Hin|Hin]; [inversion Hin; subst; repeat split; try assumption; apply (Hsl n' t'); left; reflexivity|apply (IH1 n' t'); exact Hin].
    - intros n' t' [Hin|Hin]; [inversion Hin; subst; exact H3|apply (IH2 n' t'); exact Hin]. }
  destruct Hk as [Hk Hnk]. split; [exact Hk|]. split; [exact Hnk|].
  apply top_sorted; [exact Hk|rewrite <- (nodes_top b); exact Hs].
Qed.

(* the S3 rule on the keys of the tree: its entries are the keyed top-level nodes *)
Lemma spec_entries : forall b kids marker, names_ok (D b kids) -> (forall n t, In (n, t) kids -> noslash n) -> dirs_keyed kids ->
  sorted_b (map fst (nodes_at "." (D b kids))) = true ->
  entries_after (keys_at "." (D b kids)) "" "/" marker = Es marker (String.eqb marker "") (map tnode kids).
Proof.
  intros b kids marker Hn Hsl Hdk Hs. destruct (top_facts b kids Hn Hsl Hs) as [Hk [Hnk Hts]].
  unfold entries_after. rewrite (filter_all (fun k => has_prefix k "")) by apply has_prefix_empty.
  rewrite keys_top, entries_top by assumption.
  rewrite dedup_blocks.
  - rewrite keyed_entries by exact Hdk. apply after_entries.
  - apply top_distinct. exact Hts.
Qed.

Lemma tn_nonempty : forall kids, top_ok kids -> forall e, In e (map tnode kids) -> fst e <> ""%string.
Proof.
  intros kids Hk e He. apply in_map_iff in He. destruct He as [[n t] [He Hin]]. subst e.
  destruct (Hk n t Hin) as [_ [H2 _]]. unfold tnode. cbn [fst snd]. destruct t; cbn [fst]; [exact H2|].
  destruct n; cbn [String.append]; discriminate.
Qed.

Theorem delimited_refines : forall b kids marker max,
  names_ok (D b kids) -> (forall n t, In (n, t) kids -> noslash n) -> dirs_keyed kids ->
  sorted_b (map fst (nodes_at "." (D b kids))) = true ->
  walk (D b kids) "" "/" marker max [] true = Some (s3_list (sort_strs (keys_at "." (D b kids))) "" "/" marker max).
Proof.
  intros b kids marker max Hn Hsl Hdk Hs.
  assert (Hks : sorted_b (keys_at "." (D b kids)) = true) by (rewrite keys_nodes; apply sorted_keys_of_nodes; exact Hs).
  rewrite sort_sorted by exact Hks.
  destruct (top_facts b kids Hn Hsl Hs) as [Hk [Hnk Hts]].
  set (tn := map tnode kids) in *.
  pose proof (spec_entries b kids marker Hn Hsl Hdk Hs) as Hspec. fold tn in Hspec.
  unfold walk. destruct (Nat.eqb max 0) eqn:E0.
  - apply Nat.eqb_eq in E0. subst max. unfold s3_list. cbn [firstn objs_of cps_of flat_map]. rewrite andb_false_r. reflexivity.
  - apply Nat.eqb_neq in E0. cbn [str_last_index last_index_from String.length has_prefix String.eqb Ascii.eqb Bool.eqb].
    set (s0 := {| objs := []; cps := []; pastMarker := String.eqb marker ""; pastMax := false; truncated := false; newMarker := "" |}).
    rewrite (walk_root_drun marker max b kids s0 Hk). fold tn.
    assert (HI : DInv max s0 []).
    { unfold DInv, s0. cbn [objs cps truncated pastMax newMarker List.length objs_of cps_of flat_map rev].
      repeat split; try lia; try discriminate. }
    assert (Hne : forall e, In e tn -> fst e <> ""%string) by (apply tn_nonempty; exact Hk).
    assert (Hpm : pastMarker s0 = true -> marker = ""%string \/ forall e, In e tn -> str_ltb marker (fst e) = true).
    { unfold s0. cbn [pastMarker]. intros H. left. apply String.eqb_eq. exact H. }
    pose proof (dpage marker max ltac:(lia) tn s0 [] Hts Hne HI Hpm) as Hp.
    pose proof (drun_ctl marker max tn s0) as Hc.
    destruct (drun marker max tn s0) as [c s']. cbn [fst snd] in Hp, Hc.
    unfold Post in Hp. cbv zeta in Hp. cbn [List.length app] in Hp. rewrite Nat.sub_0_r in Hp. unfold s0 in Hp. cbn [pastMarker] in Hp.
    destruct Hp as [H1 [H2 [H3 H4]]].
    match goal with |- _ = Some ?R =>
      assert (Hres : {| r_objs := objs s'; r_cps := sort_strs (cps s'); r_trunc := truncated s'; r_next := if truncated s' then newMarker s' else "" |} = R) end.
    { unfold s3_list. rewrite Hspec. cbv zeta. rewrite (proj2 (Nat.eqb_neq max 0) E0). cbn [negb]. rewrite andb_true_r.
      rewrite H1, H2, H3. rewrite sort_rev.
      - destruct (Nat.ltb max (List.length (Es marker (String.eqb marker "") tn))) eqn:Et; [|reflexivity].
        rewrite (H4 H3). reflexivity.
      - apply sorted_cps. rewrite <- firstn_map. apply firstn_sorted. apply Es_sorted. exact Hts. }
    destruct Hc as [Hc|Hc]; subst c; cbv beta iota; rewrite Hres; reflexivity.
Qed.

(* ---------- following the markers of delimited pages: every entry once, in order *)
Definition egt (m : string) (e : entry) : bool := gt m (etext e).

Lemma egt_filter_map : forall m E, map etext (filter (egt m) E) = filter (gt m) (map etext E).
Proof. intros m. induction E as [|e E IH]; [reflexivity|]. cbn [filter map]. unfold egt at 1. destruct (gt m (etext e)); cbn [map]; rewrite IH; reflexivity. Qed.

Lemma efilter_gt_split : forall X p Q, sorted_b (map etext (X ++ p :: Q)) = true -> etext p <> "" -> filter (egt (etext p)) (X ++ p :: Q) = Q.
Proof.
  intros X p Q Hs Hp. rewrite map_app in Hs. cbn [map] in Hs. rewrite filter_app. rewrite (filter_none_in (egt (etext p)) X).
  - cbn [app filter]. unfold egt at 1. unfold gt. rewrite str_ltb_irrefl, orb_false_r.
    destruct (String.eqb (etext p) "") eqn:E; [apply String.eqb_eq in E; congruence|].
    apply filter_all_in. intros x Hx. unfold egt, gt. rewrite E. cbn [orb].
    apply sorted_app_r in Hs. apply (sorted_head_lt (etext p) (map etext Q)); [exact Hs|apply in_map; exact Hx].
  - intros x Hx. unfold egt, gt. destruct (String.eqb (etext p) "") eqn:E; [apply String.eqb_eq in E; congruence|]. cbn [orb].
    apply str_ltb_asym. apply (sorted_app_lt (map etext X) (etext p :: map etext Q)); [exact Hs|apply in_map; exact Hx|left; reflexivity].
Qed.

Lemma efilter_gt_suffix : forall m E, sorted_b (map etext E) = true -> exists A, E = A ++ filter (egt m) E.
Proof.
  intros m. induction E as [|e E IH]; intros Hs; [exists []; reflexivity|]. cbn [filter]. destruct (egt m e) eqn:Ee.
  - exists []. cbn [app]. f_equal. symmetry. apply filter_all_in. intros x Hx. unfold egt, gt in *.
    destruct (String.eqb m ""); [reflexivity|]. cbn [orb] in *. eapply str_ltb_trans; [exact Ee|].
    cbn [map] in Hs. apply (sorted_head_lt (etext e) (map etext E)); [exact Hs|apply in_map; exact Hx].
  - cbn [map] in Hs. destruct (IH (sorted_tail _ _ Hs)) as [A HA]. exists (e :: A). cbn [app]. f_equal. exact HA.
Qed.

(* the pages of the S3 rule over a list of entries *)
Fixpoint epages (E : list entry) (m : string) (max fuel : nat) : list entry :=
  match fuel with
  | O => []
  | S f => let R := filter (egt m) E in
           let page := firstn max R in
           page ++ (if Nat.ltb max (List.length R) then epages E (etext (last page (EObj ""))) max f else [])
  end.

Lemma efirstn_last_split : forall (l : list entry) n, 0 < n -> n < List.length l ->
  exists P', firstn n l = P' ++ [last (firstn n l) (EObj "")].
Proof.
  intros l n Hn Hl. destruct (firstn n l) as [|a r] eqn:E.
  - apply (f_equal (@List.length entry)) in E. rewrite firstn_length in E. cbn [List.length] in E. lia.
  - exists (removelast (a :: r)). apply app_removelast_last. discriminate.
Qed.

Theorem epages_all : forall E max, sorted_b (map etext E) = true -> (forall e, In e E -> etext e <> "") -> 0 < max ->
  forall fuel m, List.length (filter (egt m) E) < fuel -> epages E m max fuel = filter (egt m) E.
Proof.
  intros E max Hs Hne Hmax. induction fuel as [|f IH]; intros m Hf; [lia|]. cbn [epages]. cbv zeta. set (R := filter (egt m) E) in *.
  destruct (Nat.ltb max (List.length R)) eqn:El.
  - apply Nat.ltb_lt in El. destruct (efirstn_last_split R max Hmax El) as [P' HP]. set (p := last (firstn max R) (EObj "")) in *.
    destruct (efilter_gt_suffix m E Hs) as [A HA]. fold R in HA.
    assert (HK : E = (A ++ P') ++ p :: skipn max R). { rewrite HA at 1. rewrite <- (firstn_skipn max R) at 1. rewrite HP, <- !app_assoc. reflexivity. }
    assert (Hp : etext p <> ""). { apply Hne. rewrite HK. apply in_or_app. right. left. reflexivity. }
    assert (Hnext : filter (egt (etext p)) E = skipn max R). { rewrite HK at 1. apply efilter_gt_split; [rewrite <- HK; exact Hs|exact Hp]. }
    rewrite IH by (rewrite Hnext, skipn_length; lia). rewrite Hnext. apply firstn_skipn.
  - apply Nat.ltb_ge in El. rewrite app_nil_r. apply firstn_all2. exact El.
Qed.

(* the same over the real model: the objects and the common prefixes of page after page, from the empty marker *)
Fixpoint dwpages (t : tree) (m : string) (max fuel : nat) : list string * list string :=
  match fuel with
  | O => ([], [])
  | S f => match walk t "" "/" m max [] true with
           | Some r => let rest := if r_trunc r then dwpages t (r_next r) max f else ([], []) in
                       (r_objs r ++ fst rest, r_cps r ++ snd rest)
           | None => ([], [])
           end
  end.

Lemma filter_len {A} (f : A -> bool) : forall l, List.length (filter f l) <= List.length l.
Proof. induction l as [|x l IH]; cbn [filter List.length]; [lia|]. destruct (f x); cbn [List.length]; lia. Qed.

Theorem walk_delimited_pages_all : forall b kids max fuel,
  names_ok (D b kids) -> (forall n t, In (n, t) kids -> noslash n) -> dirs_keyed kids ->
  sorted_b (map fst (nodes_at "." (D b kids))) = true -> 0 < max -> List.length kids < fuel ->
  let E := entries_after (sort_strs (keys_at "." (D b kids))) "" "/" "" in
  dwpages (D b kids) "" max fuel = (objs_of E, cps_of E).
Proof.
  intros b kids max fuel Hn Hsl Hdk Hs Hmax Hf. cbv zeta. set (K := keys_at "." (D b kids)).
  assert (Hks : sorted_b K = true) by (unfold K; rewrite keys_nodes; apply sorted_keys_of_nodes; exact Hs).
  rewrite (sort_sorted K Hks).
  destruct (top_facts b kids Hn Hsl Hs) as [Hk [Hnk Hts]].
  set (E := entries_after K "" "/" "").
  assert (HE : E = Es "" true (map tnode kids)) by (unfold E, K; rewrite spec_entries by assumption; reflexivity).
  assert (Hes : forall m, entries_after K "" "/" m = filter (egt m) E).
  { intros m. unfold E, K. rewrite !spec_entries by assumption.
    rewrite <- (after_entries m (map tnode kids)). change (String.eqb "" "") with true. unfold Es.
    assert (Hall : filter (elig "" true) (map tnode kids) = filter keyed (map tnode kids)).
    { apply filter_ext. intros e. unfold elig. cbn [orb]. apply andb_true_r. }
    rewrite Hall. reflexivity. }
  assert (Hwp : forall f m, dwpages (D b kids) m max f = (objs_of (epages E m max f), cps_of (epages E m max f))).
  { induction f as [|f IH]; intros m; cbn [dwpages epages]; [reflexivity|].
    rewrite (delimited_refines b kids m max Hn Hsl Hdk Hs). fold K. rewrite (sort_sorted K Hks).
    unfold s3_list. rewrite Hes. cbv zeta. cbn [r_objs r_cps r_trunc r_next].
    replace (negb (Nat.eqb max 0)) with true by (symmetry; apply negb_true_iff; apply Nat.eqb_neq; lia). rewrite andb_true_r.
    rewrite objs_of_app, cps_of_app.
    destruct (Nat.ltb max (List.length (filter (egt m) E))); [rewrite IH|]; reflexivity. }
  rewrite Hwp. rewrite (epages_all E max).
  - rewrite filter_all_in by (intros; reflexivity). reflexivity.
  - rewrite HE. apply Es_sorted. exact Hts.
  - intros e He. rewrite HE in He. unfold Es in He. apply in_map_iff in He. destruct He as [x [Hx Hin]]. subst e.
    rewrite etext_to_entry. apply filter_In in Hin. apply (tn_nonempty kids Hk). tauto.
  - exact Hmax.
  - rewrite filter_all_in by (intros; reflexivity). rewrite HE. unfold Es. rewrite map_length.
    pose proof (filter_len (elig "" true) (map tnode kids)) as Hl. rewrite map_length in Hl. lia.
Qed.
