From Coq Require Import List Arith Bool Lia.
From VGW Require Import Model.Crash.
Import ListNotations.

Lemma firstn_steps (r : req) k : firstn k (steps_of r) = firstn (min k (length (steps_of r))) (steps_of r).
Proof. destruct (Nat.le_ge_cases k (length (steps_of r))) as [H|H]; [rewrite Nat.min_l by exact H; reflexivity|rewrite Nat.min_r by exact H; rewrite !firstn_all2 by lia; reflexivity]. Qed.

(* a killed request leaves the key in its complete previous state or in the complete new state *)
Theorem crash_leaves_old_or_new : forall s r k, bucket_exists s = true ->
  visible (exec_killed s r k) = visible s \/ visible (exec_killed s r k) = spec (visible s) r.
Proof.
  intros [d l be] r k B. cbn in B. subst be. unfold exec_killed, visible.
  destruct r as [[|] b|]; cbn [steps_of]; destruct k as [|[|[|[|k]]]]; cbn; auto.
Qed.

(* a request that ran to completion has its effect, whatever temporary files earlier kills left behind *)
Theorem completed_request_takes_effect : forall s r, bucket_exists s = true -> visible (exec s r) = spec (visible s) r /\ bucket_exists (exec s r) = true.
Proof. intros [d l be] r B. cbn in B. subst be. unfold exec, visible. destruct r as [[|] b|]; cbn; auto. Qed.

(* histories: requests that completed, then one that was killed: the key shows the result of the completed ones, with or
   without the killed one; in particular everything acknowledged before the kill is still in effect *)
Fixpoint spec_all (v : option nat) (rs : list req) : option nat := match rs with [] => v | r :: t => spec_all (spec v r) t end.
Lemma exec_all_spec : forall rs s, bucket_exists s = true ->
  visible (fold_left exec rs s) = spec_all (visible s) rs /\ bucket_exists (fold_left exec rs s) = true.
Proof.
  induction rs as [|r t IH]; intros s B; cbn; [auto|].
  destruct (completed_request_takes_effect s r B) as [V B1]. destruct (IH _ B1) as [A C]. rewrite A, V. auto.
Qed.
Theorem acknowledged_writes_survive : forall rs r k s, bucket_exists s = true ->
  let s1 := exec_killed (fold_left exec rs s) r k in
  visible s1 = spec_all (visible s) rs \/ visible s1 = spec_all (visible s) (rs ++ [r]).
Proof.
  intros rs r k s B s1. destruct (exec_all_spec rs s B) as [A C].
  destruct (crash_leaves_old_or_new (fold_left exec rs s) r k C) as [H|H]; subst s1; rewrite H, A.
  - left. reflexivity.
  - right. clear. generalize (visible s). induction rs as [|x t IH]; intros v; cbn; [destruct r; reflexivity|apply IH].
Qed.

(* leftovers are never visible and never in the way: from any state a kill can produce, later requests behave as from
   a clean one, and the emptied bucket can be deleted *)
Definition same_visible (a b : dstate) : Prop := dentry a = dentry b /\ bucket_exists a = bucket_exists b.
Theorem recovery_is_possible : forall s r k r2, bucket_exists s = true ->
  let s1 := exec_killed s r k in
  visible (exec s1 r2) = spec (visible s1) r2 /\
  bucket_exists (do_step (exec s1 Delete) S_rm_bucket) = false /\ leftovers (do_step (exec s1 Delete) S_rm_bucket) = [].
Proof.
  intros s r k r2 B s1.
  assert (B1 : bucket_exists s1 = true).
  { subst s1. destruct s as [d l be]. cbn in B. subst be. unfold exec_killed. destruct r as [[|] b|]; cbn [steps_of]; destruct k as [|[|[|[|k]]]]; cbn; auto. }
  split; [apply completed_request_takes_effect; exact B1|].
  destruct s1 as [d1 l1 be1]. cbn in B1. subst be1. unfold exec. cbn. auto.
Qed.
