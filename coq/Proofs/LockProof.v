From Coq Require Import List Bool.
From VGW Require Import Model.Lock.
Import ListNotations.

(* what an Allow verdict means for one of the named objects *)
Definition obj_unprotected (d : option (mode * bool)) (bypass pg : bool) (o : ret_lookup * hold_lookup) : Prop :=
  fst o <> R_nokey ->
  fst o <> R_some (Some Compliance) true /\
  (fst o = R_some (Some Governance) true -> governance_passes bypass pg = true) /\
  (snd o <> H_nokey ->
     snd o <> H_some true /\ d <> Some (Compliance, true) /\ (d = Some (Governance, true) -> governance_passes bypass pg = true)).

Lemma check_objects_head : forall d r h rest bypass pg, check_objects d ((r, h) :: rest) bypass pg = Allow ->
  obj_unprotected d bypass pg (r, h) /\ check_objects d rest bypass pg = Allow.
Proof.
  intros d r h rest bypass pg.
  destruct r as [| |[[|]|] [|]], h as [| |[|]], d as [[[|] [|]]|], bypass, pg; cbn [check_objects governance_passes andb negb];
    intros H; try discriminate; (split; [|exact H]); unfold obj_unprotected; cbn [fst snd governance_passes andb];
    intros N; try congruence; (split; [discriminate|]); (split; [intros E; try discriminate; reflexivity|]);
    intros N2; try congruence; (split; [discriminate|]); (split; [discriminate|]); intros E; try discriminate; reflexivity.
Qed.

Theorem allowed_means_unprotected : forall cfg_default objs bypass pg,
  check_object_access (C_enabled cfg_default) objs bypass pg = Allow -> Forall (obj_unprotected cfg_default bypass pg) objs.
Proof.
  intros d objs bypass pg. cbn [check_object_access]. induction objs as [|[r h] rest IH]; intros H; [constructor|].
  destruct (check_objects_head _ _ _ _ _ _ H) as [A B]. constructor; [exact A|apply IH; exact B].
Qed.

(* ---------- the protected version under sequences of requests *)
Fixpoint druns (s : pstate) (ops : list dop) : pstate :=
  match ops with [] => s | o :: r => druns (dstep s o) r end.

Lemma destroy_locked_hold s bypass pg : lock_enabled s = true -> present s = true -> hold s = true -> dstep s (Destroy bypass pg) = s.
Proof.
  intros L P H. unfold dstep, lookup_ret, lookup_hold. rewrite L, P, H. cbn [check_object_access check_objects].
  destruct (ret s) as [[[|] [|]]|]; cbn; try reflexivity; destruct (governance_passes bypass pg); reflexivity.
Qed.

(* legal hold: while nobody switches the hold off, no sequence of requests by anybody removes or changes the version *)
Theorem hold_protects : forall ops s, lock_enabled s = true -> present s = true -> hold s = true ->
  Forall (fun o => o <> SetHold false) ops ->
  present (druns s ops) = true /\ hold (druns s ops) = true.
Proof.
  induction ops as [|o r IH]; intros s L P H F; cbn [druns]; [auto|].
  inversion F as [|o' r' No Fr]; subst.
  assert (K : lock_enabled (dstep s o) = true /\ present (dstep s o) = true /\ hold (dstep s o) = true).
  { destruct o as [b pg|m a bok|on| |].
    - rewrite destroy_locked_hold by assumption. auto.
    - cbn [dstep]. destruct (put_retention_allowed _ _); cbn; auto.
    - destruct on; [cbn; auto|congruence].
    - cbn; auto.
    - cbn; auto. }
  destruct K as [L1 [P1 H1]]. apply IH; assumption.
Qed.

(* COMPLIANCE: no sequence of requests by anybody removes the version or removes, shortens or downgrades its retention *)
Theorem compliance_protects : forall ops s, lock_enabled s = true -> present s = true -> ret s = Some (Compliance, true) ->
  present (druns s ops) = true /\ ret (druns s ops) = Some (Compliance, true).
Proof.
  induction ops as [|o r IH]; intros s L P R; cbn [druns]; [auto|].
  assert (K : lock_enabled (dstep s o) = true /\ present (dstep s o) = true /\ ret (dstep s o) = Some (Compliance, true)).
  { destruct o as [b pg|m a bok|on| |].
    - unfold dstep, lookup_ret, lookup_hold. rewrite L, P, R. cbn. auto.
    - cbn [dstep]. rewrite R. cbn. auto.
    - cbn; auto.
    - cbn; auto.
    - cbn; auto. }
  destruct K as [L1 [P1 R1]]. apply IH; assumption.
Qed.

(* GOVERNANCE: only a request that carries the bypass flag by a caller whom the policy grants the bypass permission gets through *)
Definition no_bypass (o : dop) : Prop :=
  match o with
  | Destroy bypass pg => governance_passes bypass pg = false
  | SetRetention _ _ bok => bok = false
  | _ => True
  end.
Theorem governance_protects : forall ops s, lock_enabled s = true -> present s = true -> ret s = Some (Governance, true) ->
  Forall no_bypass ops ->
  present (druns s ops) = true /\ ret (druns s ops) = Some (Governance, true).
Proof.
  induction ops as [|o r IH]; intros s L P R F; cbn [druns]; [auto|].
  inversion F as [|o' r' No Fr]; subst.
  assert (K : lock_enabled (dstep s o) = true /\ present (dstep s o) = true /\ ret (dstep s o) = Some (Governance, true)).
  { destruct o as [b pg|m a bok|on| |]; cbn [no_bypass] in No.
    - unfold dstep, lookup_ret, lookup_hold. rewrite L, P, R. cbn [check_object_access check_objects]. rewrite No. cbn. auto.
    - cbn [dstep]. rewrite R. cbn [option_map fst put_retention_allowed]. rewrite No. auto.
    - cbn; auto.
    - cbn; auto.
    - cbn; auto. }
  destruct K as [L1 [P1 R1]]. apply IH; assumption.
Qed.

Theorem compliance_retention_rule : forall bypass_ok, put_retention_allowed (Some Compliance) bypass_ok = false.
Proof. reflexivity. Qed.
Theorem governance_retention_rule : forall bypass_ok, put_retention_allowed (Some Governance) bypass_ok = bypass_ok.
Proof. reflexivity. Qed.

(* the default rule protects what is uploaded under it, whatever happens to the rule afterwards (PutLockConfig is one of the ops) *)
Theorem default_rule_protects : forall ops m, Forall no_bypass ops ->
  present (druns (uploaded None (Some m) false) ops) = true /\ ret (druns (uploaded None (Some m) false) ops) = Some (m, true).
Proof.
  intros ops m Hnb. destruct m.
  - apply governance_protects; try reflexivity. exact Hnb.
  - apply compliance_protects; reflexivity.
Qed.
