From Coq Require Import String Ascii List ZArith Lia Bool.
From VGW Require Import Base.GoStr Base.GoStrFacts Model.Range Spec.RangeSpec.
Import ListNotations.
Open Scope string_scope.
Open Scope Z_scope.

Definition shape (hdr sa sb : string) : Prop :=
  hdr = "bytes=" ++ sa ++ "-" ++ sb /\
  has_char "=" sa = false /\ has_char "-" sa = false /\
  has_char "=" sb = false /\ has_char "-" sb = false.

Lemma shape_split hdr sa sb : shape hdr sa sb ->
  split_char "=" hdr = ["bytes"; sa ++ "-" ++ sb] /\ split_char "-" (sa ++ "-" ++ sb) = [sa; sb].
Proof.
  intros [E [A1 [A2 [B1 B2]]]]. split.
  - apply split_char_two. split; [exact E|]. split; [reflexivity|].
    rewrite has_char_app. cbn. rewrite A1, B1. reflexivity.
  - apply split_char_two. auto.
Qed.

Lemma split_shape hdr u r sa sb :
  split_char "=" hdr = [u; r] -> u = "bytes" -> split_char "-" r = [sa; sb] -> shape hdr sa sb.
Proof.
  intros H1 Hu H2. subst u.
  apply split_char_two in H1. destruct H1 as [E [_ Hr]].
  apply split_char_two in H2. destruct H2 as [E2 [A2 B2]]. subst r.
  rewrite has_char_app in Hr. cbn in Hr. apply orb_false_iff in Hr. destruct Hr as [A1 B1].
  unfold shape. repeat split; assumption.
Qed.

Lemma denotes_shape hdr a ob : denotes hdr a ob -> exists sa sb, shape hdr sa sb /\ parse_int10 sa = Some a /\
  ((sb = "" /\ ob = None) \/ (exists b, parse_int10 sb = Some b /\ ob = Some b /\ a <= b)).
Proof.
  intros [sa [sb [E [A1 [A2 [B1 [B2 [P Q]]]]]]]]. exists sa, sb. unfold shape. auto 10.
Qed.

Lemma shape_unique hdr sa sb sa' sb' : shape hdr sa sb -> shape hdr sa' sb' -> sa = sa' /\ sb = sb'.
Proof.
  intros S1 S2. apply shape_split in S1. apply shape_split in S2.
  destruct S1 as [E1 F1], S2 as [E2 F2].
  assert (E : sa ++ "-" ++ sb = sa' ++ "-" ++ sb') by congruence.
  rewrite E in F1. assert (L : [sa; sb] = [sa'; sb']) by congruence. inversion L. auto.
Qed.

(* shape_b computes exactly the shape *)
Lemma shape_b_spec hdr sa sb : shape_b hdr = Some (sa, sb) <-> shape hdr sa sb.
Proof.
  unfold shape_b. split.
  - destruct (split_char "=" hdr) as [|u [|r [|x l]]] eqn:S1; try discriminate.
    destruct (String.eqb u "bytes") eqn:Hu; [|discriminate]. apply String.eqb_eq in Hu.
    destruct (split_char "-" r) as [|a [|b [|y l2]]] eqn:S2; try discriminate.
    intros H; inversion H; subst. eapply split_shape; eauto.
  - intros S. apply shape_split in S. destruct S as [E1 E2]. rewrite E1. cbn [String.eqb].
    change (String.eqb "bytes" "bytes") with true. cbn iota. rewrite E2. reflexivity.
Qed.

Ltac no_denote :=
  let a := fresh "a" in let ob := fresh "ob" in let D := fresh "D" in
  intros a ob D; apply denotes_shape in D; destruct D as [sa' [sb' [S' [Pa' Q']]]].

Lemma range_exact_obj : forall size hdr, 0 <= size -> spec_ok size hdr (get_resp_obj size hdr).
Proof.
  intros size hdr Hsz. unfold get_resp_obj, parse_get_object_range.
  destruct (String.eqb hdr "") eqn:He.
  { apply String.eqb_eq in He. subst hdr. right; right. cbn. repeat split; try reflexivity.
    intros a ob [sa [sb [E _]]]. cbn in E. discriminate. }
  destruct (split_char "=" hdr) as [|u [|r [|x l]]] eqn:S1;
    try (right; right; cbn; repeat split; try reflexivity; no_denote;
         apply shape_split in S'; destruct S' as [E1 _]; rewrite S1 in E1; discriminate).
  destruct (String.eqb u "bytes") eqn:Hu; cbn [negb].
  2:{ right; right; cbn; repeat split; try reflexivity. no_denote.
      apply shape_split in S'. destruct S' as [E1 _]. rewrite S1 in E1. inversion E1; subst.
      cbn in Hu. discriminate. }
  apply String.eqb_eq in Hu.
  destruct (split_char "-" r) as [|sa [|sb [|y l2]]] eqn:S2;
    try (right; right; cbn; repeat split; try reflexivity; no_denote;
         apply shape_split in S'; destruct S' as [E1 E2]; rewrite S1 in E1; inversion E1; subst;
         cbn [append] in *; congruence).
  pose proof (split_shape _ _ _ _ _ S1 Hu S2) as SH.
  destruct (parse_int10 sa) as [s|] eqn:Pa.
  2:{ right; right; cbn; repeat split; try reflexivity. no_denote.
      destruct (shape_unique _ _ _ _ _ SH S') as [? ?]; subst. congruence. }
  destruct (size <=? s) eqn:Hle.
  { right; left. cbn. split; [reflexivity|]. apply Z.leb_le in Hle. exists s. split; [|exact Hle].
    destruct SH as [E [A1 [A2 [B1 B2]]]]. exists sa, sb. repeat split; auto. }
  apply Z.leb_gt in Hle.
  destruct (String.eqb sb "") eqn:Hb.
  { apply String.eqb_eq in Hb. left. cbn. split; [reflexivity|]. exists s, None. split; [|split; [lia|]].
    - destruct SH as [E [A1 [A2 [B1 B2]]]]. exists sa, sb. repeat split; auto.
    - cbn. repeat split; try lia. f_equal. f_equal. f_equal. lia. }
  destruct (parse_int10 sb) as [e|] eqn:Pb.
  2:{ right; right; cbn; repeat split; try reflexivity. no_denote.
      destruct (shape_unique _ _ _ _ _ SH S') as [? ?]; subst.
      destruct Q' as [[Q1 _]|[b [Q1 _]]]; [subst; cbn in Hb; discriminate | congruence]. }
  destruct (e <? s) eqn:Hes.
  { apply Z.ltb_lt in Hes. right; right; cbn; repeat split; try reflexivity. no_denote.
    destruct (shape_unique _ _ _ _ _ SH S') as [? ?]; subst.
    destruct Q' as [[Q1 _]|[b [Q1 [_ Q3]]]]; [subst; cbn in Hb; discriminate |].
    rewrite Pa in Pa'. inversion Pa'; subst. rewrite Pb in Q1. inversion Q1; subst. lia. }
  apply Z.ltb_ge in Hes.
  assert (D : denotes hdr s (Some e)).
  { destruct SH as [E [A1 [A2 [B1 B2]]]]. exists sa, sb. repeat split; auto. right. exists e. auto. }
  destruct (size <=? e) eqn:Hse.
  - apply Z.leb_le in Hse. left. cbn. split; [reflexivity|]. exists s, (Some e). split; [exact D|]. split; [lia|].
    cbn. rewrite Z.min_r by lia. repeat split; try lia. f_equal. f_equal. f_equal. lia.
  - apply Z.leb_gt in Hse. left. cbn. split; [reflexivity|]. exists s, (Some e). split; [exact D|]. split; [lia|].
    cbn. rewrite Z.min_l by lia. repeat split; try lia. f_equal. f_equal. f_equal. lia.
Qed.

Lemma digits_acc_nonneg s : forall acc v, 0 <= acc -> digits_acc s acc = Some v -> 0 <= v.
Proof.
  induction s as [|c s IH]; intros acc v Ha H; cbn in H.
  - inversion H; subst; exact Ha.
  - unfold digit_val in H.
    destruct ((48 <=? Z.of_N (N_of_ascii c)) && (Z.of_N (N_of_ascii c) <=? 57)) eqn:E; [|discriminate].
    apply andb_true_iff in E. destruct E as [E1 E2]. apply Z.leb_le in E1.
    eapply IH; [|exact H]. lia.
Qed.

Lemma parse_int10_nodash_nonneg s a : has_char "-" s = false -> parse_int10 s = Some a -> 0 <= a.
Proof.
  intros Hd H. destruct s as [|c r]; [discriminate|]. cbn in Hd. apply orb_false_iff in Hd. destruct Hd as [Hc Hr].
  unfold parse_int10 in H. destruct (Ascii.eqb c "+") eqn:Ep.
  - destruct r as [|c' r']; [discriminate|].
    destruct (digits_acc (String c' r') 0) as [v|] eqn:Dv; [|discriminate].
    apply digits_acc_nonneg in Dv; [|lia].
    destruct ((int64_min <=? v) && (v <=? int64_max)); inversion H; subst; exact Dv.
  - rewrite Hc in H.
    destruct (digits_acc (String c r) 0) as [v|] eqn:Dv; [|discriminate].
    apply digits_acc_nonneg in Dv; [|lia].
    destruct ((int64_min <=? v) && (v <=? int64_max)); inversion H; subst; exact Dv.
Qed.

(* the body window never leaves the object, whatever the header *)
Lemma window_inside_obj : forall size hdr, 0 <= size ->
  let r := get_resp_obj size hdr in 0 <= boff r /\ 0 <= blen r /\ boff r + blen r <= size /\ clen r = blen r.
Proof.
  intros size hdr Hsz r. pose proof (range_exact_obj size hdr Hsz) as H. fold r in H.
  destruct H as [[_ [a [ob [D [Ha H]]]]] | [[H4 _] | [_ [_ [H1 [H2 [H3 _]]]]]]].
  - cbn zeta in H. destruct H as [H1 [H2 [H3 _]]].
    destruct D as [sa [sb [_ [_ [A2 [_ [_ [Pa Q]]]]]]]].
    pose proof (parse_int10_nodash_nonneg _ _ A2 Pa) as Hp.
    destruct ob as [b|].
    + destruct Q as [[_ Q]|[b' [_ [Q Hab]]]]; [discriminate|]. inversion Q; subst b'.
      rewrite H1, H2, H3. lia.
    + rewrite H1, H2, H3. lia.
  - subst r. unfold get_resp_obj in *. destruct (parse_get_object_range size hdr) as [s l v|]; cbn in *.
    + destruct v; discriminate.
    + lia.
  - rewrite H1, H2, H3. lia.
Qed.

Lemma range_exact : forall stat_size (is_dir : bool) hdr, 0 <= stat_size ->
  spec_ok (if is_dir then 0 else stat_size) hdr (get_resp stat_size is_dir hdr).
Proof. intros. unfold get_resp. apply range_exact_obj. destruct is_dir; lia. Qed.

Lemma window_inside : forall stat_size (is_dir : bool) hdr, 0 <= stat_size ->
  let r := get_resp stat_size is_dir hdr in
  let size := if is_dir then 0 else stat_size in
  0 <= boff r /\ 0 <= blen r /\ boff r + blen r <= size /\ clen r = blen r.
Proof. intros. unfold r, get_resp. apply window_inside_obj. destruct is_dir; lia. Qed.

(* converse: a header that denotes a range starting inside the object is answered 206 *)
Lemma denoting_is_206 : forall size hdr a ob, 0 <= size -> denotes hdr a ob -> a < size ->
  status (get_resp_obj size hdr) = 206.
Proof.
  intros size hdr a ob Hsz D Ha. pose proof (range_exact_obj size hdr Hsz) as H.
  destruct H as [[H _] | [[_ [a' [F Hle]]] | [_ [H _]]]]; [exact H | | specialize (H a ob D); lia].
  exfalso. apply denotes_shape in D. destruct D as [sa [sb [S [Pa _]]]].
  destruct F as [sa' [sb' [E [A1 [A2 [B1 [B2 Pa']]]]]]].
  assert (S' : shape hdr sa' sb') by (unfold shape; auto).
  destruct (shape_unique _ _ _ _ _ S S') as [? ?]; subst. rewrite Pa in Pa'. inversion Pa'; subst. lia.
Qed.

(* the executable Spec evaluator used on observations is sound for the Prop *)
Lemma denotes_b_sound hdr a ob : denotes_b hdr = Some (a, ob) -> denotes hdr a ob.
Proof.
  unfold denotes_b. destruct (shape_b hdr) as [[sa sb]|] eqn:S; [|discriminate].
  apply shape_b_spec in S. destruct S as [E [A1 [A2 [B1 B2]]]].
  destruct (parse_int10 sa) as [x|] eqn:Pa; [|discriminate].
  destruct (String.eqb sb "") eqn:Hb.
  - apply String.eqb_eq in Hb. intros H; inversion H; subst. exists sa, "". repeat split; auto.
  - destruct (parse_int10 sb) as [b|] eqn:Pb; [|discriminate].
    destruct (x <=? b) eqn:L; [|discriminate]. apply Z.leb_le in L.
    intros H; inversion H; subst. exists sa, sb. repeat split; auto. right. exists b. auto.
Qed.

Lemma denotes_b_complete hdr a ob : denotes hdr a ob -> denotes_b hdr = Some (a, ob).
Proof.
  intros D. apply denotes_shape in D. destruct D as [sa [sb [S [Pa Q]]]].
  apply shape_b_spec in S. unfold denotes_b. rewrite S, Pa.
  destruct Q as [[Q1 Q2]|[b [Q1 [Q2 Q3]]]].
  - subst. reflexivity.
  - destruct (String.eqb sb "") eqn:Hb.
    + apply String.eqb_eq in Hb. subst. discriminate.
    + rewrite Q1. apply Z.leb_le in Q3. rewrite Q3. subst. reflexivity.
Qed.

Lemma first_pos_b_sound hdr a : first_pos_b hdr = Some a -> first_pos hdr a.
Proof.
  unfold first_pos_b. destruct (shape_b hdr) as [[sa sb]|] eqn:S; [|discriminate].
  apply shape_b_spec in S. destruct S as [E [A1 [A2 [B1 B2]]]]. intros P. exists sa, sb. repeat split; auto.
Qed.

Lemma opt3_eqb_eq x y : opt3_eqb x y = true -> x = y.
Proof.
  destruct x as [[[a b] c]|], y as [[[a' b'] c']|]; cbn; try discriminate; auto.
  intros H. apply andb_true_iff in H. destruct H as [H H3]. apply andb_true_iff in H. destruct H as [H1 H2].
  apply Z.eqb_eq in H1, H2, H3. subst. reflexivity.
Qed.

Lemma spec_okb_sound size hdr r : spec_okb size hdr r = true -> spec_ok size hdr r.
Proof.
  unfold spec_okb. destruct (status r =? 206) eqn:S6.
  { apply Z.eqb_eq in S6. destruct (denotes_b hdr) as [[a ob]|] eqn:D; [|discriminate].
    intros H. repeat (apply andb_true_iff in H; destruct H as [H ?]).
    left. split; [exact S6|]. exists a, ob. split; [apply denotes_b_sound; exact D|].
    match goal with X : opt3_eqb _ _ = true |- _ => apply opt3_eqb_eq in X end.
    repeat match goal with X : (_ =? _) = true |- _ => apply Z.eqb_eq in X end.
    apply Z.ltb_lt in H. cbn zeta. auto. }
  destruct (status r =? 416) eqn:S4.
  { apply Z.eqb_eq in S4. destruct (first_pos_b hdr) as [a|] eqn:F; [|discriminate].
    intros H. apply Z.leb_le in H. right; left. split; [exact S4|]. exists a. split; [apply first_pos_b_sound; exact F|exact H]. }
  destruct (status r =? 200) eqn:S2; [|discriminate].
  apply Z.eqb_eq in S2. intros H. repeat (apply andb_true_iff in H; destruct H as [H ?]).
  right; right. split; [exact S2|].
  match goal with X : opt3_eqb _ _ = true |- _ => apply opt3_eqb_eq in X end.
  repeat match goal with X : (_ =? _) = true |- _ => apply Z.eqb_eq in X end.
  repeat split; auto.
  intros a ob D. apply denotes_b_complete in D. rewrite D in H. apply Z.leb_le in H. exact H.
Qed.
