(* With no prefix, delimiter or marker and a page that never fills, Walk returns exactly the keys of the tree
   (files and directory objects) in directory order: unpaginated completeness, soundness and order. *)
From Coq Require Import String Ascii List Arith Lia Bool.
From VGW Require Import Base.GoStr Model.Walk Spec.ListSpec Proofs.WalkProof.
Import ListNotations.
Open Scope string_scope.
Open Scope list_scope.

Definition objs_set (s : st) (o : list string) : st :=
  {| objs := o; cps := cps s; pastMarker := pastMarker s; pastMax := pastMax s; truncated := truncated s; newMarker := newMarker s |}.

Lemma objs_set_id s : objs_set s (objs s) = s.
Proof. destruct s; reflexivity. Qed.

(* names are sane path segments *)
Fixpoint names_ok (t : tree) : Prop :=
  match t with
  | F _ => True
  | D _ kids => (fix go (k : list (string * tree)) : Prop :=
                   match k with [] => True | (n, c) :: r => n <> "." /\ n <> "" /\ names_ok c /\ go r end) kids
  end.

Lemma pjoin_not_dot d n : n <> "." -> n <> "" -> pjoin d n <> ".".
Proof.
  unfold pjoin. destruct (String.eqb d "."); [auto|].
  intros _ Hn H. destruct d as [|a d'].
  - cbn in H. inversion H.
  - cbn in H. inversion H as [[Ha Hd]]. destruct d'; cbn in Hd; discriminate.
Qed.

Section Flat.
  Variable max : nat.

  (* the callback on any node other than the root, in the simplest parameter setting *)
  Lemma cb_simple path name t s :
    path <> "." -> pastMarker s = true -> pastMax s = false -> cps s = [] ->
    List.length (objs s) + 1 < max ->
    cb "" "" "" max [] path name t s =
      (Cont, if isobj t then objs_set s (objs s ++ [if is_dir t then (path ++ "/")%string else path]) else s).
  Proof.
    intros Hp Hm Hx Hc Hl. unfold cb.
    destruct (String.eqb path ".") eqn:E; [apply String.eqb_eq in E; congruence|].
    cbn [existsb]. rewrite andb_false_r.
    destruct t as [b|b kids]; cbn [is_dir isobj String.eqb negb andb].
    - rewrite Hm. cbn [String.eqb negb andb].
      destruct b; [|reflexivity].
      unfold emit_obj. rewrite Hx, Hc. cbn [List.length].
      rewrite app_length. cbn [List.length].
      destruct (Nat.eqb (List.length (objs s) + 1 + 0) max) eqn:E2; [apply Nat.eqb_eq in E2; lia|].
      unfold objs_set. rewrite Hx, Hc. reflexivity.
    - rewrite Hm. cbn [String.eqb negb andb].
      destruct b; [|reflexivity].
      unfold emit_obj. rewrite Hx, Hc. cbn [List.length].
      rewrite app_length. cbn [List.length].
      destruct (Nat.eqb (List.length (objs s) + 1 + 0) max) eqn:E2; [apply Nat.eqb_eq in E2; lia|].
      unfold objs_set. rewrite Hx, Hc. reflexivity.
  Qed.

  Lemma keys_at_dir path b kids : path <> "." ->
    keys_at path (D b kids) = (if b then [(path ++ "/")%string] else []) ++
      (fix go (k : list (string * tree)) : list string :=
         match k with [] => [] | (n, c) :: r => keys_at (pjoin path n) c ++ go r end) kids.
  Proof.
    intros Hp. cbn [keys_at]. destruct (String.eqb path ".") eqn:E; [apply String.eqb_eq in E; congruence|].
    destruct b; reflexivity.
  Qed.

  Theorem walk_node_flat : forall t path name s,
    names_ok t -> path <> "." ->
    pastMarker s = true -> pastMax s = false -> cps s = [] ->
    List.length (objs s) + List.length (keys_at path t) + 1 < max ->
    walk_node "" "" "" max [] path name t s = (Cont, objs_set s (objs s ++ keys_at path t)).
  Proof.
    induction t as [b|b kids IH] using tree_ind'; intros path name s Hn Hp Hm Hx Hc Hl.
    - cbn [walk_node]. rewrite cb_simple; try assumption.
      + destruct b; cbn [isobj is_dir keys_at]; [reflexivity|]. rewrite app_nil_r, objs_set_id. reflexivity.
      + destruct b; cbn [keys_at List.length] in Hl; lia.
    - cbn [walk_node]. rewrite keys_at_dir in * by assumption.
      rewrite cb_simple; try assumption.
      2:{ rewrite app_length in Hl. destruct b; cbn [List.length] in Hl; lia. }
      cbn [isobj is_dir].
      set (s1 := if b then objs_set s (objs s ++ [(path ++ "/")%string]) else s).
      assert (Hm1 : pastMarker s1 = true) by (subst s1; destruct b; assumption).
      assert (Hx1 : pastMax s1 = false) by (subst s1; destruct b; assumption).
      assert (Hc1 : cps s1 = []) by (subst s1; destruct b; assumption).
      assert (Ho1 : objs s1 = objs s ++ (if b then [(path ++ "/")%string] else [])).
      { subst s1; destruct b; cbn [objs_set objs]; [reflexivity|rewrite app_nil_r; reflexivity]. }
      assert (Hs1 : objs_set s1 = objs_set s) by (subst s1; destruct b; reflexivity).
      rewrite app_assoc, <- Ho1. rewrite <- Hs1.
      assert (Hl1 : List.length (objs s1) + List.length
          ((fix go (k : list (string * tree)) : list string :=
             match k with [] => [] | (n, c) :: r => keys_at (pjoin path n) c ++ go r end) kids) + 1 < max).
      { rewrite Ho1, app_length. rewrite app_length in Hl. lia. }
      clearbody s1. clear Hl Ho1 Hs1 Hm Hx Hc.
      cbn [names_ok] in Hn.
      revert s1 Hm1 Hx1 Hc1 Hl1 Hn. induction IH as [|[n k] r Hkid Hr IHr]; intros s1 Hm Hx Hc Hl Hn.
      + rewrite app_nil_r, objs_set_id. reflexivity.
      + destruct Hn as [Hn1 [Hn2 [Hn3 Hn4]]]. cbn [snd] in Hkid.
        rewrite app_length in Hl.
        rewrite (Hkid (pjoin path n) n s1 Hn3 (pjoin_not_dot _ _ Hn1 Hn2) Hm Hx Hc) by lia.
        rewrite (IHr (objs_set s1 (objs s1 ++ keys_at (pjoin path n) k))); cbn [objs_set objs cps pastMarker pastMax]; try assumption.
        * rewrite <- app_assoc. reflexivity.
        * rewrite app_length. lia.
  Qed.

  (* the root directory "." itself is ignored by the callback and is not a key *)
  Theorem walk_root_flat : forall b kids s,
    names_ok (D b kids) ->
    pastMarker s = true -> pastMax s = false -> cps s = [] ->
    List.length (objs s) + List.length (keys_at "." (D b kids)) + 1 < max ->
    walk_node "" "" "" max [] "." "." (D b kids) s = (Cont, objs_set s (objs s ++ keys_at "." (D b kids))).
  Proof.
    intros b kids s Hn Hm Hx Hc Hl.
    cbn [walk_node].
    assert (Hcb : cb "" "" "" max [] "." "." (D b kids) s = (Cont, s)) by reflexivity.
    rewrite Hcb. clear Hcb. cbn [names_ok] in Hn.
    assert (K : keys_at "." (D b kids) =
      (fix go (k : list (string * tree)) : list string :=
         match k with [] => [] | (n, c) :: r => keys_at (pjoin "." n) c ++ go r end) kids).
    { cbn [keys_at String.eqb Ascii.eqb Bool.eqb negb andb]. rewrite andb_false_r. reflexivity. }
    rewrite K in *. clear K.
    revert s Hm Hx Hc Hl Hn. induction kids as [|[n k] r IHr]; intros s Hm Hx Hc Hl Hn.
    - rewrite app_nil_r, objs_set_id. reflexivity.
    - destruct Hn as [Hn1 [Hn2 [Hn3 Hn4]]].
      rewrite app_length in Hl.
      rewrite (walk_node_flat k (pjoin "." n) n s Hn3 (pjoin_not_dot _ _ Hn1 Hn2) Hm Hx Hc) by lia.
      rewrite (IHr (objs_set s (objs s ++ keys_at (pjoin "." n) k))); cbn [objs_set objs cps pastMarker pastMax]; try assumption.
      + rewrite <- app_assoc. reflexivity.
      + rewrite app_length. lia.
  Qed.
End Flat.

(* whole-bucket listing without pagination = the keys in directory order *)
Theorem walk_all_flat : forall b kids max, names_ok (D b kids) ->
  List.length (keys_at "." (D b kids)) + 1 < max ->
  walk (D b kids) "" "" "" max [] true =
    Some {| r_objs := keys_at "." (D b kids); r_cps := []; r_trunc := false; r_next := "" |}.
Proof.
  intros b kids max Hn Hl. unfold walk.
  destruct (Nat.eqb max 0) eqn:E; [apply Nat.eqb_eq in E; lia|].
  cbn [str_last_index last_index_from String.length has_prefix String.eqb].
  set (s0 := {| objs := []; cps := []; pastMarker := true; pastMax := false; truncated := false; newMarker := "" |}).
  rewrite (walk_root_flat max b kids s0 Hn eq_refl eq_refl eq_refl) by (cbn [objs s0 List.length]; lia).
  reflexivity.
Qed.
