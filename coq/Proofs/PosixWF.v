(* The trees the model of the posix backend builds keep the entries of a directory strictly sorted by name (kput inserts in order,
   kdel removes): a name occurs once, so removing an entry makes its name unresolvable. Needed for the delete side of C01's refinement. *)
From Coq Require Import String Ascii List Arith Bool ZArith Lia.
From VGW Require Import Base.GoStr Model.Walk Model.Paths Model.Posix Spec.ListSpec Proofs.WalkRefine Proofs.WalkPage Proofs.PosixProof Proofs.PosixFrame.
Import ListNotations.
Open Scope string_scope.
Open Scope list_scope.

Fixpoint WF (t : node) : Prop :=
  match t with
  | NF _ _ => True
  | ND _ k => sorted_b (map fst k) = true /\
              (fix go (k : list (string * node)) : Prop := match k with [] => True | (_, c) :: r => WF c /\ go r end) k
  end.

Definition kidsWF (k : list (string * node)) : Prop :=
  (fix go (k : list (string * node)) : Prop := match k with [] => True | (_, c) :: r => WF c /\ go r end) k.

Lemma WF_dir : forall a k, WF (ND a k) <-> sorted_b (map fst k) = true /\ kidsWF k.
Proof. intros. reflexivity. Qed.

Lemma kidsWF_cons : forall n c r, kidsWF ((n, c) :: r) <-> WF c /\ kidsWF r.
Proof. intros. reflexivity. Qed.

Lemma kfind_none_above : forall k s, (forall y, In y (map fst k) -> str_ltb s y = true) -> kfind k s = None.
Proof.
  induction k as [|[m t] r IH]; intros s H; [reflexivity|]. cbn [kfind].
  destruct (String.eqb m s) eqn:E.
  - apply String.eqb_eq in E. subst m. specialize (H s (or_introl eq_refl)). rewrite str_ltb_irrefl in H. discriminate.
  - apply IH. intros y Hy. apply H. right. exact Hy.
Qed.

Lemma kfind_WF : forall k s c, kidsWF k -> kfind k s = Some c -> WF c.
Proof.
  induction k as [|[m t] r IH]; intros s c H F; [discriminate|]. destruct (proj1 (kidsWF_cons _ _ _) H) as [H1 H2]. cbn [kfind] in F.
  destruct (String.eqb m s); [inversion F; subst; exact H1|apply (IH s c H2 F)].
Qed.

Lemma names_kput : forall k s x y, In y (map fst (kput k s x)) -> y = s \/ In y (map fst k).
Proof.
  induction k as [|[m t] r IH]; intros s x y H; cbn [kput] in H.
  - destruct H as [H|[]]. left. symmetry. exact H.
  - destruct (String.eqb m s) eqn:E.
    + apply String.eqb_eq in E. subst m. destruct H as [H|H]; [left; symmetry; exact H|right; right; exact H].
    + destruct (str_ltb s m).
      * destruct H as [H|H]; [left; symmetry; exact H|right; exact H].
      * destruct H as [H|H]; [right; left; exact H|]. destruct (IH s x y H) as [H'|H']; [left; exact H'|right; right; exact H'].
Qed.

Lemma kput_sorted : forall k s x, sorted_b (map fst k) = true -> sorted_b (map fst (kput k s x)) = true.
Proof.
  induction k as [|[m t] r IH]; intros s x H; [reflexivity|]. cbn [kput].
  destruct (String.eqb m s) eqn:E.
  - apply String.eqb_eq in E. subst m. exact H.
  - destruct (str_ltb s m) eqn:L.
    + cbn [map fst]. cbn [map fst] in H. cbn [sorted_b]. rewrite L. exact H.
    + cbn [map fst] in *. apply sorted_cons_all; [apply IH; eapply sorted_tail; exact H|].
      intros y Hy. destruct (names_kput r s x y Hy) as [Hy'|Hy'].
      * subst y. destruct (str_ltb_tricho m s) as [T|[T|T]]; [exact T|subst; rewrite String.eqb_refl in E; discriminate|congruence].
      * apply (sorted_head_lt m (map fst r)); assumption.
Qed.

Lemma kput_kidsWF : forall k s x, kidsWF k -> WF x -> kidsWF (kput k s x).
Proof.
  induction k as [|[m t] r IH]; intros s x H Hx; cbn [kput]; [split; [exact Hx|exact I]|].
  destruct (proj1 (kidsWF_cons _ _ _) H) as [H1 H2].
  destruct (String.eqb m s); [apply kidsWF_cons; tauto|]. destruct (str_ltb s m); apply kidsWF_cons; [split; [exact Hx|apply kidsWF_cons; tauto]|split; [exact H1|apply IH; assumption]].
Qed.

Lemma names_kdel : forall k s y, In y (map fst (kdel k s)) -> In y (map fst k).
Proof.
  induction k as [|[m t] r IH]; intros s y H; [exact H|]. cbn [kdel] in H. destruct (String.eqb m s); cbn [map fst In] in *; [tauto|].
  destruct H as [H|H]; [tauto|right; apply (IH s y H)].
Qed.

Lemma kdel_sorted : forall k s, sorted_b (map fst k) = true -> sorted_b (map fst (kdel k s)) = true.
Proof.
  induction k as [|[m t] r IH]; intros s H; [reflexivity|]. cbn [kdel]. cbn [map fst] in H.
  destruct (String.eqb m s); [eapply sorted_tail; exact H|]. cbn [map fst]. apply sorted_cons_all; [apply IH; eapply sorted_tail; exact H|].
  intros y Hy. apply (sorted_head_lt m (map fst r)); [exact H|apply (names_kdel r s y Hy)].
Qed.

Lemma kdel_kidsWF : forall k s, kidsWF k -> kidsWF (kdel k s).
Proof.
  induction k as [|[m t] r IH]; intros s H; [exact I|]. destruct (proj1 (kidsWF_cons _ _ _) H) as [H1 H2]. cbn [kdel].
  destruct (String.eqb m s); [exact H2|apply kidsWF_cons; split; [exact H1|apply IH; exact H2]].
Qed.

Lemma kfind_kdel_none : forall k s, sorted_b (map fst k) = true -> kfind (kdel k s) s = None.
Proof.
  induction k as [|[m t] r IH]; intros s H; [reflexivity|]. cbn [kdel]. cbn [map fst] in H.
  destruct (String.eqb m s) eqn:E.
  - apply String.eqb_eq in E. subst m. apply kfind_none_above. intros y Hy. apply (sorted_head_lt s (map fst r)); assumption.
  - cbn [kfind]. rewrite E. apply IH. eapply sorted_tail. exact H.
Qed.

(* ---------- the tree operations keep the invariant *)
Lemma WF_empty_dir : forall a, WF (ND a []).
Proof. intros a. split; [reflexivity|exact I]. Qed.

Lemma setp_WF : forall p t x, WF t -> WF x -> WF (setp t p x).
Proof.
  induction p as [|s r IH]; intros t x Ht Hx; [exact Hx|]. destruct t as [bl a|a k]; [exact Ht|]. cbn [setp].
  destruct (proj1 (WF_dir _ _) Ht) as [Hs Hk]. apply WF_dir. split; [apply kput_sorted; exact Hs|].
  apply kput_kidsWF; [exact Hk|]. destruct (kfind k s) as [c|] eqn:F; [apply IH; [apply (kfind_WF k s c Hk F)|exact Hx]|apply IH; [apply WF_empty_dir|exact Hx]].
Qed.

Lemma delp_WF : forall p t, WF t -> WF (delp t p).
Proof.
  induction p as [|s r IH]; intros t Ht; [destruct t; exact Ht|]. destruct t as [bl a|a k]; [rewrite delp_file; exact Ht|].
  destruct (proj1 (WF_dir _ _) Ht) as [Hs Hk]. destruct r as [|s2 r2].
  - rewrite delp_single. apply WF_dir. split; [apply kdel_sorted; exact Hs|apply kdel_kidsWF; exact Hk].
  - rewrite delp_deeper. destruct (kfind k s) as [c|] eqn:F; [|apply WF_dir; tauto].
    apply WF_dir. split; [apply kput_sorted; exact Hs|apply kput_kidsWF; [exact Hk|apply IH; apply (kfind_WF k s c Hk F)]].
Qed.

Lemma mkdir_all_WF : forall fuel t p t1, WF t -> mkdir_all fuel t p = Some t1 -> WF t1.
Proof.
  induction fuel as [|f IH]; intros t p t1 Ht H; [discriminate|]. cbn [mkdir_all] in H.
  destruct (lookp t p) as [[bl a|a k]| |]; [discriminate|inversion H; subst; exact Ht| |].
  all: destruct p as [|s r]; [inversion H; subst; exact Ht|].
  all: destruct (mkdir_all f t (removelast (s :: r))) as [t'|] eqn:M; [|discriminate].
  all: assert (Et : t1 = setp t' (s :: r) (ND [] [])) by congruence; rewrite Et; apply setp_WF; [apply (IH _ _ _ Ht M)|apply WF_empty_dir].
Qed.

Lemma remove_parents_WF : forall fuel root b p, WF root -> WF (remove_parents fuel root b p).
Proof.
  induction fuel as [|f IH]; intros root b p H; [exact H|]. cbn [remove_parents].
  destruct (removelast p) as [|x par]; [exact H|].
  destruct (lookp root (b :: x :: par)) as [[bl a|a k]| |]; try exact H.
  destruct (aget a "etag"); [exact H|]. destruct k; [|exact H]. apply IH. apply delp_WF. exact H.
Qed.

Lemma lookp_WF : forall p t n, WF t -> lookp t p = L_node n -> WF n.
Proof.
  induction p as [|s r IH]; intros t n Ht L; [cbn in L; inversion L; subst; exact Ht|].
  destruct t as [bl a|a k]; [discriminate|]. cbn [lookp] in L. destruct (kfind k s) as [c|] eqn:F; [|discriminate].
  destruct (proj1 (WF_dir _ _) Ht) as [_ Hk]. apply (IH c n (kfind_WF k s c Hk F) L).
Qed.

Theorem step_WF : forall root o, WF root -> WF (fst (step root o)).
Proof.
  intros root o H. destruct o as [b|b key blob len ctype meta|b key|b key|b pre dl af mx]; cbn [step].
  - destruct (lookp root [b]); cbn [fst]; try exact H. apply setp_WF; [exact H|apply WF_empty_dir].
  - destruct (valid_object_name key); cbn [negb fst]; [|exact H]. destruct (bucket_ok root b); cbn [negb fst]; [|exact H].
    destruct (ends_slash key).
    + destruct (negb (Nat.eqb len 0)); cbn [fst]; [exact H|].
      match goal with |- context [mkdir_all ?f ?t ?p] => destruct (mkdir_all f t p) as [r1|] eqn:M end; cbn [fst]; [|exact H].
      pose proof (mkdir_all_WF _ _ _ _ H M) as H1.
      destruct (lookp r1 (b :: segs key)) as [[bl a|a k]| |] eqn:L; cbn [fst]; try exact H.
      apply setp_WF; [exact H1|]. pose proof (lookp_WF _ _ _ H1 L) as Hn. exact (proj2 (WF_dir _ _) (proj1 (WF_dir _ _) Hn)).
    + destruct (lookp root (b :: segs key)) as [[bl a|a k]| |]; cbn [fst]; try exact H.
      all: match goal with |- context [mkdir_all ?f ?t ?p] => destruct (mkdir_all f t p) as [r1|] eqn:M end; cbn [fst]; [|exact H].
      all: apply setp_WF; [|exact I].
      all: refine (mkdir_all_WF _ _ _ _ _ M).
      all: destruct (lookp root [b; ".sgwtmp"]); try exact H; apply setp_WF; [exact H|apply WF_empty_dir].
  - destruct (valid_object_name key); cbn [negb fst]; [|exact H]. destruct (bucket_ok root b); cbn [negb fst]; [|exact H].
    destruct (lookp root (b :: segs key)) as [[bl a|a k]| |]; try exact H; destruct (ends_slash key); exact H.
  - destruct (valid_object_name key); cbn [negb fst]; [|exact H]. destruct (bucket_ok root b); cbn [negb fst]; [|exact H].
    destruct (lookp root (b :: segs key)) as [[bl a|a k]| |] eqn:L; cbn [fst]; try exact H.
    + destruct (ends_slash key); cbn [fst]; [exact H|]. apply remove_parents_WF. apply delp_WF. exact H.
    + destruct (negb (ends_slash key)); cbn [fst]; [exact H|]. destruct k as [|e k'].
      * cbn [fst]. apply remove_parents_WF. apply delp_WF. exact H.
      * destruct (aget a "etag"); cbn [fst]; [|exact H]. apply setp_WF; [exact H|].
        pose proof (lookp_WF _ _ _ H L) as Hn. exact (proj2 (WF_dir _ _) (proj1 (WF_dir _ _) Hn)).
  - destruct (lookp root [b]) as [[bl a|a k]| |]; cbn [fst]; try exact H. destruct (walk _ _ _ _ _ _ _); exact H.
Qed.

(* ---------- DeleteObject on the abstract map *)
Lemma getf_delp_self : forall p t r, WF t -> p <> [] -> getf (delp t p) (p ++ r) = None.
Proof.
  induction p as [|s r0 IH]; intros t r Ht Hp; [congruence|]. destruct t as [bl a|a k]; [rewrite delp_file; reflexivity|].
  destruct (proj1 (WF_dir _ _) Ht) as [Hs Hk]. destruct r0 as [|s2 r2].
  - rewrite delp_single. cbn [app]. rewrite getf_dir_cons, kfind_kdel_none by exact Hs. reflexivity.
  - rewrite delp_deeper. cbn [app]. destruct (kfind k s) as [c|] eqn:F.
    + rewrite getf_dir_cons, kfind_kput_same. apply (IH c r (kfind_WF k s c Hk F)). discriminate.
    + rewrite getf_dir_cons, F. reflexivity.
Qed.

Lemma getf_below_file_node : forall p t bl a r, lookp t p = L_node (NF bl a) -> r <> [] -> getf t (p ++ r) = None.
Proof.
  induction p as [|s p IH]; intros t bl a r L Hr; cbn [app].
  - cbn in L. inversion L; subst t. destruct r; [congruence|reflexivity].
  - destruct t as [bl0 a0|a0 k]; [discriminate|]. cbn [lookp] in L. rewrite getf_dir_cons. destruct (kfind k s) as [c|]; [apply (IH c bl a r L Hr)|reflexivity].
Qed.

Lemma getf_below_empty_node : forall p t a r, lookp t p = L_node (ND a []) -> getf t (p ++ r) = None.
Proof.
  induction p as [|s p IH]; intros t a r L; cbn [app].
  - cbn in L. inversion L; subst t. apply getf_below_empty.
  - destruct t as [bl0 a0|a0 k]; [discriminate|]. cbn [lookp] in L. rewrite getf_dir_cons. destruct (kfind k s) as [c|]; [apply (IH c a r L)|reflexivity].
Qed.

Lemma getf_remove_parents : forall fuel root b p q, WF root -> getf (remove_parents fuel root b p) q = getf root q.
Proof.
  induction fuel as [|f IH]; intros root b p q H; [reflexivity|]. cbn [remove_parents].
  destruct (removelast p) as [|x par]; [reflexivity|].
  destruct (lookp root (b :: x :: par)) as [[bl a|a k]| |] eqn:L; try reflexivity.
  destruct (aget a "etag"); [reflexivity|]. destruct k; [|reflexivity].
  rewrite IH by (apply delp_WF; exact H).
  destruct (prefix_cases (b :: x :: par) q) as [[r Hr]|Hn].
  - subst q. rewrite getf_delp_self by (try exact H; discriminate). symmetry. apply (getf_below_empty_node _ _ a r L).
  - apply getf_delp_apart. exact Hn.
Qed.

Definition astep_all (m : amap) (o : op) (ob : obs) : amap :=
  match o, ob with
  | DeleteObject b key, O_ok => if ends_slash key then m else upd m (b :: segs key) None
  | _, _ => astep m o ob
  end.

Lemma abs_step_all : forall root m o, WF root -> (forall q, m q = getf root q) ->
  forall q, astep_all m o (snd (step root o)) q = getf (fst (step root o)) q.
Proof.
  intros root m o Hw Hm q. destruct (is_delete o) eqn:Hd.
  2:{ assert (E : astep_all m o (snd (step root o)) = astep m o (snd (step root o))) by (destruct o; try reflexivity; discriminate).
      rewrite E. apply abs_step; assumption. }
  destruct o as [b|b key blob len ctype meta|b key|b key|b pre dl af mx]; try discriminate. clear Hd.
  cbn [step]. destruct (valid_object_name key); cbn [negb fst snd astep_all astep]; [|apply Hm].
  destruct (bucket_ok root b); cbn [negb fst snd astep_all astep]; [|apply Hm].
  set (p := b :: segs key).
  assert (Hupd_none : getf root p = None -> forall q, upd m p None q = getf root q).
  { intros Hn q0. unfold upd. destruct (path_eqb q0 p) eqn:E; [apply path_eqb_eq in E; subst q0; symmetry; exact Hn|apply Hm]. }
  destruct (lookp root p) as [[bl a|a k]| |] eqn:L.
  - (* a file *)
    destruct (ends_slash key); cbn [fst snd astep_all]; [apply Hm|].
    rewrite getf_remove_parents by (apply delp_WF; exact Hw). unfold upd.
    destruct (path_eqb q p) eqn:E.
    + apply path_eqb_eq in E. subst q. symmetry.
      assert (E0 : getf (delp root p) (p ++ []) = None) by (apply getf_delp_self; [exact Hw|discriminate]). rewrite app_nil_r in E0. exact E0.
    + assert (Hq : q <> p) by (intros E2; apply path_eqb_eq in E2; congruence).
      rewrite Hm. destruct (prefix_cases p q) as [[r Hr]|Hn]; [|symmetry; apply getf_delp_apart; exact Hn].
      subst q. destruct r as [|s2 r2]; [rewrite app_nil_r in Hq; congruence|].
      rewrite getf_delp_self by (try exact Hw; discriminate). apply (getf_below_file_node p root bl a); [exact L|discriminate].
  - (* a directory *)
    destruct (ends_slash key); cbn [negb fst snd astep_all].
    + destruct k as [|e k'].
      * cbn [fst snd astep_all]. rewrite getf_remove_parents by (apply delp_WF; exact Hw). rewrite Hm.
        destruct (prefix_cases p q) as [[r Hr]|Hn]; [|symmetry; apply getf_delp_apart; exact Hn].
        subst q. rewrite getf_delp_self by (try exact Hw; discriminate). apply (getf_below_empty_node p root a r L).
      * destruct (aget a "etag"); cbn [fst snd astep_all astep]; [|apply Hm].
        rewrite (getf_setp_dir_attrs p root a (e :: k') _ q L). apply Hm.
    + apply Hupd_none. unfold getf. rewrite L. reflexivity.
  - cbn [fst snd astep_all]. destruct (ends_slash key); [apply Hm|]. apply Hupd_none. unfold getf. rewrite L. reflexivity.
  - cbn [fst snd astep_all]. destruct (ends_slash key); [apply Hm|]. apply Hupd_none. unfold getf. rewrite L. reflexivity.
Qed.

(* ---------- every history, from any well-formed tree (the empty one in particular) *)
Fixpoint run_abs_all (root : node) (m : amap) (ops : list op) : node * amap :=
  match ops with
  | [] => (root, m)
  | o :: r => run_abs_all (fst (step root o)) (astep_all m o (snd (step root o))) r
  end.

Theorem history_refines_map_all : forall ops root m, WF root -> (forall q, m q = getf root q) ->
  forall q, snd (run_abs_all root m ops) q = getf (fst (run_abs_all root m ops)) q.
Proof.
  induction ops as [|o r IH]; intros root m Hw Hm q; [apply Hm|].
  cbn [run_abs_all]. apply IH; [apply step_WF; exact Hw|]. apply abs_step_all; assumption.
Qed.

Lemma WF_root0 : WF root0.
Proof. split; [reflexivity|exact I]. Qed.

(* the statement for a client: starting from the empty store, after ANY sequence of operations a GetObject of a file key answers with
   the last acknowledged upload of that key that no acknowledged delete of it followed — or NoSuchKey *)
Theorem read_after_any_history : forall ops b key, ends_slash key = false ->
  let st := run_abs_all root0 (fun _ => None) ops in
  snd (step (fst st) (GetObject b key)) =
    if negb (valid_object_name key) then O_err InvalidURI else if negb (bucket_ok (fst st) b) then O_err NoSuchBucket
    else get_answer (snd st (b :: segs key)).
Proof.
  intros ops b key Hs. cbv zeta. rewrite get_file_key by exact Hs.
  rewrite (history_refines_map_all ops root0 (fun _ => None) WF_root0); [reflexivity|]. intros q. destruct q as [|s r]; reflexivity.
Qed.
