From Coq Require Import String Ascii List ZArith Bool Lia Arith.
From VGW Require Import Base.GoStr Base.GoStrFacts Model.Range Spec.RangeSpec Proofs.RangeProof Model.Multipart.
Import ListNotations.
Open Scope string_scope.
Open Scope Z_scope.

(* ---------- association lists *)
Lemma nfind_nput_same {A} (l : list (nat * A)) k v : nfind (nput l k v) k = Some v.
Proof. unfold nput. cbn. rewrite Nat.eqb_refl. reflexivity. Qed.
Lemma nfind_ndel_same {A} (l : list (nat * A)) k : nfind (ndel l k) k = None.
Proof. induction l as [|[j v] r IH]; cbn; [reflexivity|]. destruct (Nat.eqb j k) eqn:E; [exact IH|]. cbn. rewrite E. exact IH. Qed.
Lemma nfind_ndel_other {A} (l : list (nat * A)) k k' : k' <> k -> nfind (ndel l k) k' = nfind l k'.
Proof.
  intros H. induction l as [|[j v] r IH]; cbn; [reflexivity|].
  destruct (Nat.eqb j k) eqn:E.
  - apply Nat.eqb_eq in E. subst j. destruct (Nat.eqb k k') eqn:E2; [apply Nat.eqb_eq in E2; congruence|exact IH].
  - cbn. destruct (Nat.eqb j k'); [reflexivity|exact IH].
Qed.
Lemma nfind_nput_other {A} (l : list (nat * A)) k k' v : k' <> k -> nfind (nput l k v) k' = nfind l k'.
Proof.
  intros H. unfold nput. cbn. destruct (Nat.eqb k k') eqn:E; [apply Nat.eqb_eq in E; congruence|]. apply nfind_ndel_other. exact H.
Qed.

Lemma zfind_zput_same {A} (l : list (Z * A)) k v : zfind (zput l k v) k = Some v.
Proof.
  induction l as [|[j w] r IH]; cbn.
  - rewrite Z.eqb_refl. reflexivity.
  - destruct (j =? k) eqn:E; cbn.
    + rewrite Z.eqb_refl. reflexivity.
    + destruct (k <? j); cbn.
      * rewrite Z.eqb_refl. reflexivity.
      * rewrite E. exact IH.
Qed.
Lemma zfind_zput_other {A} (l : list (Z * A)) k k' v : k' <> k -> zfind (zput l k v) k' = zfind l k'.
Proof.
  intros H. induction l as [|[j w] r IH]; cbn.
  - destruct (k =? k') eqn:E; [apply Z.eqb_eq in E; congruence|reflexivity].
  - destruct (j =? k) eqn:E; cbn.
    + apply Z.eqb_eq in E. subst j. destruct (k =? k') eqn:E2; [apply Z.eqb_eq in E2; congruence|reflexivity].
    + destruct (k <? j); cbn.
      * destruct (k =? k') eqn:E2; [apply Z.eqb_eq in E2; congruence|reflexivity].
      * destruct (j =? k'); [reflexivity|exact IH].
Qed.

(* ---------- the validation loop *)
Fixpoint ascending (prev : Z) (l : list Z) : Prop :=
  match l with [] => True | n :: r => prev < n /\ ascending n r end.
Fixpoint all_but_last_big (ds : list data) : Prop :=
  match ds with
  | [] => True
  | d :: r => match r with [] => True | _ => min_part_size <= dlen d end /\ all_but_last_big r
  end.
Definition part_matches (stored : list (Z * data)) (p : Z * option data) (d : data) : Prop :=
  1 <= fst p /\ zfind stored (fst p) = Some d /\ exists c, snd p = Some c /\ data_eqb c d = true.

Lemma check_parts_ok : forall stored listed prev ds, check_parts stored listed prev = inr ds ->
  ascending prev (map fst listed) /\ Forall2 (part_matches stored) listed ds /\ all_but_last_big ds.
Proof.
  intros stored. induction listed as [|[n claim] rest IH]; intros prev ds H; cbn [check_parts] in H.
  - inversion H; subst. cbn. repeat split. constructor.
  - destruct (n <? 1) eqn:E1; [discriminate|]. destruct (n <=? prev) eqn:E2; [discriminate|].
    destruct (zfind stored n) as [d|] eqn:F; [|discriminate].
    destruct (match rest with [] => false | _ => dlen d <? min_part_size end) eqn:E3; [discriminate|].
    destruct (match claim with Some c => data_eqb c d | None => false end) eqn:E4; cbn [negb] in H; [|discriminate].
    destruct (check_parts stored rest n) as [e|ds'] eqn:R; [discriminate|].
    assert (Eds : ds = d :: ds') by congruence. subst ds.
    destruct (IH n ds' R) as [A [B C]].
    apply Z.ltb_ge in E1. apply Z.leb_gt in E2.
    split; [cbn; split; [lia|exact A]|]. split.
    + constructor; [|exact B]. unfold part_matches. cbn [fst snd]. split; [lia|]. split; [exact F|].
      destruct claim as [c|]; [|discriminate]. exists c. split; [reflexivity|exact E4].
    + cbn [all_but_last_big]. split; [|exact C].
      destruct rest as [|p rest']; cbn [check_parts] in R.
      * inversion R; subst. exact I.
      * destruct ds' as [|d' ds'']; [|apply Z.ltb_ge in E3; exact E3].
        inversion B.
Qed.

(* ---------- one step *)
Definition op_uid (o : op) : option nat :=
  match o with
  | Create _ _ u | UploadPart _ u _ _ | UploadPartCopy _ u _ _ _ | ListParts _ u _ _ | Complete _ u _ _ | Abort _ u => Some u
  | _ => None
  end.

Lemma find_up_some s k uid u : find_up s k uid = Some u -> nfind (ups s) uid = Some u /\ u_key u = k.
Proof.
  unfold find_up. destruct (nfind (ups s) uid) as [u'|]; [|discriminate].
  destruct (Nat.eqb (u_key u') k) eqn:E; [|discriminate]. intros H; inversion H; subst. apply Nat.eqb_eq in E. auto.
Qed.
Lemma find_up_none s k uid : nfind (ups s) uid = None -> find_up s k uid = None.
Proof. unfold find_up. intros ->. reflexivity. Qed.

Theorem complete_assembles : forall s k uid parts osz s' ds,
  step s (Complete k uid parts osz) = (s', O_complete ds) ->
  exists u, nfind (ups s) uid = Some u /\ u_key u = k /\
    ascending 0 (map fst parts) /\ Forall2 (part_matches (u_parts u)) parts ds /\ all_but_last_big ds /\
    nfind (objs s') k = Some {| o_data := concat ds; o_etag := EM ds; o_meta := u_meta u |} /\
    (forall k', k' <> k -> nfind (objs s') k' = nfind (objs s) k') /\
    nfind (ups s') uid = None /\ (forall uid', uid' <> uid -> nfind (ups s') uid' = nfind (ups s) uid').
Proof.
  intros s k uid parts osz s' ds H. cbn [step] in H.
  destruct parts as [|p0 prest]; [discriminate|].
  destruct (find_up s k uid) as [u|] eqn:F; [|discriminate].
  destruct (check_parts (u_parts u) (p0 :: prest) 0) as [e|ds0] eqn:C; [discriminate|].
  destruct (match osz with Some z => negb (z =? dlen (concat ds0)) | None => false end); [discriminate|].
  inversion H; subst s' ds0. clear H.
  destruct (find_up_some _ _ _ _ F) as [Fu Ku].
  destruct (check_parts_ok _ _ _ _ C) as [A [B D]].
  exists u. cbn [objs ups].
  split; [exact Fu|]. split; [exact Ku|]. split; [exact A|]. split; [exact B|]. split; [exact D|].
  split; [apply nfind_nput_same|]. split; [intros k' Hk; apply nfind_nput_other; exact Hk|].
  split; [apply nfind_ndel_same|intros uid' Hu; apply nfind_ndel_other; exact Hu].
Qed.

Theorem failed_complete_changes_nothing : forall s k uid parts osz s' e,
  step s (Complete k uid parts osz) = (s', O_err e) -> s' = s.
Proof.
  intros s k uid parts osz s' e H. cbn [step] in H.
  destruct parts as [|p0 prest]; [inversion H; reflexivity|].
  destruct (find_up s k uid) as [u|]; [|inversion H; reflexivity].
  destruct (check_parts (u_parts u) (p0 :: prest) 0) as [e'|ds0]; [inversion H; reflexivity|].
  destruct (match osz with Some z => negb (z =? dlen (concat ds0)) | None => false end); [inversion H; reflexivity|discriminate].
Qed.

Theorem objects_only_by_put_and_complete : forall s o,
  (forall k d m, o <> Put k d m) -> (forall ds, snd (step s o) <> O_complete ds) -> objs (fst (step s o)) = objs s.
Proof.
  intros s o NP NC. destruct o; cbn [step] in *; try reflexivity.
  - exfalso. eapply NP. reflexivity.
  - destruct ((n <? 1) || (10000 <? n)); [reflexivity|]. destruct (find_up s k uid); reflexivity.
  - destruct ((n <? 1) || (10000 <? n)); [reflexivity|]. destruct (find_up s k uid); [|reflexivity].
    destruct (nfind (objs s) src); [|reflexivity]. destruct (parse_copy_source_range _ _); reflexivity.
  - destruct (find_up s k uid); reflexivity.
  - destruct parts as [|p0 prest]; [reflexivity|]. destruct (find_up s k uid) as [u|]; [|reflexivity].
    destruct (check_parts (u_parts u) (p0 :: prest) 0) as [e'|ds0]; [reflexivity|].
    destruct (match osz with Some z => negb (z =? dlen (concat ds0)) | None => false end); [reflexivity|].
    exfalso. eapply NC. reflexivity.
  - destruct (find_up s k uid); reflexivity.
  - destruct (nfind (objs s) k); reflexivity.
Qed.

Theorem uploads_isolated : forall s o uid', op_uid o <> Some uid' -> nfind (ups (fst (step s o))) uid' = nfind (ups s) uid'.
Proof.
  intros s o uid' H. destruct o; cbn [step op_uid] in *; try reflexivity.
  - cbn. apply nfind_nput_other. congruence.
  - destruct ((n <? 1) || (10000 <? n)); [reflexivity|]. destruct (find_up s k uid); [|reflexivity]. cbn. apply nfind_nput_other. congruence.
  - destruct ((n <? 1) || (10000 <? n)); [reflexivity|]. destruct (find_up s k uid); [|reflexivity].
    destruct (nfind (objs s) src); [|reflexivity]. destruct (parse_copy_source_range _ _); try reflexivity. cbn. apply nfind_nput_other. congruence.
  - destruct (find_up s k uid); reflexivity.
  - destruct parts as [|p0 prest]; [reflexivity|]. destruct (find_up s k uid) as [u|]; [|reflexivity].
    destruct (check_parts (u_parts u) (p0 :: prest) 0) as [e'|ds0]; [reflexivity|].
    destruct (match osz with Some z => negb (z =? dlen (concat ds0)) | None => false end); [reflexivity|]. cbn. apply nfind_ndel_other. congruence.
  - destruct (find_up s k uid); [|reflexivity]. cbn. apply nfind_ndel_other. congruence.
  - destruct (nfind (objs s) k); reflexivity.
Qed.

Theorem abort_removes : forall s k uid s', step s (Abort k uid) = (s', O_ok) -> nfind (ups s') uid = None /\ objs s' = objs s.
Proof.
  intros s k uid s' H. cbn [step] in H. destruct (find_up s k uid); [|discriminate]. inversion H; subst. cbn. split; [apply nfind_ndel_same|reflexivity].
Qed.

Lemma option_nat_dec (x : option nat) (u : nat) : {x = Some u} + {x <> Some u}.
Proof. decide equality. apply Nat.eq_dec. Qed.

Definition creates (ops : list op) : list nat := flat_map (fun o => match o with Create _ _ u => [u] | _ => [] end) ops.

(* an id that is not in progress: every request naming it fails and changes nothing *)
Lemma unknown_upload_step : forall s o uid, nfind (ups s) uid = None -> op_uid o = Some uid -> (forall k m, o <> Create k m uid) ->
  fst (step s o) = s /\ exists e, snd (step s o) = O_err e.
Proof.
  intros s o uid N U NC. destruct o; cbn [op_uid] in U; try discriminate; inversion U; subst; cbn [step].
  - exfalso. eapply NC. reflexivity.
  - destruct ((n <? 1) || (10000 <? n)); [split; [reflexivity|eexists; reflexivity]|]. rewrite (find_up_none _ _ _ N). split; [reflexivity|eexists; reflexivity].
  - destruct ((n <? 1) || (10000 <? n)); [split; [reflexivity|eexists; reflexivity]|]. rewrite (find_up_none _ _ _ N). split; [reflexivity|eexists; reflexivity].
  - rewrite (find_up_none _ _ _ N). split; [reflexivity|eexists; reflexivity].
  - destruct parts; [split; [reflexivity|eexists; reflexivity]|]. rewrite (find_up_none _ _ _ N). split; [reflexivity|eexists; reflexivity].
  - rewrite (find_up_none _ _ _ N). split; [reflexivity|eexists; reflexivity].
Qed.

Theorem finished_upload_stays_gone : forall ops s uid, nfind (ups s) uid = None -> ~ In uid (creates ops) ->
  nfind (ups (fst (run s ops))) uid = None /\
  Forall2 (fun o x => op_uid o = Some uid -> exists e, x = O_err e) ops (snd (run s ops)).
Proof.
  induction ops as [|o r IH]; intros s uid N NC; cbn [run].
  - split; [exact N|constructor].
  - destruct (step s o) as [s1 x] eqn:S. destruct (run s1 r) as [s2 xs] eqn:R. cbn [fst snd].
    assert (NCr : ~ In uid (creates r)).
    { intros HI. apply NC. unfold creates in *. cbn [flat_map]. apply in_or_app. right. exact HI. }
    assert (NCo : forall k m, o <> Create k m uid).
    { intros k m E. apply NC. subst o. unfold creates. cbn. left. reflexivity. }
    assert (N1 : nfind (ups s1) uid = None).
    { destruct (option_nat_dec (op_uid o) uid) as [U|U].
      - destruct (unknown_upload_step s o uid N U NCo) as [E _]. rewrite S in E. cbn in E. subst s1. exact N.
      - pose proof (uploads_isolated s o uid U) as E. rewrite S in E. cbn in E. rewrite E. exact N. }
    destruct (IH s1 uid N1 NCr) as [A B]. rewrite R in A, B. cbn [fst snd] in A, B. split; [exact A|].
    constructor; [|exact B].
    intros U. destruct (unknown_upload_step s o uid N U NCo) as [_ [e E]]. rewrite S in E. cbn in E. eauto.
Qed.

(* ---------- histories: the part a completion assembles is the most recent acknowledged upload of that number *)
Definition hist := list (op * out).       (* newest first *)
Fixpoint exec (s : st) (h : hist) (ops : list op) : st * hist :=
  match ops with [] => (s, h) | o :: r => let '(s1, x) := step s o in exec s1 ((o, x) :: h) r end.

Definition ack_part (e : op * out) : option (nat * Z * data) :=
  match e with
  | (UploadPart _ u n _, O_part d) => Some (u, n, d)
  | (UploadPartCopy _ u n _ _, O_part d) => Some (u, n, d)
  | _ => None
  end.
(* the content most recently acknowledged for part n of upload uid *)
Fixpoint latest (h : hist) (uid : nat) (n : Z) : option data :=
  match h with
  | [] => None
  | e :: r => match ack_part e with
              | Some (u, m, d) => if (Nat.eqb u uid && (m =? n))%bool then Some d else latest r uid n
              | None => latest r uid n
              end
  end.
Definition hcreates (h : hist) : list nat := creates (map fst h).

Definition Inv (s : st) (h : hist) : Prop :=
  (forall uid u, nfind (ups s) uid = Some u -> forall n, zfind (u_parts u) n = latest h uid n) /\
  (forall uid, ~ In uid (hcreates h) -> nfind (ups s) uid = None /\ forall n, latest h uid n = None).

Lemma inv_same_ups s s' h o x : Inv s h -> ups s' = ups s -> ack_part (o, x) = None -> (forall k m u, o <> Create k m u) -> Inv s' ((o, x) :: h).
Proof.
  intros [I1 I2] E A NC. split.
  - intros uid u F n. rewrite E in F. cbn [latest]. rewrite A. apply I1. exact F.
  - intros uid NI. assert (NI' : ~ In uid (hcreates h)).
    { intros HI. apply NI. unfold hcreates, creates in *. cbn [map flat_map fst]. apply in_or_app. right. exact HI. }
    destruct (I2 uid NI') as [N L]. rewrite E. split; [exact N|]. intros n. cbn [latest]. rewrite A. apply L.
Qed.

Lemma hcreates_noncreate h o x : (forall k m u, o <> Create k m u) -> hcreates ((o, x) :: h) = hcreates h.
Proof. intros NC. unfold hcreates, creates. cbn [map flat_map fst]. destruct o; try reflexivity. exfalso. eapply NC. reflexivity. Qed.

Lemma inv_store_part s h o x k uid0 n0 d u0 :
  Inv s h -> find_up s k uid0 = Some u0 -> ack_part (o, x) = Some (uid0, n0, d) -> (forall k m u, o <> Create k m u) ->
  Inv {| objs := objs s; ups := nput (ups s) uid0 (set_parts u0 (zput (u_parts u0) n0 d)) |} ((o, x) :: h).
Proof.
  intros [I1 I2] F A NC. destruct (find_up_some _ _ _ _ F) as [Fu _]. split.
  - intros uid u Hf n. cbn [ups] in Hf. cbn [latest]. rewrite A.
    destruct (Nat.eq_dec uid uid0) as [->|Hne].
    + rewrite nfind_nput_same in Hf. inversion Hf; subst u. cbn [u_parts set_parts]. rewrite Nat.eqb_refl. cbn [andb].
      destruct (n0 =? n) eqn:En.
      * apply Z.eqb_eq in En. subst n. apply zfind_zput_same.
      * rewrite zfind_zput_other by (intros ->; rewrite Z.eqb_refl in En; discriminate). apply I1. exact Fu.
    + rewrite nfind_nput_other in Hf by exact Hne.
      assert (Eb : Nat.eqb uid0 uid = false) by (apply Nat.eqb_neq; congruence). rewrite Eb. cbn [andb]. apply I1. exact Hf.
  - intros uid NI. rewrite hcreates_noncreate in NI by exact NC. destruct (I2 uid NI) as [N L].
    assert (Hne : uid <> uid0) by (intros ->; congruence).
    cbn [ups]. rewrite nfind_nput_other by exact Hne. split; [exact N|]. intros n. cbn [latest]. rewrite A.
    assert (Eb : Nat.eqb uid0 uid = false) by (apply Nat.eqb_neq; congruence). rewrite Eb. cbn [andb]. apply L.
Qed.

Lemma inv_remove s h o x k uid0 u0 objs' :
  Inv s h -> find_up s k uid0 = Some u0 -> ack_part (o, x) = None -> (forall k m u, o <> Create k m u) ->
  Inv {| objs := objs'; ups := ndel (ups s) uid0 |} ((o, x) :: h).
Proof.
  intros [I1 I2] F A NC. split.
  - intros uid u Hf n. cbn [ups] in Hf. cbn [latest]. rewrite A.
    destruct (Nat.eq_dec uid uid0) as [->|Hne]; [rewrite nfind_ndel_same in Hf; discriminate|].
    rewrite nfind_ndel_other in Hf by exact Hne. apply I1. exact Hf.
  - intros uid NI. rewrite hcreates_noncreate in NI by exact NC. destruct (I2 uid NI) as [N L]. cbn [ups]. split.
    + destruct (Nat.eq_dec uid uid0) as [->|Hne]; [apply nfind_ndel_same|rewrite nfind_ndel_other by exact Hne; exact N].
    + intros n. cbn [latest]. rewrite A. apply L.
Qed.

Lemma inv_step s h o : Inv s h -> (forall k m u, o = Create k m u -> ~ In u (hcreates h)) -> Inv (fst (step s o)) ((o, snd (step s o)) :: h).
Proof.
  intros I FR. destruct o; cbn [step].
  - cbn [fst snd]. apply (inv_same_ups s); [exact I|reflexivity|reflexivity|congruence].
  - (* Create *) cbn [fst snd]. destruct I as [I1 I2]. specialize (FR k m uid eq_refl). destruct (I2 uid FR) as [N L]. split.
    + intros uid' u Hf n. cbn [ups] in Hf. cbn [latest ack_part].
      destruct (Nat.eq_dec uid' uid) as [->|Hne].
      * rewrite nfind_nput_same in Hf. inversion Hf; subst u. cbn. symmetry. apply L.
      * rewrite nfind_nput_other in Hf by exact Hne. apply I1. exact Hf.
    + intros uid' NI. assert (Hne : uid' <> uid).
      { intros ->. apply NI. unfold hcreates, creates. cbn. left. reflexivity. }
      assert (NI' : ~ In uid' (hcreates h)).
      { intros HI. apply NI. unfold hcreates, creates in *. cbn [map flat_map fst]. apply in_or_app. right. exact HI. }
      destruct (I2 uid' NI') as [N' L']. cbn [ups]. rewrite nfind_nput_other by exact Hne. split; [exact N'|]. intros n. cbn [latest ack_part]. apply L'.
  - (* UploadPart *) destruct ((n <? 1) || (10000 <? n)); [cbn [fst snd]; apply (inv_same_ups s); [exact I|reflexivity|reflexivity|congruence]|].
    destruct (find_up s k uid) as [u0|] eqn:F; cbn [fst snd]; [|apply (inv_same_ups s); [exact I|reflexivity|reflexivity|congruence]].
    eapply inv_store_part; [exact I|exact F|reflexivity|congruence].
  - (* UploadPartCopy *) destruct ((n <? 1) || (10000 <? n)); [cbn [fst snd]; apply (inv_same_ups s); [exact I|reflexivity|reflexivity|congruence]|].
    destruct (find_up s k uid) as [u0|] eqn:F; cbn [fst snd]; [|apply (inv_same_ups s); [exact I|reflexivity|reflexivity|congruence]].
    destruct (nfind (objs s) src) as [so|]; cbn [fst snd]; [|apply (inv_same_ups s); [exact I|reflexivity|reflexivity|congruence]].
    destruct (parse_copy_source_range (dlen (o_data so)) range) as [a l| |]; cbn [fst snd];
      [|apply (inv_same_ups s); [exact I|reflexivity|reflexivity|congruence] ..].
    eapply inv_store_part; [exact I|exact F|reflexivity|congruence].
  - destruct (find_up s k uid); cbn [fst snd]; apply (inv_same_ups s); try exact I; try reflexivity; congruence.
  - cbn [fst snd]. apply (inv_same_ups s); [exact I|reflexivity|reflexivity|congruence].
  - (* Complete *) destruct parts as [|p0 prest]; [cbn [fst snd]; apply (inv_same_ups s); [exact I|reflexivity|reflexivity|congruence]|].
    destruct (find_up s k uid) as [u0|] eqn:F; cbn [fst snd]; [|apply (inv_same_ups s); [exact I|reflexivity|reflexivity|congruence]].
    destruct (check_parts (u_parts u0) (p0 :: prest) 0) as [e'|ds0]; cbn [fst snd]; [apply (inv_same_ups s); [exact I|reflexivity|reflexivity|congruence]|].
    destruct (match osz with Some z => negb (z =? dlen (concat ds0)) | None => false end); cbn [fst snd];
      [apply (inv_same_ups s); [exact I|reflexivity|reflexivity|congruence]|].
    eapply inv_remove; [exact I|exact F|reflexivity|congruence].
  - (* Abort *) destruct (find_up s k uid) as [u0|] eqn:F; cbn [fst snd]; [|apply (inv_same_ups s); [exact I|reflexivity|reflexivity|congruence]].
    eapply inv_remove; [exact I|exact F|reflexivity|congruence].
  - destruct (nfind (objs s) k); cbn [fst snd]; apply (inv_same_ups s); try exact I; try reflexivity; congruence.
  - cbn [fst snd]. apply (inv_same_ups s); [exact I|reflexivity|reflexivity|congruence].
Qed.

Lemma inv_init : Inv init [].
Proof. split; [intros uid u H; discriminate|]. intros uid _. split; [reflexivity|intros; reflexivity]. Qed.

Lemma inv_exec : forall ops s h, Inv s h -> NoDup (creates ops) -> (forall u, In u (creates ops) -> ~ In u (hcreates h)) ->
  Inv (fst (exec s h ops)) (snd (exec s h ops)).
Proof.
  induction ops as [|o r IH]; intros s h I ND FR; cbn [exec]; [exact I|].
  destruct (step s o) as [s1 x] eqn:S.
  assert (I1 : Inv s1 ((o, x) :: h)).
  { pose proof (inv_step s h o I) as H. rewrite S in H. cbn [fst snd] in H. apply H.
    intros k m u E. apply FR. subst o. unfold creates. cbn. left. reflexivity. }
  apply IH; [exact I1| |].
  - unfold creates in *. cbn [flat_map] in ND. destruct o; cbn [app] in ND; try exact ND. inversion ND; assumption.
  - intros u Hu HI. unfold hcreates, creates in HI. cbn [map flat_map fst] in HI. apply in_app_or in HI. destruct HI as [HI|HI].
    + destruct o; cbn in HI; try contradiction. destruct HI as [HI|[]]. subst uid.
      unfold creates in ND. cbn [flat_map app] in ND. inversion ND; subst. contradiction.
    + apply (FR u); [|exact HI]. unfold creates. cbn [flat_map]. apply in_or_app. right. exact Hu.
Qed.

(* every reachable state with its history, when upload ids are never handed out twice *)
Theorem parts_are_latest_uploads : forall ops, NoDup (creates ops) ->
  let '(s, h) := exec init [] ops in
  forall uid u, nfind (ups s) uid = Some u -> forall n, zfind (u_parts u) n = latest h uid n.
Proof.
  intros ops ND. pose proof (inv_exec ops init [] inv_init ND (fun _ _ H => H)) as I.
  destruct (exec init [] ops) as [s h]. cbn [fst snd] in I. exact (proj1 I).
Qed.

(* ... and so a completion that succeeds next assembles, for every listed number, the content most recently acknowledged for it *)
Theorem complete_uses_latest_uploads : forall ops k uid parts osz s' ds, NoDup (creates ops) ->
  step (fst (exec init [] ops)) (Complete k uid parts osz) = (s', O_complete ds) ->
  Forall2 (fun p d => latest (snd (exec init [] ops)) uid (fst p) = Some d) parts ds /\
  (exists ob, nfind (objs s') k = Some ob /\ o_data ob = concat ds /\ o_etag ob = EM ds).
Proof.
  intros ops k uid parts osz s' ds ND H.
  pose proof (parts_are_latest_uploads ops ND) as L. destruct (exec init [] ops) as [s h]. cbn [fst snd] in *.
  destruct (complete_assembles _ _ _ _ _ _ _ H) as [u [Fu [_ [_ [B [_ [Ob _]]]]]]].
  split.
  - specialize (L uid u Fu). clear H Ob. induction B as [|p d ps ds' Hm B IH]; constructor; [|exact IH].
    destruct Hm as [_ [Z _]]. rewrite <- L. exact Z.
  - eexists. split; [exact Ob|]. split; reflexivity.
Qed.

(* ---------- the copy-source range *)
Lemma copy_range_exact : forall size hdr a l, 0 <= size -> parse_copy_source_range size hdr = CR a l ->
  (hdr = "" /\ a = 0 /\ l = size) \/
  (exists ob, denotes hdr a ob /\ 0 <= a < size /\
     match ob with Some b => b < size /\ l = b - a + 1 | None => l = size - a end).
Proof.
  intros size hdr a l Hsz H. unfold parse_copy_source_range in H.
  destruct (String.eqb hdr "") eqn:He.
  { apply String.eqb_eq in He. inversion H; subst. left. auto. }
  right.
  destruct (split_char "=" hdr) as [|u [|r [|x l0]]] eqn:S1; try discriminate.
  destruct (String.eqb u "bytes") eqn:Hu; cbn [negb] in H; [|discriminate]. apply String.eqb_eq in Hu.
  destruct (split_char "-" r) as [|sa [|sb [|y l2]]] eqn:S2; try discriminate.
  pose proof (split_shape _ _ _ _ _ S1 Hu S2) as SH.
  destruct (parse_int10 sa) as [s|] eqn:Pa; [|discriminate].
  destruct (size <=? s) eqn:Hle; [discriminate|]. apply Z.leb_gt in Hle.
  assert (Hs0 : 0 <= s). { destruct SH as [_ [_ [A2 _]]]. eapply parse_int10_nodash_nonneg; eauto. }
  destruct (String.eqb sb "") eqn:Hb.
  { apply String.eqb_eq in Hb. inversion H; subst. exists None. split; [|split; [lia|reflexivity]].
    destruct SH as [E [A1 [A2 [B1 B2]]]]. exists sa, "". repeat split; auto. }
  destruct (parse_int10 sb) as [e|] eqn:Pb; [|discriminate].
  destruct (e <? s) eqn:Hes; [discriminate|]. apply Z.ltb_ge in Hes.
  destruct (size <=? e) eqn:Hse; [discriminate|]. apply Z.leb_gt in Hse.
  inversion H; subst. exists (Some e). split; [|split; [lia|split; [lia|reflexivity]]].
  destruct SH as [E [A1 [A2 [B1 B2]]]]. exists sa, sb. repeat split; auto. right. exists e. auto.
Qed.

Lemma copy_range_window : forall size hdr a l, 0 <= size -> parse_copy_source_range size hdr = CR a l -> 0 <= a /\ 0 <= l /\ a + l <= size.
Proof.
  intros size hdr a l Hsz H. destruct (copy_range_exact _ _ _ _ Hsz H) as [[_ [-> ->]]|[ob [D [Ha Hl]]]]; [lia|].
  destruct ob as [b|].
  - destruct Hl as [Hb ->]. destruct D as [sa [sb [_ [_ [_ [_ [_ [Pa Q]]]]]]]].
    destruct Q as [[_ Q]|[b' [_ [Q Hab]]]]; [discriminate|]. inversion Q; subst b'. lia.
  - subst l. lia.
Qed.

(* a header that denotes bytes of the source is honoured with exactly those bytes *)
Lemma copy_range_complete : forall size hdr a ob, 0 <= size -> denotes hdr a ob -> a < size ->
  (forall b, ob = Some b -> b < size) ->
  parse_copy_source_range size hdr = CR a (match ob with Some b => b - a + 1 | None => size - a end).
Proof.
  intros size hdr a ob Hsz D Ha Hb.
  pose proof D as D0. apply denotes_shape in D. destruct D as [sa [sb [SH [Pa Q]]]].
  pose proof (shape_split _ _ _ SH) as [E1 E2].
  unfold parse_copy_source_range.
  assert (Hne : String.eqb hdr "" = false).
  { destruct SH as [E _]. subst hdr. reflexivity. }
  rewrite Hne, E1. change (String.eqb "bytes" "bytes") with true. cbn [negb]. rewrite E2, Pa.
  destruct (size <=? a) eqn:Hle; [apply Z.leb_le in Hle; lia|].
  destruct Q as [[-> ->]|[b [Pb [-> Hab]]]].
  - reflexivity.
  - destruct (String.eqb sb "") eqn:Hsb.
    { apply String.eqb_eq in Hsb. subst sb. cbn in Pb. discriminate. }
    rewrite Pb. destruct (b <? a) eqn:Hba; [apply Z.ltb_lt in Hba; lia|].
    specialize (Hb b eq_refl). destruct (size <=? b) eqn:Hsb2; [apply Z.leb_le in Hsb2; lia|]. reflexivity.
Qed.

(* slicing symbolic contents: a window inside the content has exactly the requested length *)
Definition wf_data (d : data) : Prop := Forall (fun p => 0 <= plen p) d.
Lemma dslice_len : forall d off len, wf_data d -> 0 <= off -> 0 <= len -> off + len <= dlen d -> dlen (dslice d off len) = len.
Proof.
  induction d as [|[[c o] l] r IH]; intros off len W Ho Hl Hb; cbn [dslice dlen] in *.
  - lia.
  - inversion W as [|p r' Hp Wr]; subst. unfold plen in Hp. cbn [snd] in Hp.
    destruct (len <=? 0) eqn:E0; [apply Z.leb_le in E0; cbn; lia|]. apply Z.leb_gt in E0.
    unfold plen in Hb. cbn [snd] in Hb.
    destruct (l <=? off) eqn:E1.
    + apply Z.leb_le in E1. apply IH; [exact Wr|lia|lia|lia].
    + apply Z.leb_gt in E1. cbn [dlen]. unfold plen. cbn [snd].
      destruct (Z.min_spec (l - off) len) as [[Hlt ->]|[Hge ->]].
      * rewrite IH; [lia|exact Wr|lia|lia|lia].
      * replace (len - len) with 0 by lia.
        assert (Z0 : forall r0, dlen (dslice r0 0 0) = 0) by (intros r0; destruct r0 as [|[[c' o'] l'] r1]; reflexivity).
        rewrite Z0. lia.
Qed.
