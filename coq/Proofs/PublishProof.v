From Coq Require Import List Arith Bool Lia.
From VGW Require Import Model.Publish.
Import ListNotations.

Definition Inv (f : fs) : Prop :=
  (forall i v, lookup (tbl f) i = Some v -> i < next f) /\ abs f = reg_of_log (log f) /\
  (forall i, entry f = Some i -> exists b, lookup (tbl f) i = Some b).

Lemma inv_fs0 : Inv fs0.
Proof. split; [intros i v H; discriminate|]. split; [reflexivity|intros i H; discriminate]. Qed.
Lemma inv_fs_with b : Inv (fs_with b).
Proof.
  split; [|split; [reflexivity|]].
  - intros i v H. cbn in H. destruct (Nat.eqb i 0) eqn:E; [apply Nat.eqb_eq in E; cbn; lia|discriminate].
  - intros i H. inversion H; subst. exists b. reflexivity.
Qed.

Lemma step_inv f t : Inv f -> Inv (fst (step f t)).
Proof.
  intros [I1 [I2 I3]]. destruct t as [b [|]|[|]| |[i|]|r]; cbn [step fst]; try (split; [|split]; assumption).
  - split; [|split]; cbn.
    + intros i v H. destruct (Nat.eqb i (next f)) eqn:E; [apply Nat.eqb_eq in E; lia|]. apply I1 in H. lia.
    + unfold abs. cbn. rewrite Nat.eqb_refl. reflexivity.
    + intros i H. inversion H; subst. exists b. rewrite Nat.eqb_refl. reflexivity.
  - split; [exact I1|]. split; [reflexivity|intros i H; discriminate].
Qed.

(* the table only grows, under fresh numbers: what an open descriptor designates never changes *)
Lemma step_stable f t i b : Inv f -> lookup (tbl f) i = Some b -> lookup (tbl (fst (step f t))) i = Some b.
Proof.
  intros [I1 _] H. destruct t as [b' [|]|[|]| |[j|]|r]; cbn [step fst tbl]; try exact H.
  cbn. destruct (Nat.eqb i (next f)) eqn:E; [apply Nat.eqb_eq in E; apply I1 in H; lia|exact H].
Qed.

Lemma nth_set_nth_same {A} (l : list A) k x t : nth_error l k = Some t -> nth_error (set_nth l k x) k = Some x.
Proof. revert k. induction l as [|a l IH]; intros [|k] H; cbn in *; try discriminate; [reflexivity|apply IH; exact H]. Qed.
Lemma nth_set_nth_other {A} (l : list A) k j x : j <> k -> nth_error (set_nth l k x) j = nth_error l j.
Proof.
  revert k j. induction l as [|a l IH]; intros [|k] [|j] H; cbn; try reflexivity; try congruence. apply IH. congruence.
Qed.

Lemma step_at_inv st x : Inv (fst st) -> Inv (fst (step_at st x)).
Proof.
  intros I. unfold step_at. destruct (nth_error (snd st) x) as [t|]; [|exact I].
  pose proof (step_inv (fst st) t I) as H. destruct (step (fst st) t) as [f' t']. exact H.
Qed.
Lemma step_at_stable st x i b : Inv (fst st) -> lookup (tbl (fst st)) i = Some b -> lookup (tbl (fst (step_at st x))) i = Some b.
Proof.
  intros I H. unfold step_at. destruct (nth_error (snd st) x) as [t|]; [|exact H].
  pose proof (step_stable (fst st) t i b I H) as G. destruct (step (fst st) t) as [f' t']. exact G.
Qed.
Lemma step_at_other st x k : k <> x -> nth_error (snd (step_at st x)) k = nth_error (snd st) k.
Proof.
  intros N. unfold step_at. destruct (nth_error (snd st) x) as [t|]; [|reflexivity].
  destruct (step (fst st) t) as [f' t']. cbn. apply nth_set_nth_other. exact N.
Qed.
Lemma step_at_self st k t : nth_error (snd st) k = Some t ->
  nth_error (snd (step_at st k)) k = Some (snd (step (fst st) t)) /\ fst (step_at st k) = fst (step (fst st) t).
Proof.
  intros H. unfold step_at. rewrite H. destruct (step (fst st) t) as [f' t'] eqn:E. cbn. split; [eapply nth_set_nth_same; exact H|reflexivity].
Qed.

Lemma run_inv : forall sched st, Inv (fst st) -> Inv (fst (run st sched)).
Proof. induction sched as [|x r IH]; intros st I; cbn; [exact I|]. apply IH. apply step_at_inv. exact I. Qed.

(* a finished reader keeps its answer *)
Lemma done_stays : forall sched st k r, nth_error (snd st) k = Some (TRdone r) -> nth_error (snd (run st sched)) k = Some (TRdone r).
Proof.
  induction sched as [|x s IH]; intros st k r H; cbn; [exact H|]. apply IH.
  destruct (Nat.eq_dec k x) as [->|N].
  - destruct (step_at_self st x _ H) as [A _]. rewrite A. reflexivity.
  - rewrite step_at_other by exact N. exact H.
Qed.

(* a reader that holds a descriptor answers with what the descriptor designated when it was opened *)
Lemma reader_after_open : forall sched st k e r, Inv (fst st) -> nth_error (snd st) k = Some (TR1 e) ->
  (forall i, e = Some i -> exists b, lookup (tbl (fst st)) i = Some b) ->
  nth_error (snd (run st sched)) k = Some (TRdone r) ->
  r = res_of (match e with Some i => lookup (tbl (fst st)) i | None => None end).
Proof.
  induction sched as [|x s IH]; intros st k e r I H P D.
  - cbn in D. rewrite H in D. discriminate.
  - change (run st (x :: s)) with (run (step_at st x) s) in D.
    destruct (Nat.eq_dec k x) as [->|N].
    + destruct (step_at_self st x _ H) as [A B].
      assert (T : snd (step (fst st) (TR1 e)) = TRdone (res_of (match e with Some i => lookup (tbl (fst st)) i | None => None end))).
      { destruct e as [i|]; cbn; [destruct (lookup (tbl (fst st)) i); reflexivity|reflexivity]. }
      rewrite T in A. pose proof (done_stays s _ _ _ A) as D2. congruence.
    + assert (H1 : nth_error (snd (step_at st x)) k = Some (TR1 e)) by (rewrite step_at_other by exact N; exact H).
      assert (P1 : forall i, e = Some i -> exists b, lookup (tbl (fst (step_at st x))) i = Some b).
      { intros i E. destruct (P i E) as [b L]. exists b. apply step_at_stable; assumption. }
      specialize (IH _ _ _ _ (step_at_inv st x I) H1 P1 D).
      destruct e as [i|]; [|exact IH].
      destruct (P i eq_refl) as [b L]. rewrite (step_at_stable st x i b I L) in IH. rewrite L. exact IH.
Qed.

(* ---------- linearizability: a read returns the value of the register at the moment of its open, which is one of its
   own steps; the register changes only at a writer's rename and a deleter's unlink, each one of that request's own steps
   (recorded in the log in the order they happen) *)
Theorem read_is_linearized : forall sched st k r, Inv (fst st) -> nth_error (snd st) k = Some TR0 ->
  nth_error (snd (run st sched)) k = Some (TRdone r) ->
  exists p q, sched = p ++ k :: q /\ nth_error (snd (run st p)) k = Some TR0 /\
              r = res_of (reg_of_log (log (fst (run st p)))).
Proof.
  induction sched as [|x s IH]; intros st k r I H D.
  - cbn in D. rewrite H in D. discriminate.
  - change (run st (x :: s)) with (run (step_at st x) s) in D.
    destruct (Nat.eq_dec k x) as [->|N].
    + exists [], s. split; [reflexivity|]. split; [exact H|].
      destruct (step_at_self st x _ H) as [A B]. cbn [step snd fst] in A, B.
      assert (I' : Inv (fst (step_at st x))) by (rewrite B; exact I).
      assert (P : forall i, entry (fst st) = Some i -> exists b, lookup (tbl (fst (step_at st x))) i = Some b).
      { intros i E. rewrite B. destruct I as [_ [_ I3]]. apply I3. exact E. }
      pose proof (reader_after_open s _ _ _ _ I' A P D) as R. rewrite B in R.
      cbn [run fold_left]. destruct I as [_ [I2 _]]. rewrite <- I2. unfold abs. exact R.
    + assert (H1 : nth_error (snd (step_at st x)) k = Some TR0) by (rewrite step_at_other by exact N; exact H).
      destruct (IH _ _ _ (step_at_inv st x I) H1 D) as [p [q [E [Hp Hr]]]].
      exists (x :: p), q. split; [cbn; rewrite E; reflexivity|]. split; [exact Hp|exact Hr].
Qed.

(* the log is the sequence of the writers' renames and the deleters' unlinks in the order they happened: it only grows at
   the head, by the content of a writer thread or by a deletion of a deleter thread *)
Definition writes_of (ts : list thread) : list nat := flat_map (fun t => match t with TW b _ => [b] | _ => [] end) ts.
Definition has_deleter (ts : list thread) : bool := existsb (fun t => match t with TD _ => true | _ => false end) ts.

Lemma set_nth_writes ts k t t' : nth_error ts k = Some t -> (forall b p, t = TW b p -> exists p', t' = TW b p') ->
  (forall b p, t' = TW b p -> exists p', t = TW b p') -> writes_of (set_nth ts k t') = writes_of ts.
Proof.
  revert k. induction ts as [|a l IH]; intros [|k] H F G; cbn in *; try discriminate.
  - inversion H; subst a. unfold writes_of. cbn. f_equal.
    destruct t as [b p| | | |]; [destruct (F b p eq_refl) as [p' ->]; reflexivity| | | |];
      (destruct t' as [b' p'| | | |]; [destruct (G b' p' eq_refl) as [? E]; discriminate|reflexivity..]).
  - unfold writes_of in *. cbn. f_equal. apply IH; assumption.
Qed.

Lemma step_log f t : log (fst (step f t)) = log f \/
  (exists b, t = TW b false /\ log (fst (step f t)) = Some b :: log f) \/ (t = TD false /\ log (fst (step f t)) = None :: log f).
Proof. destruct t as [b [|]|[|]| |[i|]|r]; cbn; auto. right. left. eauto. Qed.

Theorem log_events_are_requests : forall sched st e, In e (log (fst (run st sched))) ->
  In e (log (fst st)) \/ (exists b, e = Some b /\ In b (writes_of (snd st))) \/ (e = None /\ has_deleter (snd st) = true).
Proof.
  induction sched as [|x s IH]; intros st e H; [left; exact H|].
  change (run st (x :: s)) with (run (step_at st x) s) in H.
  destruct (IH _ _ H) as [A|[[b [E A]]|[E A]]]; clear IH H.
  - unfold step_at in A. destruct (nth_error (snd st) x) as [t|] eqn:N; [|left; exact A].
    destruct (step_log (fst st) t) as [L|[[b [Et L]]|[Et L]]]; destruct (step (fst st) t) as [f' t'] eqn:S; cbn [fst] in *.
    + left. rewrite <- L. exact A.
    + rewrite L in A. destruct A as [<-|A]; [|left; exact A]. right. left. exists b. split; [reflexivity|].
      subst t. clear -N. revert x N. induction (snd st) as [|a l IHl]; intros [|x] N; cbn in *; try discriminate.
      * inversion N; subst. unfold writes_of. cbn. left. reflexivity.
      * unfold writes_of in *. cbn. apply in_or_app. right. eapply IHl. exact N.
    + rewrite L in A. destruct A as [<-|A]; [|left; exact A]. right. right. split; [reflexivity|].
      subst t. clear -N. revert x N. induction (snd st) as [|a l IHl]; intros [|x] N; cbn in *; try discriminate.
      * inversion N; subst. reflexivity.
      * apply orb_true_iff. right. exact (IHl _ N).
  - right. left. exists b. split; [exact E|].
    unfold step_at in A. destruct (nth_error (snd st) x) as [t|] eqn:N; [|exact A].
    destruct (step (fst st) t) as [f' t'] eqn:S. cbn [snd] in A.
    rewrite (set_nth_writes _ _ t t' N) in A; [exact A| |].
    + intros b0 p ->. destruct p; cbn in S; inversion S; eauto.
    + intros b0 p ->. destruct t as [b1 [|]|[|]| |[i|]|r]; cbn in S; inversion S; eauto.
  - right. right. split; [exact E|].
    unfold step_at in A. destruct (nth_error (snd st) x) as [t|] eqn:N; [|exact A].
    destruct (step (fst st) t) as [f' t'] eqn:S. cbn [snd] in A.
    clear -A N S. revert x N A. induction (snd st) as [|a l IHl]; intros [|x] N A; cbn in *; try discriminate.
    * inversion N; subst a. destruct t as [b1 [|]|[|]| |[i|]|r]; cbn in S; inversion S; subst; cbn in A; exact A.
    * apply orb_true_iff in A. apply orb_true_iff. destruct A as [A|A]; [left; exact A|right; exact (IHl _ N A)].
Qed.

(* ---------- the four clauses of the property *)
(* every successful read returns the complete state of exactly one write *)
Theorem reads_return_one_write : forall sched ts k b f0, Inv f0 -> nth_error ts k = Some TR0 ->
  nth_error (snd (run (f0, ts) sched)) k = Some (TRdone (Got b)) ->
  In (Some b) (log f0) \/ In b (writes_of ts).
Proof.
  intros sched ts k b f0 I H D.
  destruct (read_is_linearized sched (f0, ts) k (Got b) I H D) as [p [q [E [Hp Hr]]]].
  destruct (log (fst (run (f0, ts) p))) as [|e l] eqn:L; [discriminate|]. cbn in Hr. destruct e as [b'|]; [|discriminate].
  inversion Hr; subst b'.
  destruct (log_events_are_requests p (f0, ts) (Some b)) as [A|[[b2 [E2 A]]|[E2 _]]]; [rewrite L; left; reflexivity|left; exact A| |discriminate].
  inversion E2; subst. right. exact A.
Qed.

(* a key that exists and is only being overwritten never appears missing *)
Lemma no_deleter_log_head : forall sched st, has_deleter (snd st) = false -> (exists b l, log (fst st) = Some b :: l) ->
  exists b l, log (fst (run st sched)) = Some b :: l.
Proof.
  induction sched as [|x s IH]; intros st ND H; [exact H|].
  change (run st (x :: s)) with (run (step_at st x) s). apply IH.
  - unfold step_at. destruct (nth_error (snd st) x) as [t|] eqn:N; [|exact ND]. destruct (step (fst st) t) as [f' t'] eqn:S. cbn [snd].
    clear -ND N S. revert x N ND. induction (snd st) as [|a l IHl]; intros [|x] N ND; cbn in *; try discriminate.
    + inversion N; subst a. apply orb_false_iff in ND. destruct ND as [A B]. rewrite B.
      destruct t as [b1 [|]|[|]| |[i|]|r]; cbn in S; inversion S; subst; try discriminate; reflexivity.
    + apply orb_false_iff in ND. destruct ND as [A B]. rewrite A. cbn. apply (IHl _ N B).
  - unfold step_at. destruct (nth_error (snd st) x) as [t|] eqn:N; [|exact H].
    destruct (step_log (fst st) t) as [L|[[b [Et L]]|[Et L]]]; destruct (step (fst st) t) as [f' t'] eqn:S; cbn [fst] in *.
    + rewrite L. exact H.
    + rewrite L. eauto.
    + exfalso. subst t. clear -N ND. revert x N ND. induction (snd st) as [|a l IHl]; intros [|x] N ND; cbn in *; try discriminate.
      * inversion N; subst. discriminate.
      * apply orb_false_iff in ND. destruct ND as [_ B]. eapply IHl; eauto.
Qed.
Theorem overwritten_key_never_missing : forall sched ts k r b0, has_deleter ts = false -> nth_error ts k = Some TR0 ->
  nth_error (snd (run (fs_with b0, ts) sched)) k = Some (TRdone r) -> exists b, r = Got b.
Proof.
  intros sched ts k r b0 ND H D.
  destruct (read_is_linearized sched (fs_with b0, ts) k r (inv_fs_with b0) H D) as [p [q [E [Hp Hr]]]].
  destruct (no_deleter_log_head p (fs_with b0, ts) ND) as [b [l L]]; [exists b0, []; reflexivity|].
  rewrite L in Hr. exists b. exact Hr.
Qed.
