(* C08 / C20: the pages of ListMultipartUploads. One page (Model.Paging.list_uploads, the loop of posix.ListMultipartUploads after
   repair of its page selection) is the first max of the uploads that lie behind the marker; following the markers from the start
   visits every upload exactly once, in (key, upload id) order, whatever the page size - also with several uploads of one key. *)
From Coq Require Import String List Bool Arith Lia.
From VGW Require Import Base.GoStr Model.Paging Proofs.PagingProof Proofs.WalkRefine Proofs.WalkPage.
Import ListNotations.
Open Scope string_scope.
Open Scope list_scope.

Notation upl := (string * string)%type (only parsing).
Definition behind (km im : string) (u : upl) : bool := lmu_behind (fst u) (snd u) km im.

(* ---------- one run of the loop: the first uploads behind the marker that still fit *)
Definition lastu (l : list upl) : upl := match rev l with x :: _ => x | [] => ("", "") end.

Lemma lmu_loop_spec : forall ups i n km im max acc, 1 <= max -> List.length acc <= max ->
  let B := filter (behind km im) ups in
  lmu_loop ups i n km im max acc =
  if Nat.leb (List.length B) (max - List.length acc) then Ok_ (acc ++ B, false, ("", ""))
  else Ok_ (acc ++ firstn (max - List.length acc) B, true, lastu (acc ++ firstn (max - List.length acc) B)).
Proof.
  induction ups as [|[key id] r IH]; intros i n km im max acc Hm Ha; cbn [lmu_loop filter].
  - cbn [List.length Nat.leb]. rewrite app_nil_r. reflexivity.
  - assert (Hb : behind km im (key, id) = lmu_behind key id km im) by reflexivity. rewrite !Hb.
    destruct (lmu_behind key id km im) eqn:Eb; cbn [negb].
    + destruct (Nat.eqb (List.length acc) max) eqn:E.
      * apply Nat.eqb_eq in E. rewrite E, Nat.sub_diag. cbn [List.length Nat.leb firstn]. rewrite app_nil_r.
        assert (N : acc <> []) by (intros ->; cbn in E; lia).
        destruct (rev_nonempty acc N) as [x [t R]]. rewrite R. unfold lastu. rewrite R. reflexivity.
      * apply Nat.eqb_neq in E. rewrite IH by (try exact Hm; rewrite app_length; cbn; lia).
        rewrite app_length. cbn [List.length].
        replace (max - (List.length acc + 1)) with (max - List.length acc - 1) by lia.
        destruct (max - List.length acc) as [|d] eqn:Ed; [lia|]. cbn [Nat.leb]. replace (S d - 1) with d by lia.
        cbn [firstn]. rewrite <- !app_assoc. cbn [app]. reflexivity.
    + apply IH; assumption.
Qed.

(* ---------- the order of the list: (key, upload id), strictly increasing *)
Definition ult (a b : upl) : bool := str_ltb (fst a) (fst b) || (String.eqb (fst a) (fst b) && str_ltb (snd a) (snd b)).

Lemma ult_irrefl : forall a, ult a a = false.
Proof. intros [k i]. unfold ult. cbn [fst snd]. rewrite !str_ltb_irrefl, String.eqb_refl. reflexivity. Qed.

Lemma ult_trans : forall a b c, ult a b = true -> ult b c = true -> ult a c = true.
Proof.
  intros [k1 i1] [k2 i2] [k3 i3]. unfold ult. cbn [fst snd]. intros H1 H2.
  apply orb_true_iff in H1. apply orb_true_iff in H2. apply orb_true_iff.
  destruct H1 as [H1|H1], H2 as [H2|H2].
  - left. eapply str_ltb_trans; eassumption.
  - apply andb_true_iff in H2. destruct H2 as [E _]. apply String.eqb_eq in E. subst k3. left. exact H1.
  - apply andb_true_iff in H1. destruct H1 as [E _]. apply String.eqb_eq in E. subst k2. left. exact H2.
  - apply andb_true_iff in H1, H2. destruct H1 as [E1 L1], H2 as [E2 L2]. apply String.eqb_eq in E1, E2. subst k2 k3.
    right. rewrite String.eqb_refl. cbn [andb]. eapply str_ltb_trans; eassumption.
Qed.

Lemma ult_asym : forall a b, ult a b = true -> ult b a = false.
Proof.
  intros a b H. destruct (ult b a) eqn:E; [|reflexivity]. pose proof (ult_trans a b a H E) as C. rewrite ult_irrefl in C. discriminate.
Qed.

Lemma behind_is_ult : forall km im u, km <> "" -> im <> "" -> behind km im u = ult (km, im) u.
Proof.
  intros km im [k i] Hk Hi. unfold behind, lmu_behind, ult. cbn [fst snd].
  destruct (String.eqb km "") eqn:E0; [apply String.eqb_eq in E0; congruence|].
  destruct (str_ltb k km) eqn:E1.
  - rewrite (str_ltb_asym _ _ E1). destruct (String.eqb km k) eqn:E2; [|reflexivity].
    apply String.eqb_eq in E2. subst k. rewrite str_ltb_irrefl in E1. discriminate.
  - destruct (String.eqb k km) eqn:E2.
    + apply String.eqb_eq in E2. subst k. rewrite str_ltb_irrefl, String.eqb_refl. cbn [orb andb].
      destruct (String.eqb im "") eqn:E3; [apply String.eqb_eq in E3; congruence|]. cbn [negb andb].
      destruct (str_ltb_tricho i im) as [H|[H|H]].
      * rewrite H. cbn [orb negb]. rewrite (str_ltb_asym _ _ H). reflexivity.
      * subst i. rewrite str_ltb_irrefl, String.eqb_refl. reflexivity.
      * rewrite H. rewrite (str_ltb_asym _ _ H). destruct (String.eqb i im) eqn:E4; [|reflexivity].
        apply String.eqb_eq in E4. subst i. rewrite str_ltb_irrefl in H. discriminate.
    + destruct (str_ltb_tricho k km) as [H|[H|H]]; [congruence|subst k; rewrite String.eqb_refl in E2; discriminate|].
      rewrite H. reflexivity.
Qed.

Fixpoint usorted (l : list upl) : Prop :=
  match l with
  | a :: ((b :: _) as r) => ult a b = true /\ usorted r
  | _ => True
  end.

Lemma usorted_tail : forall a l, usorted (a :: l) -> usorted l.
Proof. intros a [|b l] H; [exact I|]. destruct H as [_ H]. exact H. Qed.

Lemma usorted_head_lt : forall a l x, usorted (a :: l) -> In x l -> ult a x = true.
Proof.
  intros a l. revert a. induction l as [|b l IH]; intros a x Hs Hin; [destruct Hin|].
  destruct Hs as [Hab Hs]. destruct Hin as [Hin|Hin]; [subst x; exact Hab|].
  apply (ult_trans a b x Hab). apply IH; assumption.
Qed.

Lemma filter_all_in {A} (f : A -> bool) l : (forall x, In x l -> f x = true) -> filter f l = l.
Proof.
  induction l as [|a l IH]; intros H; [reflexivity|]. cbn [filter]. rewrite (H a (or_introl eq_refl)). f_equal.
  apply IH. intros x Hx. apply H. right. exact Hx.
Qed.

(* the uploads behind an upload of the list are the ones that follow it *)
Lemma filter_behind_split : forall A m R, usorted (A ++ m :: R) -> fst m <> "" -> snd m <> "" ->
  filter (behind (fst m) (snd m)) (A ++ m :: R) = R.
Proof.
  intros A m R Hs Hk Hi.
  assert (Hb : forall u, behind (fst m) (snd m) u = ult m u).
  { intros u. rewrite behind_is_ult by assumption. destruct m; reflexivity. }
  rewrite filter_app. cbn [filter]. rewrite Hb, ult_irrefl.
  assert (HA : filter (behind (fst m) (snd m)) A = []).
  { apply filter_none_in. intros x Hx. rewrite Hb. apply ult_asym.
    clear Hb Hk Hi. induction A as [|a A IH]; [destruct Hx|]. cbn [app] in Hs. destruct Hx as [Hx|Hx].
    - subst x. apply (usorted_head_lt a (A ++ m :: R)); [exact Hs|apply in_or_app; right; left; reflexivity].
    - apply IH; [apply (usorted_tail a); exact Hs|exact Hx]. }
  rewrite HA. cbn [app].
  assert (Hm : usorted (m :: R)).
  { clear HA Hb Hk Hi. induction A as [|a A IH]; [exact Hs|]. apply IH. apply (usorted_tail a). exact Hs. }
  apply filter_all_in. intros y Hy. rewrite Hb. apply (usorted_head_lt m R); [exact Hm|exact Hy].
Qed.

(* ---------- following the markers *)
Fixpoint lmu_pages (sorted : list upl) (km im : string) (max fuel : nat) : list upl :=
  match fuel with
  | O => []
  | S f => match list_uploads sorted km im true max with
           | Ok_ (page, tr, (nk, ni)) => page ++ (if tr then lmu_pages sorted nk ni max f else [])
           | Panic_ => []
           end
  end.

Lemma find_key_in : forall l k x i, In (k, x) l -> exists j, find_key l k i = Some j.
Proof.
  induction l as [|[k' x'] l IH]; intros k x i Hin; [destruct Hin|]. cbn [find_key].
  destruct (String.eqb k' k) eqn:E; [eauto|]. destruct Hin as [Hin|Hin]; [inversion Hin; subst; rewrite String.eqb_refl in E; discriminate|].
  apply (IH k x (S i) Hin).
Qed.

Lemma lastu_snoc : forall l (m : upl), lastu (l ++ [m]) = m.
Proof. intros l m. unfold lastu. rewrite rev_app_distr. reflexivity. Qed.

Lemma snoc_of_nonempty : forall (l : list upl), l <> [] -> exists l' m, l = l' ++ [m].
Proof.
  intros l H. destruct (rev l) as [|m r] eqn:E.
  - exfalso. apply H. rewrite <- (rev_involutive l), E. reflexivity.
  - exists (rev r), m. rewrite <- (rev_involutive l), E. reflexivity.
Qed.

Definition named (u : upl) : Prop := fst u <> "" /\ snd u <> "".

(* one page, when the marker is the start or an upload of the list: the next max uploads, truncated iff more remain *)
Lemma one_page : forall A R km im max, usorted (A ++ R) -> Forall named (A ++ R) -> 1 <= max ->
  ((A = [] /\ km = "") \/ exists A', A = A' ++ [(km, im)]) ->
  list_uploads (A ++ R) km im true max =
  if Nat.leb (List.length R) max then Ok_ (R, false, ("", "")) else Ok_ (firstn max R, true, lastu (firstn max R)).
Proof.
  intros A R km im max Hs Hn Hm HA. unfold list_uploads.
  assert (Hf : (negb (String.eqb im "") && negb true) = false) by (rewrite andb_false_r; reflexivity). rewrite Hf.
  assert (Hstart : exists st, (if String.eqb km "" then Some 0 else option_map S (find_key (A ++ R) km 0)) = Some st).
  { destruct HA as [[HA Hk]|[A' HA]].
    - subst km. cbn [String.eqb]. eauto.
    - destruct (String.eqb km ""); [eauto|]. destruct (find_key_in (A ++ R) km im 0) as [j Hj].
      { subst A. apply in_or_app. left. apply in_or_app. right. left. reflexivity. }
      rewrite Hj. cbn [option_map]. eauto. }
  destruct Hstart as [st Hst]. rewrite Hst.
  destruct (Nat.eqb max 0) eqn:E0; [apply Nat.eqb_eq in E0; lia|].
  rewrite lmu_loop_spec by (cbn [List.length]; lia). cbv zeta. cbn [List.length app]. rewrite Nat.sub_0_r.
  assert (HB : filter (behind km im) (A ++ R) = R).
  { destruct HA as [[HA Hk]|[A' HA]].
    - subst A km. cbn [app]. apply filter_all_in. intros x _. reflexivity.
    - subst A. rewrite <- app_assoc. cbn [app].
      rewrite <- app_assoc in Hs, Hn. cbn [app] in Hs, Hn.
      assert (Hnm : named (km, im)).
      { rewrite Forall_forall in Hn. apply Hn. apply in_or_app. right. left. reflexivity. }
      destruct Hnm as [H1 H2]. cbn [fst snd] in H1, H2.
      exact (filter_behind_split A' (km, im) R Hs H1 H2). }
  rewrite HB. reflexivity.
Qed.

(* following the markers from the start visits every upload exactly once, in order, for every page size *)
Lemma pages_from : forall fuel A R km im max, usorted (A ++ R) -> Forall named (A ++ R) -> 1 <= max ->
  ((A = [] /\ km = "") \/ exists A', A = A' ++ [(km, im)]) -> List.length R < fuel ->
  lmu_pages (A ++ R) km im max fuel = R.
Proof.
  induction fuel as [|f IH]; intros A R km im max Hs Hn Hm HA Hl; [lia|].
  cbn [lmu_pages]. rewrite (one_page A R km im max Hs Hn Hm HA).
  destruct (Nat.leb (List.length R) max) eqn:E; [rewrite app_nil_r; reflexivity|].
  apply Nat.leb_gt in E.
  assert (HP : firstn max R <> []).
  { intros C. assert (L : List.length (firstn max R) = 0) by (rewrite C; reflexivity). rewrite firstn_length in L. lia. }
  destruct (snoc_of_nonempty _ HP) as [P' [m HPm]].
  rewrite HPm, lastu_snoc. destruct m as [nk ni].
  assert (Hsplit : A ++ R = (A ++ P' ++ [(nk, ni)]) ++ skipn max R).
  { rewrite <- HPm. rewrite <- app_assoc. rewrite firstn_skipn. reflexivity. }
  rewrite Hsplit. rewrite IH.
  - rewrite <- HPm. apply firstn_skipn.
  - rewrite <- Hsplit. exact Hs.
  - rewrite <- Hsplit. exact Hn.
  - exact Hm.
  - right. exists (A ++ P'). rewrite app_assoc. reflexivity.
  - rewrite skipn_length. lia.
Qed.

Theorem uploads_pages_complete : forall sorted max, usorted sorted -> Forall named sorted -> 1 <= max ->
  lmu_pages sorted "" "" max (S (List.length sorted)) = sorted.
Proof.
  intros sorted max Hs Hn Hm. apply (pages_from (S (List.length sorted)) [] sorted "" "" max); try assumption; [left; split; reflexivity|lia].
Qed.

(* ---------- the page selection before the repair (2fe630b), kept for the record: the page began behind the FIRST upload whose key
   equals the key marker and then skipped the uploads whose id is below the upload id marker, whatever their key *)
Fixpoint lmu_loop_old (ups : list upl) (key_marker id_marker : string) (max : nat) (acc : list upl)
  : res (list upl * bool * upl) :=
  match ups with
  | [] => Ok_ (acc, false, ("", ""))
  | (key, id) :: r =>
      if negb (String.eqb key_marker "") && negb (String.eqb id_marker "") && str_ltb id id_marker
      then lmu_loop_old r key_marker id_marker max acc
      else if Nat.eqb (List.length acc) max then
        match rev acc with
        | last :: _ => Ok_ (acc, true, last)
        | [] => Panic_
        end
      else lmu_loop_old r key_marker id_marker max (acc ++ [(key, id)])
  end.

Definition list_uploads_old (sorted : list upl) (key_marker id_marker : string) (max : nat) : res (list upl * bool * upl) :=
  match (if String.eqb key_marker "" then Some O else option_map S (find_key sorted key_marker O)) with
  | None => Ok_ ([], false, ("", ""))
  | Some st => if Nat.eqb max 0 then Ok_ ([], false, ("", "")) else lmu_loop_old (skipn st sorted) key_marker id_marker max []
  end.

(* three uploads of one key, one upload per page: the page behind (a, u2) is (a, u2) again, with itself as the next marker - a client
   following the markers never finishes, and never sees (a, u3) *)
Theorem old_page_selection_cycles :
  let ups := [("a", "u1"); ("a", "u2"); ("a", "u3")] in
  usorted ups /\
  list_uploads_old ups "" "" 1 = Ok_ ([("a", "u1")], true, ("a", "u1")) /\
  list_uploads_old ups "a" "u1" 1 = Ok_ ([("a", "u2")], true, ("a", "u2")) /\
  list_uploads_old ups "a" "u2" 1 = Ok_ ([("a", "u2")], true, ("a", "u2")).
Proof. vm_compute. repeat split; reflexivity. Qed.
