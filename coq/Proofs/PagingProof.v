From Coq Require Import String List ZArith Bool Arith Lia.
From VGW Require Import Base.GoStr Model.Paging.
Import ListNotations.
Open Scope string_scope.

Lemma rev_nonempty {A} (l : list A) : l <> [] -> exists x r, rev l = x :: r.
Proof.
  intros H. destruct (rev l) as [|x r] eqn:E; [|eauto].
  exfalso. apply H. rewrite <- (rev_involutive l), E. reflexivity.
Qed.

(* ListBuckets never indexes an empty slice when max >= 1, and never returns more than max names *)
Lemma lb_loop_safe : forall fis prefix token owner is_admin max acc, 1 <= max -> List.length acc <= max ->
  exists names tok, lb_loop fis prefix token owner is_admin max acc = Ok_ (names, tok) /\ List.length names <= max.
Proof.
  induction fis as [|[name own] r IH]; intros prefix token owner is_admin max acc Hm Ha; cbn [lb_loop].
  - eauto.
  - destruct (negb (has_prefix name prefix)); [apply IH; assumption|].
    destruct (Nat.eqb (List.length acc) max) eqn:E.
    + apply Nat.eqb_eq in E. assert (N : acc <> []) by (intros ->; cbn in E; lia).
      destruct (rev_nonempty acc N) as [x [t R]]. rewrite R. eauto.
    + apply Nat.eqb_neq in E.
      assert (L : List.length (acc ++ [name]) <= max) by (rewrite app_length; cbn; lia).
      destruct (str_leb name token); [apply IH; assumption|].
      destruct is_admin; [apply IH; assumption|].
      destruct own as [o|]; [|apply IH; assumption].
      destruct (String.eqb o owner); apply IH; assumption.
Qed.

Theorem list_buckets_total : forall fis prefix token owner is_admin max_str r,
  list_buckets fis prefix token owner is_admin max_str = Some r ->
  exists names tok, r = Ok_ (names, tok) /\ (Z.of_nat (List.length names) <= 10000)%Z.
Proof.
  intros fis prefix token owner is_admin max_str r H. unfold list_buckets in H.
  destruct (parse_max_buckets max_str) as [max|] eqn:P; [|discriminate]. inversion H; subst r.
  assert (B : (1 <= max <= 10000)%Z).
  { unfold parse_max_buckets in P. destruct (String.eqb max_str ""); [inversion P; lia|].
    destruct (parse_int10 max_str) as [v|]; [|discriminate].
    destruct ((1 <=? v)%Z && (v <=? 10000)%Z) eqn:E; [|discriminate]. inversion P; subst.
    apply andb_true_iff in E. destruct E as [E1 E2]. apply Z.leb_le in E1, E2. lia. }
  assert (B1 : 1 <= Z.to_nat max) by lia.
  destruct (lb_loop_safe fis prefix token owner is_admin (Z.to_nat max) [] B1 ltac:(cbn; lia)) as [names [tok [E L]]].
  exists names, tok. split; [exact E|lia].
Qed.

(* ListMultipartUploads page selection never indexes an empty slice when max >= 1, and a page holds at most max uploads *)
Lemma lmu_loop_safe : forall ups i n km im max acc, 1 <= max -> List.length acc <= max ->
  exists page tr nx, lmu_loop ups i n km im max acc = Ok_ (page, tr, nx) /\ List.length page <= max.
Proof.
  induction ups as [|[key id] r IH]; intros i n km im max acc Hm Ha; cbn [lmu_loop].
  - eauto.
  - destruct (negb (lmu_behind key id km im)); [apply IH; assumption|].
    destruct (Nat.eqb (List.length acc) max) eqn:E.
    + apply Nat.eqb_eq in E. assert (N : acc <> []) by (intros ->; cbn in E; lia).
      destruct (rev_nonempty acc N) as [x [t R]]. rewrite R. eauto.
    + apply Nat.eqb_neq in E. apply IH; [exact Hm|rewrite app_length; cbn; lia].
Qed.

Theorem list_uploads_total : forall sorted km im found max,
  exists page tr nx, list_uploads sorted km im found max = Ok_ (page, tr, nx) /\ List.length page <= max.
Proof.
  intros sorted km im found max. unfold list_uploads.
  destruct (negb (String.eqb im "") && negb found); [exists [], false, ("", ""); split; [reflexivity|cbn; lia]|].
  destruct (if String.eqb km "" then Some 0 else option_map S (find_key sorted km 0)) as [st|];
    [|exists [], false, ("", ""); split; [reflexivity|cbn; lia]].
  destruct (Nat.eqb max 0) eqn:E; [exists [], false, ("", ""); split; [reflexivity|cbn; lia]|].
  apply Nat.eqb_neq in E. apply lmu_loop_safe; [lia|cbn; lia].
Qed.
