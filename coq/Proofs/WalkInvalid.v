(* C07: a prefix whose directory part is no path is the prefix of no key.
   The names of a tree are path elements (not empty, not "." or "..", without "/"): every key is a "/"-joined sequence of such
   names, possibly followed by one "/" (a directory object). A prefix r/w with an element of r that is empty, "." or ".." would
   make that element one of the key's names. *)
From Coq Require Import String Ascii List Arith Bool Lia.
From VGW Require Import Base.GoStr Model.Walk Spec.ListSpec Proofs.WalkProof Proofs.WalkFlat Proofs.WalkPage Proofs.WalkDelim Proofs.WalkFolder Proofs.WalkSubtree.
Import ListNotations.
Open Scope string_scope.
Open Scope list_scope.

Definition okseg (s : string) : Prop := valid_seg s = true /\ noslash s.

Fixpoint strict_names (t : tree) : Prop :=
  match t with
  | F _ => True
  | D _ kids => (fix go (k : list (string * tree)) : Prop :=
                   match k with [] => True | (n, c) :: r => okseg n /\ strict_names c /\ go r end) kids
  end.

Lemma strict_names_ok : forall t, strict_names t -> names_ok t.
Proof.
  induction t as [b|b kids IH] using tree_ind'; intros H; [exact I|].
  cbn [strict_names] in H. cbn [names_ok]. revert H. induction IH as [|[n c] r Hc Hr IHr]; intros H; [exact I|].
  destruct H as [[Hv _] [Hs Hg]]. destruct (valid_seg_spec n Hv) as [H1 H2]. cbn [snd] in Hc.
  split; [exact H2|split; [exact H1|split; [apply Hc; exact Hs|apply IHr; exact Hg]]].
Qed.

(* ---------- every key below a path: the path, names joined by "/", and possibly one final "/" *)
Lemma key_segments : forall t path k, strict_names t -> path <> "." -> In k (keys_at path t) ->
  exists segs tail, k = (path ++ sconcat segs ++ tail)%string /\ Forall okseg segs /\ (tail = "" \/ tail = "/").
Proof.
  induction t as [b|b kids IH] using tree_ind'; intros path k Hs Hp Hin.
  - destruct b; cbn [keys_at In] in Hin; [|destruct Hin]. destruct Hin as [H|[]]. exists [], "". cbn [sconcat]. rewrite !append_nil_r.
    split; [symmetry; exact H|split; [constructor|left; reflexivity]].
  - rewrite keys_at_dir in Hin by exact Hp. apply in_app_or in Hin. destruct Hin as [Hin|Hin].
    + destruct b; [|destruct Hin]. destruct Hin as [H|[]]. exists [], "/". cbn [sconcat String.append].
      split; [symmetry; exact H|split; [constructor|right; reflexivity]].
    + cbn [strict_names] in Hs. revert Hs Hin. induction IH as [|[n c] r Hc Hr IHr]; intros Hs Hin; [destruct Hin|].
      destruct Hs as [Hn [Hsc Hsr]]. apply in_app_or in Hin. destruct Hin as [Hin|Hin]; [|apply IHr; assumption].
      cbn [snd] in Hc. destruct Hn as [Hv Hns]. destruct (valid_seg_spec n Hv) as [Hne Hnd].
      destruct (Hc (pjoin path n) k Hsc (pjoin_not_dot _ _ Hnd Hne) Hin) as [segs [tail [Hk [Hf Ht]]]].
      assert (Hj : pjoin path n = (path ++ "/" ++ n)%string).
      { unfold pjoin. destruct (String.eqb path ".") eqn:E; [apply String.eqb_eq in E; congruence|reflexivity]. }
      exists (n :: segs), tail. split; [|split; [constructor; [split; assumption|exact Hf]|exact Ht]].
      rewrite Hk, Hj. cbn [sconcat]. rewrite !append_assoc. reflexivity.
Qed.

Lemma key_segments_top : forall b kids k, strict_names (D b kids) -> In k (keys_at "." (D b kids)) ->
  exists n segs tail, k = (n ++ sconcat segs ++ tail)%string /\ okseg n /\ Forall okseg segs /\ (tail = "" \/ tail = "/").
Proof.
  intros b kids k Hs Hin. cbn [keys_at] in Hin. cbn [String.eqb Ascii.eqb Bool.eqb andb negb] in Hin.
  rewrite andb_false_r in Hin. cbn [app] in Hin. cbn [strict_names] in Hs.
  revert Hs Hin. induction kids as [|[n c] r IHr]; intros Hs Hin; [destruct Hin|].
  destruct Hs as [Hn [Hsc Hsr]]. apply in_app_or in Hin. destruct Hin as [Hin|Hin]; [|apply IHr; assumption].
  destruct Hn as [Hv Hns]. destruct (valid_seg_spec n Hv) as [Hne Hnd].
  assert (Hj : pjoin "." n = n) by reflexivity. rewrite Hj in Hin.
  destruct (key_segments c n k Hsc Hnd Hin) as [segs [tail [Hk [Hf Ht]]]].
  exists n, segs, tail. split; [exact Hk|split; [split; assumption|split; assumption]].
Qed.

(* ---------- splitting at "/" *)
Lemma split_slash_app : forall a b acc, split_slash (a ++ "/" ++ b) acc = split_slash a acc ++ split_slash b "".
Proof.
  induction a as [|c a IH]; intros b acc.
  - cbn [String.append split_slash Ascii.eqb Bool.eqb andb app]. reflexivity.
  - change (String c a ++ "/" ++ b)%string with (String c (a ++ "/" ++ b)). cbn [split_slash].
    destruct (Ascii.eqb c "/"); [rewrite IH; reflexivity|apply IH].
Qed.

Lemma split_slash_noslash : forall s acc, noslash s -> split_slash s acc = [(acc ++ s)%string].
Proof.
  induction s as [|c s IH]; intros acc Hn; cbn [split_slash]; [rewrite append_nil_r; reflexivity|].
  unfold noslash in Hn. cbn [has_char] in Hn. apply orb_false_iff in Hn. destruct Hn as [Hc Hs]. rewrite Hc.
  rewrite IH by exact Hs. rewrite append_assoc. reflexivity.
Qed.

Lemma split_sconcat : forall segs tail acc, Forall okseg segs -> (tail = "" \/ tail = "/") ->
  split_slash (sconcat segs ++ tail) acc = acc :: segs ++ (if String.eqb tail "" then [] else [""]) \/
  (segs = [] /\ tail = "" /\ split_slash (sconcat segs ++ tail) acc = [acc]).
Proof.
  induction segs as [|s r IH]; intros tail acc Hf Ht.
  - cbn [sconcat String.append]. destruct Ht as [Ht|Ht]; subst tail.
    + right. split; [reflexivity|split; reflexivity].
    + left. reflexivity.
  - left. inversion Hf as [|x l [Hv Hn] Hr]; subst. cbn [sconcat].
    change (("/" ++ s ++ sconcat r) ++ tail)%string with (String "/" ((s ++ sconcat r) ++ tail)).
    cbn [split_slash Ascii.eqb Bool.eqb andb]. f_equal.
    rewrite append_assoc.
    destruct r as [|s2 r2].
    + cbn [sconcat String.append]. destruct Ht as [Ht|Ht]; subst tail.
      * rewrite append_nil_r. rewrite split_slash_noslash by exact Hn. reflexivity.
      * change (s ++ "/")%string with (s ++ "/" ++ "")%string. rewrite split_slash_app. rewrite split_slash_noslash by exact Hn. reflexivity.
    + cbn [sconcat]. rewrite ?append_assoc. change (s ++ "/" ++ s2 ++ sconcat r2 ++ tail)%string with (s ++ "/" ++ (s2 ++ sconcat r2 ++ tail))%string.
      rewrite split_slash_app. rewrite split_slash_noslash by exact Hn. cbn [String.append app]. f_equal.
      destruct (IH tail "" Hr Ht) as [H|[H _]]; [|discriminate H].
      cbn [sconcat] in H. change (("/" ++ s2 ++ sconcat r2) ++ tail)%string with (String "/" ((s2 ++ sconcat r2) ++ tail)) in H.
      cbn [split_slash Ascii.eqb Bool.eqb andb] in H. inversion H as [H']. rewrite append_assoc. reflexivity.
Qed.

Lemma split_slash_noslash_head : forall n x acc, noslash n -> split_slash (n ++ x) acc = split_slash x (acc ++ n).
Proof.
  induction n as [|c n IH]; intros x acc Hn; [rewrite append_nil_r; reflexivity|].
  unfold noslash in Hn. cbn [has_char] in Hn. apply orb_false_iff in Hn. destruct Hn as [Hc Hs].
  change (String c n ++ x)%string with (String c (n ++ x)). cbn [split_slash]. rewrite Hc. rewrite IH by exact Hs.
  rewrite append_assoc. reflexivity.
Qed.

Lemma split_nonempty : forall s acc, split_slash s acc <> [].
Proof.
  induction s as [|c s IH]; intros acc; cbn [split_slash]; [discriminate|]. destruct (Ascii.eqb c "/"); [discriminate|apply IH].
Qed.

Lemma has_prefix_split : forall p k, has_prefix k p = true -> exists z, k = (p ++ z)%string.
Proof.
  induction p as [|a p IH]; intros k H; [exists k; reflexivity|].
  destruct k as [|b k]; cbn [has_prefix] in H; [discriminate|]. apply andb_true_iff in H. destruct H as [Hab Hk].
  apply Ascii.eqb_eq in Hab. subst b. destruct (IH k Hk) as [z Hz]. exists z. rewrite Hz. reflexivity.
Qed.

Lemma app_prefix_list : forall (A X L T : list string), A ++ X = L ++ T -> List.length T <= List.length X -> exists Y, L = A ++ Y.
Proof.
  induction A as [|a A IH]; intros X L T H Hl; [exists L; reflexivity|].
  destruct L as [|l L].
  - exfalso. cbn [app] in H. assert (Hlen : List.length (a :: A ++ X) = List.length T) by (rewrite H; reflexivity).
    cbn [List.length] in Hlen. rewrite app_length in Hlen. lia.
  - cbn [app] in H. inversion H as [[Hal Hrest]]. destruct (IH X L T Hrest Hl) as [Y HY]. exists Y. rewrite HY. reflexivity.
Qed.

(* the keys of a tree, split at "/": its names, possibly followed by one empty element *)
Lemma key_split : forall b kids k, strict_names (D b kids) -> In k (keys_at "." (D b kids)) ->
  exists L T, split_slash k "" = L ++ T /\ Forall okseg L /\ List.length T <= 1.
Proof.
  intros b kids k Hs Hin. destruct (key_segments_top b kids k Hs Hin) as [n [segs [tail [Hk [[Hv Hn] [Hf Ht]]]]]].
  subst k. rewrite split_slash_noslash_head by exact Hn. cbn [String.append].
  destruct (split_sconcat segs tail n Hf Ht) as [H|[H1 [H2 H3]]].
  - exists (n :: segs), (if String.eqb tail "" then [] else [""]). split; [exact H|split; [constructor; [split; assumption|exact Hf]|]].
    destruct (String.eqb tail ""); cbn [List.length]; lia.
  - exists [n], []. split; [rewrite H3; reflexivity|split; [constructor; [split; assumption|constructor]|cbn [List.length]; lia]].
Qed.

(* no key of a tree whose names are path elements has a prefix r/w in which an element of r is empty, "." or ".." *)
Theorem invalid_root_no_key : forall b kids k r w, strict_names (D b kids) -> In k (keys_at "." (D b kids)) ->
  forallb valid_seg (split_slash r "") = false -> has_prefix k (r ++ "/" ++ w) = false.
Proof.
  intros b kids k r w Hs Hin Hinv. destruct (has_prefix k (r ++ "/" ++ w)) eqn:E; [exfalso|reflexivity].
  destruct (has_prefix_split _ _ E) as [z Hz].
  destruct (key_split b kids k Hs Hin) as [L [T [Hsp [HL HT]]]].
  rewrite Hz in Hsp. rewrite !append_assoc in Hsp. rewrite split_slash_app in Hsp.
  assert (HX : List.length T <= List.length (split_slash (w ++ z) "")).
  { destruct (split_slash (w ++ z) "") eqn:EX; [exfalso; exact (split_nonempty _ _ EX)|cbn [List.length]; lia]. }
  destruct (app_prefix_list _ _ _ _ Hsp HX) as [Y HY].
  assert (Hall : forallb valid_seg (split_slash r "") = true).
  { apply forallb_forall. intros x Hx. rewrite HY in HL. rewrite Forall_forall in HL. destruct (HL x (in_or_app _ _ _ (or_introl Hx))) as [Hv _]. exact Hv. }
  rewrite Hall in Hinv. discriminate.
Qed.

Lemma insert_sorted_in : forall x c l, In x (insert_sorted c l) -> x = c \/ In x l.
Proof.
  induction l as [|y l IH]; intros H; cbn [insert_sorted] in H.
  - destruct H as [H|[]]. left. symmetry. exact H.
  - destruct (str_ltb c y).
    + destruct H as [H|H]; [left; symmetry; exact H|right; exact H].
    + destruct H as [H|H]; [right; left; exact H|]. destruct (IH H) as [H'|H']; [left; exact H'|right; right; exact H'].
Qed.

Lemma sort_strs_in : forall x l, In x (sort_strs l) -> In x l.
Proof.
  induction l as [|y l IH]; intros H; [exact H|]. unfold sort_strs in H. cbn [fold_right] in H. fold (sort_strs l) in H.
  destruct (insert_sorted_in _ _ _ H) as [H'|H']; [left; symmetry; exact H'|right; apply IH; exact H'].
Qed.

(* hence the S3 rule's page for such a prefix is the empty page, like the walk's (WalkFolder.invalid_root_empty_page) *)
Theorem invalid_prefix_refines : forall b kids r w delim marker max skip flag,
  strict_names (D b kids) -> r <> "" -> r <> "." -> has_char "/" w = false -> forallb valid_seg (split_slash r "") = false -> max <> 0 ->
  walk (D b kids) (r ++ "/" ++ w) delim marker max skip flag =
  Some (s3_list (sort_strs (keys_at "." (D b kids))) (r ++ "/" ++ w) delim marker max).
Proof.
  intros b kids r w delim marker max skip flag Hs Hr Hrd Hw Hinv Hmax.
  rewrite invalid_root_empty_page by assumption. f_equal.
  rewrite s3_list_filter.
  assert (Hnone : filter (fun k => has_prefix k (r ++ "/" ++ w)) (sort_strs (keys_at "." (D b kids))) = []).
  { apply filter_none_in. intros k Hk. apply (invalid_root_no_key b kids k r w Hs); [|exact Hinv].
    apply sort_strs_in. exact Hk. }
  rewrite Hnone. unfold s3_list. destruct max; [congruence|]. reflexivity.
Qed.
