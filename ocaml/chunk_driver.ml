(* Line driver around the extracted chunk-reader models (coq/Extract/ChunkExtract.v).
   S <key> <stsPayload> <stsTrailer> <trailer 0|1|2> <seed> <frag:eof,frag:eof,...>   (hex fields; "-" = empty)
   U <kind 1|2> <stream> <buf,buf,...|-> <dflt>
   K <secret> <date8> <region>
   H <data>          sha256
   -> "<hex out> <result>" *)
open Chunkmodel

let rec pos_of_int n = if n = 1 then XH else if n land 1 = 0 then XO (pos_of_int (n lsr 1)) else XI (pos_of_int (n lsr 1))
let n_of_int n = if n = 0 then N0 else Npos (pos_of_int n)
let rec int_of_pos = function XH -> 1 | XO p -> 2 * int_of_pos p | XI p -> 2 * int_of_pos p + 1
let int_of_n = function N0 -> 0 | Npos p -> int_of_pos p
let nat_of_int n = let r = ref O in for _ = 1 to n do r := S !r done; !r

let unhex s =
  if s = "-" then [] else begin
    let l = ref [] in
    let n = String.length s / 2 in
    for i = n - 1 downto 0 do
      l := n_of_int (int_of_string ("0x" ^ String.sub s (2 * i) 2)) :: !l
    done; !l end
let tohex l = if l = [] then "-" else String.concat "" (List.map (fun b -> Printf.sprintf "%02x" (int_of_n b)) l)

let rerr_name = function
  | E_None -> "E_None" | E_EOF -> "E_EOF" | E_InvalidChunk -> "E_InvalidChunk" | E_Malformed -> "E_Malformed"
  | E_SigMismatch -> "E_SigMismatch" | E_BadDigest -> "E_BadDigest" | E_InvalidTrailer -> "E_InvalidTrailer"
  | E_UnexpectedEOF -> "E_UnexpectedEOF" | E_Panic -> "E_Panic"
let uerr_name = function
  | U_None -> "U_None" | U_EOF -> "U_EOF" | U_Malformed -> "U_Malformed" | U_UnexpectedEOF -> "U_UnexpectedEOF"
  | U_Checksum -> "U_Checksum" | U_Panic -> "U_Panic"
let kind_of = function "1" -> TCrc32 | _ -> TCrc32c

let () =
  try
    while true do
      let line = input_line stdin in
      let f = Array.of_list (String.split_on_char ' ' line) in
      (match f.(0) with
       | "S" ->
         let tr = match f.(4) with "0" -> None | k -> Some (kind_of k) in
         let frags = if f.(6) = "-" then [] else
             List.map (fun x -> match String.split_on_char ':' x with
                 | [h; e] -> (unhex h, e = "1") | _ -> failwith "frag") (String.split_on_char ',' f.(6)) in
         let (out, e) = run_signed (unhex f.(1)) (unhex f.(2)) (unhex f.(3)) tr (unhex f.(5)) frags in
         Printf.printf "%s %s\n" (tohex out) (rerr_name e)
       | "U" ->
         let bufs = if f.(3) = "-" then [] else List.map (fun x -> nat_of_int (int_of_string x)) (String.split_on_char ',' f.(3)) in
         let (out, e) = run_unsigned (kind_of f.(1)) (unhex f.(2)) bufs (nat_of_int (int_of_string f.(4))) in
         Printf.printf "%s %s\n" (tohex out) (uerr_name e)
       | "K" -> Printf.printf "%s K\n" (tohex (signing_key (unhex f.(1)) (unhex f.(2)) (unhex f.(3))))
       | "H" -> Printf.printf "%s H\n" (tohex (sha256 (unhex f.(1))))
       | _ -> print_endline "? ?")
    done
  with End_of_file -> ()
