(* Line driver around the extracted chunk-reader models (coq/Extract/ChunkExtract.v).
   S <key> <stsPayload> <stsTrailer> <trailer 0|1|2> <seed> <frag:eof,frag:eof,...>   (hex fields; "-" = empty)
   U <kind 1|2> <stream> <buf,buf,...|-> <dflt>
   K <secret> <date8> <region>
   H <data>          sha256
   -> "<hex out> <result>" *)
open Chunkmodel

let rec pos_of_int n = if n = 1 then XH else if n land 1 = 0 then XO (pos_of_int (n lsr 1)) else XI (pos_of_int (n lsr 1))
let n_of_int n = if n = 0 then N0 else Npos (pos_of_int n)
let rec int_of_pos = function XH -> 1 | XO p -> 2 * int_of_pos p | XI p -> 2 * int_of_pos p + 1
let int_of_n = function N0 -> 0 | Npos p -> int_of_pos p
let nat_of_int n = let r = ref O in for _ = 1 to n do r := S !r done; !r

let unhex s =
  if s = "-" then [] else begin
    let l = ref [] in
    let n = String.length s / 2 in
    for i = n - 1 downto 0 do
      l := n_of_int (int_of_string ("0x" ^ String.sub s (2 * i) 2)) :: !l
    done; !l end
let tohex l = if l = [] then "-" else String.concat "" (List.map (fun b -> Printf.sprintf "%02x" (int_of_n b)) l)

let rerr_name = function
  | E_None -> "E_None" | E_EOF -> "E_EOF" | E_InvalidChunk -> "E_InvalidChunk" | E_Malformed -> "E_Malformed"
  | E_SigMismatch -> "E_SigMismatch" | E_BadDigest -> "E_BadDigest" | E_InvalidTrailer -> "E_InvalidTrailer"
  | E_UnexpectedEOF -> "E_UnexpectedEOF" | E_Panic -> "E_Panic"
let uerr_name = function
  | U_None -> "U_None" | U_EOF -> "U_EOF" | U_Malformed -> "U_Malformed" | U_UnexpectedEOF -> "U_UnexpectedEOF"
  | U_Checksum -> "U_Checksum" | U_Panic -> "U_Panic"
let kind_of = function "1" -> TCrc32 | _ -> TCrc32c

let () =
  try
    while true do
      let line = input_line stdin in
      let f = Array.of_list (String.split_on_char ' ' line) in
      (match f.(0) with
       | "S" ->
         let tr = match f.(4) with "0" -> None | k -> Some (kind_of k) in
         let frags = if f.(6) = "-" then [] else
             List.map (fun x -> match String.split_on_char ':' x with
                 | [h; e] -> (unhex h, e = "1") | _ -> failwith "frag") (String.split_on_char ',' f.(6)) in
         let (out, e) = run_signed (unhex f.(1)) (unhex f.(2)) (unhex f.(3)) tr (unhex f.(5)) frags in
         Printf.printf "%s %s\n" (tohex out) (rerr_name e)
       | "U" ->
         let bufs = if f.(3) = "-" then [] else List.map (fun x -> nat_of_int (int_of_string x)) (String.split_on_char ',' f.(3)) in
         let (out, e) = run_unsigned (kind_of f.(1)) (unhex f.(2)) bufs (nat_of_int (int_of_string f.(4))) in
         Printf.printf "%s %s\n" (tohex out) (uerr_name e)
       | "P" ->
         (* P mode wire sha256|~ md5|~ calgo(0=none) cval declared frags key stsP stsT seed dexp sha256hex(wire) md5b64(dexp) cksum(dexp) *)
         let opt x = if x = "~" then None else Some (unhex x) in
         let mode = match f.(1) with "0" -> Plain | "1" -> UnsignedTrailer TCrc32 | "2" -> UnsignedTrailer TCrc32c
                                   | "3" -> Signed | "4" -> SignedTrailer TCrc32 | _ -> SignedTrailer TCrc32c in
         let algo = function "1" -> CCrc32 | "2" -> CCrc32c | "3" -> CSha1 | "4" -> CSha256 | _ -> CCrc64nvme in
         let wire = unhex f.(2) in
         let declared = int_of_string f.(7) in
         let zdecl = if declared = 0 then Z0 else if declared > 0 then Zpos (pos_of_int declared) else Zneg (pos_of_int (- declared)) in
         let frags = if f.(8) = "-" then [] else
             List.map (fun x -> match String.split_on_char ':' x with
                 | [h; e] -> (unhex h, e = "1") | _ -> failwith "frag") (String.split_on_char ',' f.(8)) in
         let dexp = unhex f.(13) in
         let dsha = unhex f.(14) and dmd5 = unhex f.(15) and dck = unhex f.(16) in
         let u = { u_mode = mode; u_wire = wire; u_sha256 = opt f.(3); u_md5 = opt f.(4);
                   u_cksum = (if f.(5) = "0" then None else Some (algo f.(5), unhex f.(6)));
                   u_declared = zdecl; u_frags = frags } in
         let unknown = [n_of_int 63] in
         let r = run_upload (fun w -> if w = wire then dsha else unknown) (fun d -> if d = dexp then dmd5 else unknown)
             (fun _ d -> if d = dexp then dck else unknown) (unhex f.(9)) (unhex f.(10)) (unhex f.(11)) (unhex f.(12)) u in
         (match r with
          | Committed d -> Printf.printf "C %s\n" (tohex d)
          | Failed e -> Printf.printf "F %s\n" (match e with
              | X_Sha256Mismatch -> "Sha256Mismatch" | X_BadChunk e -> "BadChunk:" ^ rerr_name e | X_BadUChunk e -> "BadUChunk:" ^ uerr_name e
              | X_InvalidDigest -> "InvalidDigest" | X_BadChecksum -> "BadChecksum" | X_TooLong -> "TooLong" | X_Incomplete -> "Incomplete"))
       | "K" -> Printf.printf "%s K\n" (tohex (signing_key (unhex f.(1)) (unhex f.(2)) (unhex f.(3))))
       | "H" -> Printf.printf "%s H\n" (tohex (sha256 (unhex f.(1))))
       | _ -> print_endline "? ?")
    done
  with End_of_file -> ()
