"""C06 — An upload commits only if every integrity assertion holds (DESIGN.md §7 C06)."""
import base64, binascii, hashlib, json, struct
from vlib import common, coq, gobuild, ocamlbuild, chunkenc, gw, s3c, e2e

THEOREMS = ["C06_commit_exact", "C06_failure_preserves", "C06_signed_commit_chain"]
TARGETS = ["Properties/C06.vo"]

_POLY64 = int("{:064b}".format(0xad93d23594c93659)[::-1], 2)
_T64 = []
for _i in range(256):
    _c = _i
    for _ in range(8):
        _c = (_c >> 1) ^ _POLY64 if _c & 1 else _c >> 1
    _T64.append(_c)


def crc64nvme(data):
    c = 0xFFFFFFFFFFFFFFFF
    for b in data:
        c = _T64[(c ^ b) & 0xFF] ^ (c >> 8)
    return c ^ 0xFFFFFFFFFFFFFFFF


ALGOS = {"crc32": 1, "crc32c": 2, "sha1": 3, "sha256": 4, "crc64nvme": 5}


def cksum(algo, d):
    if algo == "crc32": raw = struct.pack(">I", binascii.crc32(d) & 0xFFFFFFFF)
    elif algo == "crc32c": raw = struct.pack(">I", chunkenc.crc32c(d))
    elif algo == "sha1": raw = hashlib.sha1(d).digest()
    elif algo == "sha256": raw = hashlib.sha256(d).digest()
    else: raw = struct.pack(">Q", crc64nvme(d))
    return base64.b64encode(raw).decode()


def wrong_b64(v):
    raw = bytearray(base64.b64decode(v)); raw[0] ^= 0x01
    return base64.b64encode(bytes(raw)).decode()


def case_twin(v):
    """the same base64 text with the case of one letter swapped: another value of the same length (None when it has no letter)"""
    for i, ch in enumerate(v):
        if ch.isalpha():
            return v[:i] + ch.swapcase() + v[i + 1:]
    return None


def hexd(b):
    return b.hex() if b else "-"


def payload(rnd, n):
    return bytes(rnd.randrange(256) for _ in range(n)) if n < 5000 else bytes((i * 7 + n) % 251 for i in range(n))


MODES = ["plain", "plain-unsigned", "unsigned-trailer", "signed", "signed-trailer"]
MODE_CODE = {"plain": 0, "plain-unsigned": 0, "unsigned-trailer": 1, "signed": 3, "signed-trailer": 4}
CORRUPTIONS = {
    "plain": ["none", "none", "flip-body", "wrong-sha256", "wrong-md5", "wrong-cksum", "wrong-md5-case", "wrong-cksum-case"],
    "plain-unsigned": ["none", "flip-body-md5", "wrong-md5", "wrong-cksum", "flip-body-cksum"],
    "unsigned-trailer": ["none", "none", "flip-data", "wrong-trailer", "wrong-trailer-case", "truncate", "truncate-at-data-end", "extra-chunk", "declared-more", "declared-less", "wrong-md5", "wrong-cksum"],
    "signed": ["none", "none", "flip-data", "wrong-chunk-sig", "truncate", "truncate-at-data-end", "extra-chunk", "declared-more", "declared-less", "wrong-md5", "wrong-cksum", "drop-final"],
    "signed-trailer": ["none", "none", "flip-data", "wrong-chunk-sig", "wrong-trailer", "wrong-trailer-case", "wrong-trailer-sig", "truncate", "truncate-at-data-end", "declared-more", "declared-less"],
}


def build_case(rnd, mode, corruption, size, algo=None):
    """returns dict with what to send and what the harness believes the decoded bytes are"""
    P = payload(rnd, size)
    c = {"mode": mode, "corruption": corruption, "size": size, "payload": P}
    nchunks = rnd.choice([1, 2, 3]) if size else 0
    cuts = sorted(rnd.sample(range(1, size), min(nchunks - 1, max(size - 1, 0)))) if size > 1 else []
    chunks = [P[a:b] for a, b in zip([0] + cuts, cuts + [size])] if size else []
    c["chunks"] = chunks
    c["use_md5"] = corruption in ("wrong-md5", "wrong-md5-case") or (corruption == "flip-body-md5") or rnd.random() < 0.25
    c["algo"] = rnd.choice(list(ALGOS)) if (corruption in ("wrong-cksum", "wrong-cksum-case", "flip-body-cksum") or rnd.random() < 0.3) and mode not in ("signed-trailer", "unsigned-trailer") else None
    if algo and c["algo"]: c["algo"] = algo
    if mode == "unsigned-trailer" and corruption == "wrong-cksum":
        c["algo"] = None; c["corruption"] = "wrong-trailer"
    return c


def run(chk):
    quick = chk.tier == "quick"
    n_cases = 260 if quick else 2000
    chk.rule = ("a case is one PutObject or UploadPart in one payload encoding (plain with payload hash, plain UNSIGNED-PAYLOAD, "
                "unsigned aws-chunked with CRC trailer, signed aws-chunked, signed with trailer) with optional Content-MD5 and one "
                "x-amz-checksum-* header (all five algorithms), bodies of 0..100000 bytes, and one corruption (flipped data byte, wrong "
                "declared digest / chunk signature / trailer checksum / trailer signature, truncation after a chunk and at the last data byte, extra chunk, declared "
                "decoded length larger or smaller) or none, on a key that is absent or holds old content with its own content type and user metadata (the state compared is bytes, ETag, content type and user metadata together), in the xattr and the sidecar metadata store; non-trivial when >= 2 chunks or "
                "a corruption is present; distinct by content.")
    gwbin = gobuild.build_gateway("verif")
    model = ocamlbuild.build_driver("chunkmodel", "Extract/ChunkExtract.v", "chunkmodel.ml", "chunk_driver.ml")
    chk.checker_cmds.append("extracted model: coqc Extract/ChunkExtract.v; ocamlfind ocamlopt chunkmodel.ml chunk_driver.ml")
    built = coq.ensure_built(chk, TARGETS)
    if built:
        coq.check_assumptions(chk, "Properties.C06", THEOREMS)
    rnd = chk.rnd
    plan = []
    sizes = [0, 1, 5, 100, 3000, 40000, 70000, 100000]
    for mode in MODES:
        for cor in sorted(set(CORRUPTIONS[mode])):
            for part in (False, True):
                plan.append((mode, cor, rnd.choice([100, 3000]), part))
    # every checksum algorithm, wrong and right, on PutObject and on UploadPart
    for mode in ("plain", "plain-unsigned", "signed"):
        for algo_ in ALGOS:
            for part in (False, True):
                plan.append((mode, "wrong-cksum", 100, part, algo_))
                if mode == "plain": plan.append((mode, "none", 100, part, algo_))
    # oversize/short bodies that need several writes of the copy buffer
    for mode in ("unsigned-trailer", "signed"):
        for cor in ("extra-chunk", "declared-less", "declared-more", "truncate"):
            plan.append((mode, cor, rnd.choice([70000, 100000]), False))
            plan.append((mode, cor, 90000, True))
    while len(plan) < n_cases:
        mode = rnd.choice(MODES)
        plan.append((mode, rnd.choice(CORRUPTIONS[mode]), rnd.choice(sizes), rnd.random() < 0.3))
    plan = [pl_ if len(pl_) == 5 else pl_ + (None,) for pl_ in plan]

    results, mlines = [], []
    n_side = len([1 for m in MODES for c_ in set(CORRUPTIONS[m])]) * 2 + 16
    for label, cfg, pl, base in (("xattr", {"iam": False}, plan, 0), ("sidecar", {"iam": False, "meta": "sidecar"}, plan[:n_side], len(plan))):
        with gw.Site(cfg, name="c06") as site:
            g = site.gateway(gwbin)
            cl = s3c.Client(g.port, "root", "rootsecret")
            r0 = cl.req("PUT", "/bk1")
            chk.require(r0.status == 200, "c06:setup:create-bucket", "CreateBucket answered %s" % r0)
            for idx, (mode, cor, size, part, algo_) in enumerate(pl, start=base):
                if size == 0 and (cor.startswith("flip") or cor in ("declared-less", "truncate", "truncate-at-data-end")):
                    cor = "none"          # nothing to corrupt in an empty payload
                c = build_case(rnd, mode, cor, size, algo_)
                if algo_ and cor == "none" and not c["algo"]: c["algo"] = algo_
                cor = c["corruption"]
                if c["algo"]: chk.count("checksum:%s:%s:%s" % ("part" if part else "put", c["algo"], "wrong" if cor.startswith("wrong-cksum") else "other"))
                P, chunks = c["payload"], c["chunks"]
                key = "k%04d" % idx
                old = None
                path, query = "/bk1/" + key, {}
                if part:
                    r = cl.req("POST", path, query={"uploads": ""})
                    uid = r.xml().findtext("UploadId")
                    query = {"partNumber": "1", "uploadId": uid}
                    if rnd.random() < 0.5:
                        old = b"OLDPART" * 3
                        r0 = cl.req("PUT", path, query=query, body=old)
                        chk.require(r0.status == 200, "c06:valid-upload-rejected-or-altered:plain", "a plain valid UploadPart of %d bytes answered %s" % (len(old), r0))
                elif rnd.random() < 0.5:
                    old = b"OLD-CONTENT-%d" % idx
                    r0 = cl.req("PUT", path, body=old, headers={"content-type": "old/type", "x-amz-meta-old": "1"})
                    chk.require(r0.status == 200, "c06:valid-upload-rejected-or-altered:plain", "a plain valid PutObject of %d bytes answered %s" % (len(old), r0))
                headers = {} if part else {"content-type": "new/type", "x-amz-meta-new": "1"}
                dexp = P                       # what the harness believes the decoded bytes are
                declared = len(P)
                md5v = base64.b64encode(hashlib.md5(P).digest()).decode()
                if cor == "wrong-md5": md5v = wrong_b64(md5v)
                if cor == "wrong-md5-case": md5v = case_twin(md5v) or wrong_b64(md5v)
                if c["use_md5"]: headers["Content-MD5"] = md5v
                ckv = None
                if c["algo"]:
                    ckv = cksum(c["algo"], P)
                    if cor == "wrong-cksum": ckv = wrong_b64(ckv)
                    if cor == "wrong-cksum-case": ckv = case_twin(ckv) or wrong_b64(ckv)
                    headers["x-amz-checksum-" + c["algo"]] = ckv
                sha_hdr = None
                if mode in ("plain", "plain-unsigned"):
                    body = P
                    if cor.startswith("flip-body") and P:
                        b = bytearray(P); b[rnd.randrange(len(P))] ^= 0x40; body = bytes(b)
                    dexp = body
                    if mode == "plain":
                        sha_hdr = hashlib.sha256(P).hexdigest()
                        if cor == "wrong-sha256": sha_hdr = hashlib.sha256(P + b"x").hexdigest()
                        resp = cl.req("PUT", path, query=query, body=P, send_body=body, headers=headers, payload_hash=sha_hdr)
                    else:
                        resp = cl.req("PUT", path, query=query, body=P, send_body=body, headers=headers, payload_hash="UNSIGNED-PAYLOAD")
                    wire, seed, keyb, stsP, stsT = body, b"", b"", b"", b""
                    declared = len(body)
                else:
                    trailer = "crc32" if mode in ("signed-trailer", "unsigned-trailer") else None
                    send_chunks = list(chunks)
                    if cor == "extra-chunk": send_chunks = chunks + [b"EXTRA" * 7]
                    if cor == "declared-more": declared = len(P) + 5
                    if cor == "declared-less" and P: declared = len(P) - 1
                    headers.update({"x-amz-decoded-content-length": str(declared), "content-encoding": "aws-chunked"})
                    if trailer: headers["x-amz-trailer"] = "x-amz-checksum-crc32"
                    info = {}
                    def make_body(sig, k, amzdate, d8, region, send_chunks=send_chunks, trailer=trailer, cor=cor, mode=mode, info=info):
                        if mode == "unsigned-trailer":
                            b = chunkenc.encode_unsigned(send_chunks, "crc32")
                        else:
                            b = chunkenc.encode_signed(send_chunks, k, sig, trailer, amzdate, d8, region)
                        info.update({"key": k, "stsP": chunkenc.sts_prefix("AWS4-HMAC-SHA256-PAYLOAD", amzdate, d8, region).encode(),
                                     "stsT": chunkenc.sts_prefix("AWS4-HMAC-SHA256-TRAILER", amzdate, d8, region).encode()})
                        bb = bytearray(b)
                        if cor == "flip-data" and send_chunks:
                            first = b.index(b"\r\n") + 2
                            bb[first + rnd.randrange(len(send_chunks[0]))] ^= 0x40
                        elif cor == "wrong-chunk-sig":
                            i = b.index(b"chunk-signature=") + 16; bb[i] = ord("0") if bb[i] != ord("0") else ord("1")
                        elif cor == "wrong-trailer":
                            i = b.rindex(b"x-amz-checksum-crc32:") + 21; bb[i] = ord("B") if bb[i] != ord("B") else ord("C")
                        elif cor == "wrong-trailer-case":
                            i = b.rindex(b"x-amz-checksum-crc32:") + 21
                            j = next((x for x in range(i, i + 6) if chr(bb[x]).isalpha()), None)
                            if j is not None: bb[j] = ord(chr(bb[j]).swapcase())
                            else: bb[i] = ord("B") if bb[i] != ord("B") else ord("C")
                        elif cor == "wrong-trailer-sig":
                            i = b.rindex(b"x-amz-trailer-signature:") + 24; bb[i] = ord("0") if bb[i] != ord("0") else ord("1")
                        elif cor == "truncate":
                            cutat = b.index(b"\r\n", b.index(b"\r\n") + 2) + 2 if send_chunks else max(len(b) - 3, 0)
                            bb = bb[:cutat]
                        elif cor == "truncate-at-data-end":
                            # the body ends with the last data byte of the last chunk: no CRLF, no final chunk, no trailer
                            mark = b"\r\n0\r\n" if mode == "unsigned-trailer" else b"\r\n0;chunk-signature="
                            bb = bb[:b.rindex(mark)] if send_chunks and mark in b else bb[:max(len(b) - 3, 0)]
                        elif cor == "drop-final":
                            bb = bb[:b.rindex(b"0;chunk-signature=")]
                        return bytes(bb)
                    ptype = "STREAMING-UNSIGNED-PAYLOAD-TRAILER" if mode == "unsigned-trailer" else (
                        "STREAMING-AWS4-HMAC-SHA256-PAYLOAD-TRAILER" if trailer else "STREAMING-AWS4-HMAC-SHA256-PAYLOAD")
                    resp, seedsig = cl.req_streaming("PUT", path, make_body, query=query, headers=headers, payload_type=ptype)
                    seed, keyb, stsP, stsT = seedsig.encode(), info["key"], info["stsP"], info["stsT"]
                    dexp = b"".join(send_chunks)
                # observe the key afterwards
                if part:
                    lp = cl.req("GET", path, query={"uploadId": query["uploadId"]})
                    x = lp.xml()
                    parts = [(p.findtext("Size"), (p.findtext("ETag") or "").strip('"')) for p in x.findall("Part")] if x is not None else []
                    after = ("part", parts[0]) if parts else ("part", None)
                    before_state = ("part", (str(len(old)), hashlib.md5(old).hexdigest())) if old is not None else ("part", None)
                else:
                    gr = cl.req("GET", path)
                    # the key's state: bytes, ETag, content type and user metadata together
                    after = ("obj", (gr.body, (gr.headers.get("etag") or "").strip('"'), gr.headers.get("content-type"),
                                     tuple(sorted(e2e.meta_of(gr.headers).items())))) if gr.status == 200 else ("obj", None)
                    before_state = ("obj", (old, hashlib.md5(old).hexdigest(), "old/type", (("old", "1"),)) if old is not None else None)
                results.append({"idx": idx, "config": label, "mode": mode, "corruption": cor, "size": size, "part": part, "status": resp.status, "code": resp.code,
                                "had_old": old is not None, "after": after, "before": before_state, "md5": c["use_md5"], "algo": c["algo"],
                                "declared": declared, "dexp": dexp, "alive": g.alive()})
                if not g.alive():
                    chk.fail("c06:gateway-died", "the gateway process died on a %s upload with corruption %s" % (mode, cor), results[-1] | {"dexp": None, "log": g.log_tail(1500)})
                    g = site.gateway(gwbin); cl = s3c.Client(g.port, "root", "rootsecret")
                # model line (only when we know the exact wire bytes)
                wire_sent = getattr(resp, "wire", None)
                mlines.append((idx, mode, cor, wire_sent, sha_hdr, md5v if c["use_md5"] else None, c["algo"], ckv, declared, seed, keyb, stsP, stsT, dexp))
            # ---- directory objects: the payload is empty, the integrity assertions of the request still have to hold
            dres = dirobj_cases(chk, cl, label, rnd)
            unsigned_chunk_cases(chk, cl, label, rnd)
            nolength_cases(chk, cl, label, rnd)
            chk.tie("gateway still running after the uploads", g.alive(), g.log_tail())

    # ---- two uploads to one key (or one part) in flight at the same time, in both temp-file strategies: the first has received its
    # whole body and is parked before it publishes; the second, corrupt, is refused meanwhile; what the first publishes is its own bytes
    from vlib import hooks
    for label, cfg in (("otmpfile", {"iam": False}), ("named-temp", {"iam": False, "otmp": False})):
        with gw.Site(cfg, name="c06h") as site:
            hk = hooks.Hooks(site.base)
            g = site.gateway(gwbin, extra_env=hk.env())
            A, B = s3c.Client(g.port, "root", "rootsecret"), s3c.Client(g.port, "root", "rootsecret")
            chk.require(A.req("PUT", "/bk1").status == 200, "c06:setup:create-bucket", "CreateBucket failed")
            n_ = 0
            for part in (False, True):
                for at in ("posix.putobject.bodywritten", "posix.putobject.beforelink", "posix.link.enter", "posix.link.named"):
                    for second in ("wrong-md5-shorter", "wrong-md5-longer", "valid"):
                        n_ += 1
                        key = "both%03d" % n_; path = "/bk1/" + key; q = {}
                        if part:
                            uid_ = A.req("POST", path, query={"uploads": ""}).xml().findtext("UploadId"); q = {"partNumber": "1", "uploadId": uid_}
                        bodyA = payload(rnd, 30000 + n_); bodyB = payload(rnd, 1000 + n_ if second == "wrong-md5-shorter" else 60000 + n_)
                        md5B = base64.b64encode(hashlib.md5(bodyB).digest()).decode()
                        hB = {"Content-MD5": md5B if second == "valid" else wrong_b64(md5B)}
                        rA, rB, parked = hooks.held(hk, at, lambda: A.req("PUT", path, query=q, body=bodyA), lambda: B.req("PUT", path, query=q, body=bodyB, headers=hB))
                        hk.clear()
                        chk.case(("in-flight", label, part, at, second), parked); chk.traces += 1
                        if not parked or rA is None or rB is None:
                            chk.count("inflight:%s:not-reached" % label); continue
                        if part:
                            lp = A.req("GET", path, query={"uploadId": uid_})
                            got = [(p_.findtext("Size"), (p_.findtext("ETag") or "").strip('"')) for p_ in lp.xml().findall("Part")] if lp.status == 200 and lp.xml() is not None else None
                            stored = got[0] if got else None
                            okA, okB = (str(len(bodyA)), hashlib.md5(bodyA).hexdigest()), (str(len(bodyB)), hashlib.md5(bodyB).hexdigest())
                            A.req("DELETE", path, query={"uploadId": uid_})
                        else:
                            gr = A.req("GET", path); stored = (str(len(gr.body)), hashlib.md5(gr.body).hexdigest()) if gr.status == 200 else None
                            okA, okB = (str(len(bodyA)), hashlib.md5(bodyA).hexdigest()), (str(len(bodyB)), hashlib.md5(bodyB).hexdigest())
                        allowed = ([okA] if rA.status == 200 else []) + ([okB] if rB.status == 200 else [])
                        chk.count("inflight:%s:%s:%s" % (label, second, "A" if stored == okA else "B" if stored == okB else "none" if stored is None else "other"))
                        row = {"config": label, "upload_part": part, "first_parked_at": at, "second": second, "first_status": rA.status, "second_status": rB.status, "second_code": rB.code,
                               "stored_size_md5": stored, "first_size_md5": okA, "second_size_md5": okB}
                        if second != "valid" and rB.status == 200:
                            chk.fail("c06:corrupt-upload-committed:in-flight:%s" % second, "[%s] an upload with a wrong Content-MD5, sent while another upload of the same %s was in flight, was acknowledged" % (label, "part" if part else "key"), row)
                        elif allowed and stored not in allowed:
                            chk.fail("c06:in-flight-uploads-mixed:%s" % label, "[%s] two uploads of one %s in flight together (the first parked at %s with its body received, the second %s, answered %d): what is stored afterwards "
                                     "(%s) is neither upload's bytes" % (label, "part" if part else "key", at, second, rB.status, stored), row)
            chk.tie("gateway still running after the in-flight uploads (%s)" % label, g.alive(), g.log_tail())

    # ---- model predictions
    lines = []
    for (idx, mode, cor, wire, sha_hdr, md5v, algo, ckv, declared, seed, keyb, stsP, stsT, dexp) in mlines:
        if wire is None:
            lines.append("?")
            continue
        enc = lambda s: s.encode().hex() if s is not None else "~"
        lines.append(" ".join(["P", str(MODE_CODE[mode]), hexd(wire), enc(sha_hdr), enc(md5v), str(ALGOS[algo]) if algo else "0",
                               hexd(ckv.encode()) if ckv else "-", str(declared), "%s:0" % hexd(wire), hexd(keyb), hexd(stsP), hexd(stsT), hexd(seed),
                               hexd(dexp), hexd(hashlib.sha256(wire).hexdigest().encode()),
                               hexd(base64.b64encode(hashlib.md5(dexp).digest())), hexd(cksum(algo, dexp).encode()) if algo else "-"]))
    mobs = ocamlbuild.run_lines(model, lines)
    bad = []
    for r, m in zip(results, mobs):
        nt = r["corruption"] != "none" or r["size"] > 100
        chk.case(("c06", r["idx"], r["mode"], r["corruption"], r["size"], r["part"]), nt)
        committed = r["status"] == 200
        chk.count("%s:%s:%s" % (r["mode"], r["corruption"], "commit" if committed else "fail"))
        chk.traces += 1
        view = {k: v for k, v in r.items() if k not in ("dexp", "after", "before")}
        view["after_state"] = None if r["after"][1] is None else ((len(r["after"][1][0]),) + r["after"][1][1:] if r["after"][0] == "obj" else r["after"][1])
        view["config"] = r["config"]
        # R3: Spec on the observation
        dexp = r["dexp"]
        clean = r["corruption"] == "none"
        if r["after"][0] == "obj":
            new_state, old_state = r["after"][1], r["before"][1]
        else:
            new_state, old_state = r["after"][1], r["before"][1]
        if r["after"][0] == "obj":
            want_new = (dexp, hashlib.md5(dexp).hexdigest(), "new/type", (("new", "1"),))
        else:
            want_new = (str(len(dexp)), hashlib.md5(dexp).hexdigest())
        if clean:
            if not committed or new_state != want_new:
                chk.fail("c06:valid-upload-rejected-or-altered:%s" % r["mode"], "a valid %s upload of %d bytes answered %d %s; the key then holds %s" % (
                    r["mode"], r["size"], r["status"], r["code"], "the uploaded object" if new_state == want_new else "something else: %r" % (((len(new_state[0]),) + new_state[1:]) if isinstance(new_state, tuple) and isinstance(new_state[0], bytes) else new_state,)), view)
        else:
            if committed:
                chk.fail("c06:corrupt-upload-committed:%s:%s" % (r["mode"], r["corruption"]),
                         "a %s upload with %s was acknowledged with 200" % (r["mode"], r["corruption"]), view)
            elif new_state != old_state:
                chk.fail("c06:failed-upload-changed-key:%s:%s" % (r["mode"], r["corruption"]),
                         "a failed %s upload (%s, %d %s) changed the key's state" % (r["mode"], r["corruption"], r["status"], r["code"]), view)
        # O2: model vs implementation
        if m == "?" or m is None:
            continue
        mk, _, mv = m.partition(" ")
        if mk == "C":
            stored = bytes.fromhex(mv) if mv != "-" else b""
            ok = committed and new_state is not None and ((new_state[0] if r["after"][0] == "obj" else new_state) ==
                                                          (stored if r["after"][0] == "obj" else (str(len(stored)), hashlib.md5(stored).hexdigest())))
        else:
            ok = (not committed) and new_state == old_state and code_matches(mv, r["status"], r["code"])
        if not ok:
            bad.append(dict(view, model=m[:80]))
    chk.tie("T3 PutObject/UploadPart outcomes of the real gateway = extracted Model.Pipeline.upload_outcome on %d uploads" % len(results), not bad, bad[:5])
    chk.samples.extend([{k: v for k, v in r.items() if k not in ("dexp", "after", "before")} for r in results[3:6]])



def dirobj_cases(chk, cl, label, rnd):
    """PutObject of a key ending in "/" (a directory object, empty payload) with each integrity field right and wrong, on an absent
    key and on an existing directory object; a refused request leaves the key as it was."""
    empty = b""
    md5ok = base64.b64encode(hashlib.md5(empty).digest()).decode()
    out = []
    n = 0
    for cor in ("none", "wrong-md5", "wrong-sha256", "wrong-cksum-crc32", "wrong-cksum-sha256", "wrong-chunk-sig", "wrong-trailer", "more-data-than-declared"):
        for had_old in (False, True):
            n += 1
            key = "dirobj%s%d/" % (label, n)
            path = "/bk1/" + key
            if had_old:
                r0 = cl.req("PUT", path, body=b"", headers={"x-amz-meta-old": "1"})
                chk.require(r0.status == 200, "c06:valid-upload-rejected-or-altered:dirobj", "a valid PutObject of the directory object %s answered %s" % (key, r0))
            headers = {"x-amz-meta-new": "1"}
            if cor in ("none", "wrong-md5"):
                headers["Content-MD5"] = wrong_b64(md5ok) if cor == "wrong-md5" else md5ok
            if cor.startswith("wrong-cksum-"):
                algo = cor.split("-")[2]
                headers["x-amz-checksum-" + algo] = wrong_b64(cksum(algo, empty))
            if cor == "wrong-sha256":
                resp = cl.req("PUT", path, body=empty, headers=headers, payload_hash=hashlib.sha256(b"x").hexdigest())
            elif cor == "more-data-than-declared":
                # a correctly signed chunked body that carries five bytes under a declared decoded length of zero
                headers.update({"x-amz-decoded-content-length": "0", "content-encoding": "aws-chunked"})
                resp, _ = cl.req_streaming("PUT", path, lambda sig, k, amzdate, d8, region: chunkenc.encode_signed([b"hello"], k, sig, None, amzdate, d8, region),
                                           headers=headers, payload_type="STREAMING-AWS4-HMAC-SHA256-PAYLOAD")
            elif cor in ("wrong-chunk-sig", "wrong-trailer"):
                headers.update({"x-amz-decoded-content-length": "0", "content-encoding": "aws-chunked"})
                if cor == "wrong-trailer":
                    headers["x-amz-trailer"] = "x-amz-checksum-crc32"
                def make_body(sig, k, amzdate, d8, region, cor=cor):
                    if cor == "wrong-trailer":
                        b = chunkenc.encode_unsigned([], "crc32")
                        i = b.rindex(b"x-amz-checksum-crc32:") + 21
                    else:
                        b = chunkenc.encode_signed([], k, sig, None, amzdate, d8, region)
                        i = b.index(b"chunk-signature=") + 16
                    bb = bytearray(b); bb[i] = ord("B") if bb[i] != ord("B") else ord("C")
                    return bytes(bb)
                resp, _ = cl.req_streaming("PUT", path, make_body, headers=headers,
                                           payload_type="STREAMING-UNSIGNED-PAYLOAD-TRAILER" if cor == "wrong-trailer" else "STREAMING-AWS4-HMAC-SHA256-PAYLOAD")
            else:
                resp = cl.req("PUT", path, body=empty, headers=headers)
            hd = cl.req("HEAD", path)
            state = None if hd.status != 200 else tuple(sorted(e2e.meta_of(hd.headers).items()))
            before = (("old", "1"),) if had_old else None
            view = {"config": label, "key": key, "corruption": cor, "had_old": had_old, "status": resp.status, "code": resp.code, "state_after": state}
            chk.case(("c06-dirobj", label, cor, had_old), True)
            chk.count("dirobj:%s:%s" % (cor, "commit" if resp.status == 200 else "fail"))
            chk.traces += 1
            if cor == "none":
                if resp.status != 200 or state is None or ("new", "1") not in state:      # (whether the old user metadata goes away is C01's question)
                    chk.fail("c06:valid-upload-rejected-or-altered:dirobj", "a valid PutObject of a directory object answered %d %s; the key then has user metadata %r" % (resp.status, resp.code, state), view)
            elif resp.status == 200:
                chk.fail("c06:corrupt-upload-committed:dirobj:%s" % cor, "a PutObject of a directory object (empty payload) with %s was acknowledged with 200" % cor, view)
            elif state != before:
                chk.fail("c06:failed-upload-changed-key:dirobj:%s" % cor, "a refused PutObject of a directory object (%s, %d %s) changed the key's state from %r to %r" % (cor, resp.status, resp.code, before, state), view)
            out.append(view)
    return out


def nolength_cases(chk, cl, label, rnd):
    """PutObject and UploadPart sent with neither Content-Length nor Transfer-Encoding (an empty payload): the integrity values the
    request carries are still compared with the (empty) payload"""
    empty_sha = hashlib.sha256(b"").hexdigest()
    r0 = cl.req("POST", "/bk1/nolen-mp" + label, query={"uploads": ""}); uid = r0.xml().findtext("UploadId") if r0.status == 200 and r0.xml() is not None else ""
    n = 0
    for target in ("put-new", "put-existing", "part"):
        for cor in ("none", "wrong-sha256", "wrong-md5", "wrong-crc32"):
            n += 1
            key = "nolen%s%d" % (label, n); path = "/bk1/" + key; q = {}
            if target == "put-existing":
                chk.require(cl.req("PUT", path, body=b"previous content").status == 200, "c06:setup", "PUT failed")
            if target == "part":
                path = "/bk1/nolen-mp" + label; q = {"partNumber": str(n), "uploadId": uid}
            hd = {}
            if cor == "wrong-md5": hd["Content-MD5"] = base64.b64encode(hashlib.md5(b"not empty").digest()).decode()
            if cor == "wrong-crc32": hd["x-amz-checksum-crc32"] = wrong_b64(cksum("crc32", b""))
            r = cl.req("PUT", path, query=q, body=b"", headers=hd, payload_hash=hashlib.sha256(b"x").hexdigest() if cor == "wrong-sha256" else empty_sha, content_length=False, timeout=15)
            if target == "part":
                lp = cl.req("GET", path, query={"uploadId": uid})
                stored = lp.status == 200 and ("<PartNumber>%d</PartNumber>" % n).encode() in (lp.body or b"")
                changed = stored
            else:
                g = cl.req("GET", path)
                changed = (g.status == 200 and g.body == b"") if target == "put-new" else not (g.status == 200 and g.body == b"previous content")
            view = {"config": label, "target": target, "corruption": cor, "status": r.status, "code": r.code, "key_changed": changed}
            chk.case(("c06-nolength", label, target, cor), True); chk.traces += 1
            chk.count("nolength:%s:%s:%s" % (target, cor, "commit" if r.status == 200 else "fail"))
            if cor != "none" and (r.status == 200 or changed):
                chk.fail("c06:corrupt-upload-committed:no-content-length:%s" % cor, "[%s] a %s without Content-Length (empty payload) carrying %s was answered %d and %s" % (
                    label, "UploadPart" if target == "part" else "PutObject", cor, r.status, "stored" if changed else "not stored"), view)
    cl.req("DELETE", "/bk1/nolen-mp" + label, query={"uploadId": uid})


def unsigned_chunk_cases(chk, cl, label, rnd):
    """a signed aws-chunked upload (the declared decoded length is not among the signed headers, as a client may choose) into which a
    chunk WITHOUT a signature is inserted: every chunk of such a stream carries a signature that has to verify"""
    n = 0
    for ptype, trailer in (("STREAMING-AWS4-HMAC-SHA256-PAYLOAD", None), ("STREAMING-AWS4-HMAC-SHA256-PAYLOAD-TRAILER", "crc32")):
        for base_chunks in ([b"genuine-data-" * 5], [], [b"first-chunk" * 9, b"second" * 11]):
            for where in ("before-final", "first"):
                n += 1
                key = "unsignedchunk%s%d" % (label, n); path = "/bk1/" + key
                inj = b"INJECTED-" + key.encode()
                hd = {"content-encoding": "aws-chunked"}
                if trailer: hd["x-amz-trailer"] = "x-amz-checksum-crc32"
                total = sum(len(c) for c in base_chunks) + len(inj)
                def mk(sig, k, amzdate, d8, region, base_chunks=base_chunks, where=where, trailer=trailer, inj=inj):
                    b = chunkenc.encode_signed(base_chunks, k, sig, trailer, amzdate, d8, region)
                    piece = ("%x;chunk-signature=\r\n" % len(inj)).encode() + inj + b"\r\n"
                    if where == "first" or not base_chunks:
                        return piece + b
                    i = b.rindex(b"0;chunk-signature=")
                    return b[:i] + piece + b[i:]
                resp, _ = cl.req_streaming("PUT", path, mk, headers=hd, payload_type=ptype, tamper=lambda h, total=total: h.update({"x-amz-decoded-content-length": str(total)}))
                gr = cl.req("GET", path)
                chk.case(("unsigned-chunk", label, ptype, len(base_chunks), where), True); chk.traces += 1
                chk.count("unsigned-chunk:%s:%d" % (where, resp.status))
                row = {"config": label, "payload_type": ptype, "signed_chunks": len(base_chunks), "unsigned_chunk_inserted": where, "status": resp.status, "code": resp.code,
                       "stored_after": None if gr.status != 200 else (len(gr.body), inj in gr.body)}
                if resp.status == 200 or gr.status == 200:
                    chk.fail("c06:corrupt-upload-committed:chunk-without-signature", "[%s] a signed aws-chunked upload (%s, %d signed chunks) with an extra chunk whose chunk-signature is empty was answered %d; the key then holds %s" % (
                        label, ptype, len(base_chunks), resp.status, "an object containing the unsigned bytes" if gr.status == 200 and inj in gr.body else "status %d" % gr.status), row)

def code_matches(model_err, status, code):
    exp = {"Sha256Mismatch": {"XAmzContentSHA256Mismatch"}, "InvalidDigest": {"InvalidDigest", "BadDigest"}, "BadChecksum": {"BadDigest"},
           "Incomplete": {"IncompleteBody"}, "BadChunk:E_SigMismatch": {"SignatureDoesNotMatch"}, "BadChunk:E_BadDigest": {"BadDigest"},
           "BadUChunk:U_Checksum": None}.get(model_err, None)
    if exp is None:
        return status >= 400          # non-API errors surface as 500 InternalError / 400: only failure is compared
    return code in exp


def replay(chk, data):
    print(json.dumps(data.get("replay"), indent=1, default=str))
    return 0
