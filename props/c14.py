"""C14 — Bucket policy evaluation follows the policy language exactly (DESIGN.md §7 C14)."""
import json as pyjson, subprocess
from vlib import common, coq, gobuild, gen
from vlib.common import coq_str, coq_bool, coq_list

THEOREMS = ["C14_glob_correct", "C14_principal_match", "C14_action_match", "C14_resource_match", "C14_deny_overrides",
            "C14_validate_exact", "C14_validate_first_byte", "C14_put_keeps_previous"]
TARGETS = ["Properties/C14.vo", "Check/PolicyCheck.vo"]

ACTIONS = ["s3:GetObject", "s3:PutObject", "s3:DeleteObject", "s3:ListBucket", "s3:GetBucketAcl", "s3:PutBucketPolicy",
           "s3:GetObjectTagging", "s3:PutBucketTagging", "s3:AbortMultipartUpload", "s3:GetBucketVersioning",
           "s3:BypassGovernanceRetention", "s3:PutObjectRetention", "s3:CreateBucket", "s3:ListBucketVersions"]
ACTION_PATTERNS = ["s3:*", "s3:Get*", "s3:Put*", "s3:GetObject*", "s3:GetBucket*", "s3:List*", "s3:Delete*", "s3:PutBucket*",
                   "s3:G*", "s3:Abort*", "s3:Get**"]
BAD_ACTIONS = ["s3:Foo", "s3:", "S3:GetObject", "s3:getobject", "GetObject", "*", "s3:Zz*", "", "iam:*", "s3:GetObjectX",
               "s3:GetBucketObjectLockConfiguration"]
ACCOUNTS = ["u1", "u2"]
BUCKET = "bk"


# ------------------------------------------------------------------ JSON trees
class Tree:
    """('null'|'bool'|'num'|'str'|'arr'|'obj', value)"""
    pass


def t_str(s): return ("str", s)
def t_arr(l): return ("arr", list(l))
def t_obj(l): return ("obj", list(l))
T_NULL, T_NUM = ("null", None), ("num", 5)


def ser(t):
    k, v = t
    if k == "null": return "null"
    if k == "bool": return "true" if v else "false"
    if k == "num": return str(v)
    if k == "str": return pyjson.dumps(v)
    if k == "arr": return "[" + ",".join(ser(x) for x in v) + "]"
    return "{" + ",".join(pyjson.dumps(a) + ":" + ser(b) for a, b in v) + "}"


def coq_json(t):
    k, v = t
    if k == "null": return "JNull"
    if k == "bool": return "(JBool %s)" % coq_bool(v)
    if k == "num": return "JNum"
    if k == "str": return "(JStr %s)" % coq_str(v)
    if k == "arr": return "(JArr %s)" % coq_list([coq_json(x) for x in v])
    return "(JObj %s)" % coq_list(["(%s, %s)" % (coq_str(a), coq_json(b)) for a, b in v])


def gen_resource(rnd):
    r = rnd.random()
    arn = "arn:aws:s3:::"
    if r < 0.50:
        return arn + BUCKET + rnd.choice(["", "/*", "/a*", "/pub/*", "/*secret", "/a?c", "/x", "*", "/**", "?x", "/", "/", "/dir/", "/pub/*/"])
    if r < 0.62:
        return arn + rnd.choice(["bkX/*", "bk2", "bkk", "b", "other/*", "bk.x/*", "bk-/*", "BK/*"])
    if r < 0.70:
        return arn + rnd.choice(["*", "b*", "?k/*", "*/x", "**"])
    if r < 0.80:
        return rnd.choice(["bk/*", "arn:aws:s3::bk", "arn:aws:s3:::", "arn:aws:s3:::/bk", "", "ARN:AWS:S3:::bk", "arn:aws:s3:::/"])
    return arn + BUCKET + "/" + "".join(rnd.choice("ab/*?.") for _ in range(rnd.randrange(1, 5)))


def gen_action(rnd):
    r = rnd.random()
    if r < 0.55: return rnd.choice(ACTIONS)
    if r < 0.85: return rnd.choice(ACTION_PATTERNS)
    return rnd.choice(BAD_ACTIONS)


def str_or_arr(rnd, genf):
    r = rnd.random()
    if r < 0.40: return t_str(genf(rnd))
    if r < 0.85: return t_arr([t_str(genf(rnd)) for _ in range(rnd.randrange(1, 4))])
    if r < 0.88: return t_arr([])
    if r < 0.91: return T_NULL
    if r < 0.94: return T_NUM
    if r < 0.96: return t_arr([t_str(genf(rnd)), T_NULL])
    if r < 0.98: return t_arr([t_str(genf(rnd)), T_NUM])
    return t_obj([("x", t_str("y"))])


def gen_principal(rnd):
    def p(rnd): return rnd.choice(["*", "u1", "u2", "u1", "nouser", ""])
    r = rnd.random()
    if r < 0.30: return t_str(p(rnd))
    if r < 0.55: return t_arr([t_str(p(rnd)) for _ in range(rnd.randrange(1, 3))])
    if r < 0.75: return t_obj([(rnd.choice(["AWS", "aws", "Aws"]), t_str(p(rnd)))])
    if r < 0.90: return t_obj([("AWS", t_arr([t_str(p(rnd)) for _ in range(rnd.randrange(0, 3))]))])
    if r < 0.93: return t_obj([("AWS", T_NUM)])
    if r < 0.95: return t_obj([("Service", t_str("x"))])
    if r < 0.97: return t_obj([("AWS", t_str("u1")), ("AWS", t_str("nouser"))])
    return rnd.choice([T_NULL, T_NUM, t_arr([]), ("bool", True)])


def kcase(rnd, k):
    r = rnd.random()
    return k if r < 0.85 else (k.lower() if r < 0.93 else k.upper())


def gen_stmt(rnd):
    members = []
    r = rnd.random()
    eff = t_str("Allow") if r < 0.5 else t_str("Deny") if r < 0.85 else rnd.choice([t_str("allow"), t_str(""), T_NUM, T_NULL, t_str("Maybe")])
    if rnd.random() < 0.95: members.append((kcase(rnd, "Effect"), eff))
    if rnd.random() < 0.93: members.append((kcase(rnd, "Principal"), gen_principal(rnd)))
    if rnd.random() < 0.93: members.append((kcase(rnd, "Action"), str_or_arr(rnd, gen_action)))
    if rnd.random() < 0.93: members.append((kcase(rnd, "Resource"), str_or_arr(rnd, gen_resource)))
    if rnd.random() < 0.15: members.append(("Sid", t_str("s1")))
    if rnd.random() < 0.08:   # duplicate member
        k = rnd.choice(["Effect", "Action", "Resource", "Principal"])
        v = {"Effect": t_str(rnd.choice(["Allow", "Deny"])), "Action": str_or_arr(rnd, gen_action),
             "Resource": str_or_arr(rnd, gen_resource), "Principal": gen_principal(rnd)}[k]
        members.append((k, v))
    rnd.shuffle(members)
    return t_obj(members)


def gen_doc(rnd):
    r = rnd.random()
    if r < 0.04:
        return rnd.choice([t_arr([gen_stmt(rnd)]), t_str("x"), T_NULL, t_obj([]), t_obj([("Version", t_str("2012-10-17"))])])
    n = rnd.choice([0, 1, 1, 1, 2, 2, 3])
    st = t_arr([gen_stmt(rnd) for _ in range(n)])
    if rnd.random() < 0.06:
        st = rnd.choice([T_NULL, gen_stmt(rnd), T_NUM, t_arr([T_NULL]), t_arr([T_NUM]), t_arr([gen_stmt(rnd), T_NULL])])
    members = [(kcase(rnd, "Statement"), st)]
    if rnd.random() < 0.5: members.insert(rnd.randrange(2), ("Version", t_str("2012-10-17")))
    if rnd.random() < 0.05: members.append(("Statement", t_arr([gen_stmt(rnd)])))
    return t_obj(members)


def gen_valid_doc(rnd):
    """mostly-valid documents so that evaluation is reached"""
    sts = []
    for _ in range(rnd.randrange(1, 4)):
        acts = [rnd.choice(ACTIONS + ACTION_PATTERNS[:8]) for _ in range(rnd.randrange(1, 3))]
        ress = ["arn:aws:s3:::" + BUCKET + rnd.choice(["", "/*", "/pub/*", "/*secret", "/a?c", "/a*b*c", "*", "/**", "/*/x", "/pub/*/", "/dir/", "/", "/a*/",
                                                            "/*secret*", "/*a*b*c*", "/*.log*", "/***", "/*x*", "/p*u*b*/*a*"])
                for _ in range(rnd.randrange(1, 3))]
        ress += ["arn:aws:s3:::" + BUCKET, "arn:aws:s3:::" + BUCKET + "/*"] if rnd.random() < 0.5 else []
        pr = rnd.choice([t_str("*"), t_str("u1"), t_arr([t_str("u1"), t_str("u2")]), t_obj([("AWS", t_str("u2"))])])
        sts.append(t_obj([("Effect", t_str(rnd.choice(["Allow", "Allow", "Deny"]))), ("Principal", pr),
                          ("Action", t_arr([t_str(a) for a in acts])), ("Resource", t_arr([t_str(r) for r in ress]))]))
    return t_obj([("Statement", t_arr(sts))])


def gen_glob_pair(rnd):
    alpha = "ab/*?."
    n = rnd.randrange(0, 8)
    p = "".join(rnd.choice(alpha + "**") for _ in range(n))
    r = rnd.random()
    if r < 0.55:
        # subject derived from the pattern: stars replaced by runs (which may contain * and ?), ? by a byte
        s = ""
        for c in p:
            if c == "*": s += "".join(rnd.choice(alpha) for _ in range(rnd.randrange(0, 3)))
            elif c == "?": s += rnd.choice(alpha)
            else: s += c
        if rnd.random() < 0.3 and s:
            i = rnd.randrange(len(s)); s = s[:i] + rnd.choice(alpha) + s[i + rnd.randrange(2):]
    else:
        s = "".join(rnd.choice(alpha) for _ in range(rnd.randrange(0, 9)))
    return p, s


def glob_spec(p, s):
    """independent reference (dynamic programming) used only to evaluate the Spec on the implementation's answers"""
    m, n = len(p), len(s)
    dp = [[False] * (n + 1) for _ in range(m + 1)]
    dp[m][n] = True
    for i in range(m - 1, -1, -1):
        for j in range(n, -1, -1):
            if p[i] == "*":
                dp[i][j] = dp[i + 1][j] or (j < n and dp[i][j + 1])
            elif j < n and (p[i] == "?" or p[i] == s[j]):
                dp[i][j] = dp[i + 1][j + 1]
    return dp[0][0]


PERR = {"InvalidJson", "MissingStatement", "EmptyStatement", "InvalidEffect", "InvalidPrincipal", "InvalidAction",
        "InvalidResource", "ResourceMismatch"}

GLOB_CORPUS = [("*a", "*ba"), ("*", "***"), ("a*", "a*"), ("?", "*"), ("*?", "*"), ("a*b?c*", "aXXbbYcbZcQQ"), ("*.secret", "db..secret"),
               ("bk/*secret", "bk/*xsecret"), ("", ""), ("*", ""), ("?", ""), ("**", "a"), ("a?c", "abc"), ("a?c", "ac"), ("*ab", "aab"),
               ("*a*b", "ba*ab"), ("*aab", "aaab"), ("a*a", "aa"), ("a*a", "a")]


def run(chk):
    quick = chk.tier == "quick"
    n_glob = 6000 if quick else 60000
    n_docs = 700 if quick else 5000
    n_eval = 1500 if quick else 10000
    chk.rule = ("glob cases are (pattern, subject) over the alphabet {a,b,/,*,?,.} (subjects mostly derived from the pattern), "
                "non-trivial when the pattern has a wildcard and the subject is non-empty; documents are JSON trees assembled from "
                "statement fragments in all string-or-array / {AWS:..} shapes with case-variant, duplicate, missing and mistyped "
                "members, non-trivial when they have >= 1 statement; evaluation cases are (document, caller, action, object), "
                "non-trivial when the document decodes. Distinct by content.")
    gen.regenerate()
    corr = gobuild.build_tool("corr")
    built = coq.ensure_built(chk, TARGETS)
    if built:
        coq.check_assumptions(chk, "Properties.C14", THEOREMS)
    rnd = chk.rnd

    def call(fn, lines):
        p = subprocess.run([corr, fn], input=("\n".join(lines) + "\n").encode(), stdout=subprocess.PIPE, timeout=300, env=common.env())
        return p.stdout.decode().split("\n")[:len(lines)]
    hx = lambda s: s.encode().hex()

    # ---- glob
    pairs = list(GLOB_CORPUS)
    while len(pairs) < n_glob:
        pairs.append(gen_glob_pair(rnd))
    gobs = call("globmatch", ["%s\t%s" % (hx(p), hx(s)) for p, s in pairs])
    gterms = []
    for (p, s), o in zip(pairs, gobs):
        nt = ("*" in p or "?" in p) and s != ""
        chk.case(("g", p, s), nt)
        chk.count("glob:%s:%s" % ("wild" if nt else "plain", o))
        gterms.append("(%s, %s, %s)" % (coq_str(p), coq_str(s), "true" if o == "true" else "false"))
        want = glob_spec(p, s)
        if o == "PANIC":
            chk.fail("c14:glob-panic", "Resources.Match(%r, %r) panics" % (p, s), {"pattern": p, "subject": s})
        elif (o == "true") != want:
            key = "c14:glob:star-in-subject" if "*" in s else "c14:glob:wrong-answer"
            chk.fail(key, "Resources.Match(%r, %r) = %s but the glob relation says %s" % (p, s, o, want),
                     {"pattern": p, "subject": s, "observed": o, "spec": want})
    chk.samples.append({"glob": {"pattern": pairs[len(GLOB_CORPUS) + 3][0], "subject": pairs[len(GLOB_CORPUS) + 3][1],
                                 "observed": gobs[len(GLOB_CORPUS) + 3]}})

    # ---- validation
    docs = []
    fixed_docs = [
        t_obj([("Statement", t_arr([t_obj([("Effect", t_str("Allow"))])]))]),
        t_obj([("Statement", t_arr([t_obj([("Effect", t_str("Allow")), ("Principal", t_str("*")), ("Action", t_arr([t_str("s3:*"), t_str("s3:GetObject")])),
                                           ("Resource", t_str("arn:aws:s3:::bk"))])]))]),
        t_obj([("Statement", t_arr([t_obj([("Effect", t_str("Allow")), ("Principal", t_str("*")), ("Action", t_str("s3:GetObject")),
                                           ("Resource", t_str("arn:aws:s3:::bkX/*"))])]))]),
        t_obj([("Statement", t_arr([t_obj([("Effect", t_str("Allow")), ("Principal", t_str("*")), ("Action", t_str("s3:GetBucket*")),
                                           ("Resource", t_str("arn:aws:s3:::bk/*"))])]))]),
        t_obj([("Statement", t_arr([t_obj([("Effect", t_str("Allow")), ("Principal", t_str("*")), ("Action", t_str("s3:GetBucket*")),
                                           ("Resource", t_str("arn:aws:s3:::bk"))])]))]),
        t_obj([("Statement", t_arr([t_obj([("Effect", t_str("Allow")), ("Action", t_str("s3:GetObject")), ("Resource", t_str("arn:aws:s3:::bk/*"))])]))]),
        t_obj([("Statement", t_arr([t_obj([("Effect", t_str("Allow")), ("Principal", t_str("*")), ("Resource", t_str("arn:aws:s3:::bk/*"))])]))]),
        t_obj([("Statement", t_arr([t_obj([("Effect", t_str("Allow")), ("Principal", t_str("*")), ("Action", t_str("s3:GetObject"))])]))]),
    ]
    docs.extend(fixed_docs)
    while len(docs) < n_docs:
        docs.append(gen_doc(rnd) if rnd.random() < 0.7 else gen_valid_doc(rnd))
    accs = ",".join(hx(a) for a in ACCOUNTS)
    vlines, vbrace = [], []
    for d in docs:
        text = ser(d)
        if rnd.random() < 0.03:
            text = rnd.choice([" ", "[", "x"]) + text
        vbrace.append(text.startswith("{"))
        vlines.append("%s\t%s\t%s\t%s" % (hx(text), hx(BUCKET), accs, "x" * 12))
    vobs = call("polvalidate", vlines)
    vterms = []
    for d, b, o in zip(docs, vbrace, vobs):
        verdicts = o.split("|")
        nstm = len(d[1]) and sum(1 for k, v in d[1] if k.lower() == "statement" and v[0] == "arr" and len(v[1]) > 0) if d[0] == "obj" else 0
        chk.case(("v", ser(d)), bool(nstm))
        for v in verdicts:
            chk.count("validate:" + (v if v in PERR or v == "OK" else "OTHER"))
        if len(verdicts) > 1:
            chk.fail("c14:validate-nondeterministic", "ValidatePolicyDocument gives different verdicts (%s) for the same document %s" % (o, ser(d)),
                     {"document": ser(d), "bucket": BUCKET, "verdicts": verdicts})
        if "PANIC" in verdicts:
            chk.fail("c14:validate-panic", "ValidatePolicyDocument panics on %s" % ser(d), {"document": ser(d)})
        ol = []
        for v in verdicts:
            ol.append("None" if v == "OK" else "(Some %s)" % v if v in PERR else "(Some InvalidJson)")
        if b and not d == d:   # placeholder never true
            pass
        vterms.append("{| v_brace := %s; v_doc := %s; v_bucket := %s; v_accounts := %s; v_obs := %s |}" % (
            coq_bool(b), coq_json(d), coq_str(BUCKET), coq_list([coq_str(a) for a in ACCOUNTS]), coq_list(ol)))
    chk.samples.append({"validate": {"document": ser(docs[len(fixed_docs) + 2]), "observed": vobs[len(fixed_docs) + 2]}})

    # ---- evaluation
    ecases = []
    objects = ["", "x", "pub/a", "priv/o1", "*xsecret", "topsecret", "abc", "a/x", "a*b", "aXbYc", "db..secret", "?", "secret",
               "dir/", "dir", "pub/a/", "pub/a/secret.txt", "a/", "/", ".log", "app.log", "secrets"]
    evdocs = [d for d, o in zip(docs, vobs) if o == "OK"][:400]
    while len(evdocs) < 200:
        evdocs.append(gen_valid_doc(rnd))
    while len(ecases) < n_eval:
        d = rnd.choice(evdocs) if rnd.random() < 0.9 else rnd.choice(docs)
        ecases.append((d, rnd.choice(["u1", "u2", "zz", "*"]), BUCKET, rnd.choice(objects), rnd.choice(ACTIONS)))
    eobs = call("polverify", ["%s\t%s\t%s\t%s\t%s" % (hx(ser(d)), hx(w), hx(b), hx(ob), hx(a)) for d, w, b, ob, a in ecases])
    eterms = []
    emap = {"ALLOW": "EAllow", "DENY": "EDeny", "JSONERR": "EJsonErr"}
    docidx, docdefs = {}, []
    for (d, w, b, ob, a), o in zip(ecases, eobs):
        chk.case(("e", ser(d), w, ob, a), o != "JSONERR")
        chk.count("evaluate:" + o)
        if o == "PANIC":
            chk.fail("c14:verify-panic", "VerifyBucketPolicy panics", {"document": ser(d), "who": w, "object": ob, "action": a})
        key = ser(d)
        if key not in docidx:
            docidx[key] = len(docdefs)
            docdefs.append("Definition doc%d : json := %s." % (len(docdefs), coq_json(d)))
        eterms.append("{| e_doc := doc%d; e_who := %s; e_bucket := %s; e_object := %s; e_action := %s; e_obs := %s |}" % (
            docidx[key], coq_str(w), coq_str(b), coq_str(ob), coq_str(a), emap.get(o, "EJsonErr")))
    chk.samples.append({"evaluate": {"document": ser(ecases[5][0]), "who": ecases[5][1], "object": ecases[5][3], "action": ecases[5][4],
                                     "observed": eobs[5]}})

    if not built:
        return
    text = ("From Coq Require Import String List Bool.\nFrom VGW Require Import Base.GoStr Model.Json Model.Glob Model.Policy "
            "Check.Common Check.PolicyCheck.\nImport ListNotations.\nOpen Scope string_scope.\n")
    text += common.coq_list_def("gcases", "string * string * bool", gterms, sep=("; (", ";\n ("))
    text += common.coq_list_def("vcases", "vcase", vterms, per=500, sep=("; {|", ";\n {|"))
    text += "\n".join(docdefs) + "\n"
    text += common.coq_list_def("ecases", "ecase", eterms, per=1000, sep=("; {|", ";\n {|"))
    text += ("Definition MG := Eval vm_compute in bad glob_ok gcases.\nPrint MG.\n"
             "Definition MV := Eval vm_compute in bad validate_ok vcases.\nPrint MV.\n"
             "Definition ME := Eval vm_compute in bad verify_ok ecases.\nPrint ME.\n")
    rc, out = coq.run_cases("C14_cases", text)
    mg, mv, me = coq.printed_list(out, "MG"), coq.printed_list(out, "MV"), coq.printed_list(out, "ME")
    if rc != 0 or mg is None or mv is None or me is None:
        chk.tie("case file evaluates", False, out[-3000:])
        return
    chk.tie("T2 auth.Resources.Match = Model.Glob.glob_match on %d pairs" % len(pairs), not mg,
            [{"pattern": pairs[int(i)][0], "subject": pairs[int(i)][1], "observed": gobs[int(i)]} for i in mg[:5]])
    chk.tie("T2 auth.ValidatePolicyDocument = Model.Policy.validate on %d documents (each validated 12 times)" % len(docs), not mv,
            [{"document": ser(docs[int(i)]), "observed": vobs[int(i)]} for i in mv[:5]])
    chk.tie("T2 auth.VerifyBucketPolicy = Model.Policy.verify on %d requests" % len(ecases), not me,
            [{"document": ser(ecases[int(i)][0]), "who": ecases[int(i)][1], "object": ecases[int(i)][3], "action": ecases[int(i)][4],
              "observed": eobs[int(i)]} for i in me[:5]])
    # Spec evaluation on the implementation's answers for the mismatching documents: the model is proved equal to the
    # Spec (C14_validate_exact, C14_deny_overrides), so a disagreement with the model on a concrete input is a
    # disagreement with the Spec on that input
    for i in mv[:10]:
        d = docs[int(i)]
        chk.fail("c14:validate:" + vobs[int(i)].replace("|", "+")[:40],
                 "ValidatePolicyDocument answers %s for %s; the policy language (Spec, via C14_validate_exact) says otherwise" % (vobs[int(i)], ser(d)),
                 {"document": ser(d), "bucket": BUCKET, "accounts": ACCOUNTS, "observed": vobs[int(i)]})
    for i in me[:10]:
        d, w, b, ob, a = ecases[int(i)]
        chk.fail("c14:evaluate:" + eobs[int(i)],
                 "VerifyBucketPolicy answers %s for caller %s action %s object %r under %s; deny-overrides evaluation (Spec, via C14_deny_overrides) says otherwise"
                 % (eobs[int(i)], w, a, ob, ser(d)),
                 {"document": ser(d), "who": w, "bucket": b, "object": ob, "action": a, "observed": eobs[int(i)]})


def replay(chk, data):
    print(pyjson.dumps(data.get("replay"), indent=1))
    return 0
