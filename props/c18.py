"""C18 — The S3-proxy backend is transparent (DESIGN.md §7 C18)."""
import hashlib, json, os, random, urllib.parse
from vlib import common, coq, gobuild, gw, s3c, e2e, gen
from vlib.common import coq_str, coq_list, coq_bool

THEOREMS = ["C18_request_fields_forwarded", "C18_response_fields_returned"]
TARGETS = ["Properties/C18.vo"]
MIN = 5 * 1024 * 1024
CONTENT = [{}, {"content-type": "text/plain; charset=utf-8"},
           {"content-type": "application/x-c18", "content-encoding": "gzip", "content-language": "de-DE", "content-disposition": 'attachment; filename="a b.txt"', "cache-control": "max-age=60", "expires": "Wed, 21 Oct 2026 07:28:00 GMT"}]
METAS = [{}, {"alpha": "1"}, {"k1": "v 1", "k2": "v=2"}]
TAGS = [{}, {"t": "v"}, {"a": "1", "b": "x y"}]
KEYS = ["a", "dir/b", "dir/sub/c d", "dir2/e+f", "ü", "z"]
RANGES = ["", "bytes=0-3", "bytes=5-", "bytes=-4", "bytes=2-100000", "bytes=999999-", "bytes=a-b", "bytes=3-1"]


def body_of(n, salt):
    return (hashlib.sha256(("%d" % salt).encode()).digest() * (n // 32 + 1))[:n]


class Side:
    """one of the two endpoints a program is run against"""
    def __init__(self, name, client):
        self.name, self.c = name, client
        self.uploads = {}           # ordinal -> real upload id
        self.vids = {}              # real version id -> ordinal of first appearance

    def canon_headers(self, r):
        h = {k: r.headers.get(k) for k in e2e.CONTENT_HEADERS if r.headers.get(k) is not None}
        return {"content": h, "meta": e2e.meta_of(r.headers), "etag": e2e.etag_clean(r.headers.get("etag")), "length": r.headers.get("content-length"),
                "tagcount": r.headers.get("x-amz-tagging-count"), "range": r.headers.get("content-range")}

    def run(self, op):
        c, k = self.c, op["op"]
        bk = op.get("bucket"); key = op.get("key"); path = "/%s/%s" % (bk, key) if key is not None else "/%s" % bk if bk else "/"
        def res(r, **extra):
            out = {"status": r.status, "code": r.code if r.status >= 300 else ""}
            out.update(extra); return out
        def vord(v):
            if v in (None, "", "null"): return v
            return self.vids.setdefault(v, len(self.vids))
        def vstr(o):
            if o in (None, "", "null"): return o
            inv = {n: v for v, n in self.vids.items()}
            return inv.get(o, "00000000000000000000000000")
        if k == "put-versioning":
            return res(c.req("PUT", "/" + bk, query={"versioning": ""}, body=("<VersioningConfiguration><Status>%s</Status></VersioningConfiguration>" % op["status"]).encode()))
        if k == "list-versions":
            q = dict(op["query"]); q["versions"] = ""
            if "version-id-marker" in q: q["version-id-marker"] = vstr(q["version-id-marker"])
            r = c.req("GET", "/" + bk, query=q)
            if r.status != 200 or r.xml() is None: return res(r)
            x = r.xml()
            ents = [(e.tag, e.findtext("Key"), vord(e.findtext("VersionId")), e.findtext("IsLatest"), e.findtext("Size")) for e in x if e.tag in ("Version", "DeleteMarker")]
            return res(r, entries=ents, prefixes=[e.findtext("Prefix") for e in x.findall("CommonPrefixes")], truncated=x.findtext("IsTruncated"),
                       next_key=x.findtext("NextKeyMarker") or "", next_vid=vord(x.findtext("NextVersionIdMarker") or ""),
                       key_marker=x.findtext("KeyMarker") or "", vid_marker=vord(x.findtext("VersionIdMarker") or ""))
        if k == "get-version":
            r = c.req("GET", path, query={"versionId": vstr(op["version"])})
            return res(r, body=(len(r.body), hashlib.md5(r.body).hexdigest()), version=vord(r.headers.get("x-amz-version-id"))) if r.status == 200 else res(r)
        if k == "delete-version":
            r = c.req("DELETE", path, query={"versionId": vstr(op["version"])})
            return res(r, marker=r.headers.get("x-amz-delete-marker"), version=vord(r.headers.get("x-amz-version-id")))
        if k == "create-bucket": return res(c.req("PUT", path))
        if k == "delete-bucket": return res(c.req("DELETE", path))
        if k == "head-bucket": return res(c.req("HEAD", path))
        if k == "list-buckets":
            r = c.req("GET", "/"); return res(r, names=sorted(b.findtext("Name") for b in r.xml().iter("Bucket")) if r.status == 200 and r.xml() is not None else None)
        if k == "put":
            hd = dict(op["content"]); hd.update({"x-amz-meta-" + a: b for a, b in op["meta"].items()})
            if op["tags"]: hd["x-amz-tagging"] = urllib.parse.urlencode(op["tags"])
            r = c.req("PUT", path, body=body_of(op["size"], op["salt"]), headers=hd); return res(r, etag=e2e.etag_clean(r.headers.get("etag")), version=vord(r.headers.get("x-amz-version-id")))
        if k in ("get", "head"):
            hd = {"Range": op["range"]} if op.get("range") else {}
            r = c.req("GET" if k == "get" else "HEAD", path, headers=hd)
            out = res(r, **self.canon_headers(r)) if r.status < 300 else res(r)
            if k == "get" and r.status < 300: out["body"] = (len(r.body), hashlib.md5(r.body).hexdigest())
            return out
        if k == "delete":
            r = c.req("DELETE", path); return res(r, marker=r.headers.get("x-amz-delete-marker"), version=vord(r.headers.get("x-amz-version-id")))
        if k == "copy":
            hd = {"x-amz-copy-source": urllib.parse.quote("%s/%s" % (op["srcbucket"], op["src"]))}
            if op["replace"]:
                hd.update(op["content"]); hd.update({"x-amz-meta-" + a: b for a, b in op["meta"].items()}); hd["x-amz-metadata-directive"] = "REPLACE"
                if op["tags"]: hd["x-amz-tagging"] = urllib.parse.urlencode(op["tags"]); hd["x-amz-tagging-directive"] = "REPLACE"
            if op.get("tagdir"):
                # the tagging directive on its own: REPLACE without a tag set leaves the copy without tags, COPY keeps the source's
                hd["x-amz-tagging-directive"] = op["tagdir"]
            r = c.req("PUT", path, headers=hd)
            return res(r, etag=e2e.etag_clean(r.xml().findtext("ETag")) if r.status == 200 and r.xml() is not None and r.xml().tag != "Error" else None)
        if k == "list":
            q = {kk: vv for kk, vv in op["query"].items()}
            r = c.req("GET", path, query=q)
            if r.status != 200 or r.xml() is None: return res(r)
            x = r.xml()
            return res(r, keys=[(e.findtext("Key"), e.findtext("Size"), e2e.etag_clean(e.findtext("ETag"))) for e in x.findall("Contents")],
                       prefixes=[e.findtext("Prefix") for e in x.findall("CommonPrefixes")], truncated=x.findtext("IsTruncated"),
                       next=(x.findtext("NextContinuationToken") or x.findtext("NextMarker") or ""), keycount=x.findtext("KeyCount"))
        if k == "put-tags":
            body = "<Tagging><TagSet>" + "".join("<Tag><Key>%s</Key><Value>%s</Value></Tag>" % kv for kv in op["tags"].items()) + "</TagSet></Tagging>"
            return res(c.req("PUT", path, query={"tagging": ""}, body=body.encode()))
        if k == "get-tags":
            r = c.req("GET", path, query={"tagging": ""})
            return res(r, tags={t.findtext("Key"): t.findtext("Value") for t in r.xml().iter("Tag")} if r.status == 200 and r.xml() is not None else None)
        if k == "delete-tags": return res(c.req("DELETE", path, query={"tagging": ""}))
        if k == "put-bucket-tags":
            body = "<Tagging><TagSet>" + "".join("<Tag><Key>%s</Key><Value>%s</Value></Tag>" % kv for kv in op["tags"].items()) + "</TagSet></Tagging>"
            return res(c.req("PUT", "/" + bk, query={"tagging": ""}, body=body.encode()))
        if k == "get-bucket-tags":
            r = c.req("GET", "/" + bk, query={"tagging": ""})
            return res(r, tags={t.findtext("Key"): t.findtext("Value") for t in r.xml().iter("Tag")} if r.status == 200 and r.xml() is not None else None)
        if k == "delete-bucket-tags": return res(c.req("DELETE", "/" + bk, query={"tagging": ""}))
        if k == "mp-create":
            hd = dict(op["content"]); hd.update({"x-amz-meta-" + a: b for a, b in op["meta"].items()})
            r = c.req("POST", path, query={"uploads": ""}, headers=hd)
            if r.status == 200 and r.xml() is not None: self.uploads[op["upload"]] = r.xml().findtext("UploadId")
            return res(r)
        uid = self.uploads.get(op.get("upload"), "00000000-0000-0000-0000-000000000000")
        if k == "mp-part":
            r = c.req("PUT", path, query={"partNumber": str(op["n"]), "uploadId": uid}, body=body_of(op["size"], op["salt"])); return res(r, etag=e2e.etag_clean(r.headers.get("etag")))
        if k == "mp-part-copy":
            hd = {"x-amz-copy-source": urllib.parse.quote("%s/%s" % (op["srcbucket"], op["src"]))}
            if op["range"]: hd["x-amz-copy-source-range"] = op["range"]
            r = c.req("PUT", path, query={"partNumber": str(op["n"]), "uploadId": uid}, headers=hd)
            return res(r, etag=e2e.etag_clean(r.xml().findtext("ETag")) if r.status == 200 and r.xml() is not None and r.xml().tag != "Error" else None)
        if k == "mp-list-parts":
            r = c.req("GET", path, query={"uploadId": uid, "max-parts": str(op["max"]), "part-number-marker": str(op["marker"])})
            if r.status != 200 or r.xml() is None: return res(r)
            x = r.xml(); return res(r, parts=[(p.findtext("PartNumber"), p.findtext("Size"), e2e.etag_clean(p.findtext("ETag"))) for p in x.findall("Part")], truncated=x.findtext("IsTruncated"), next=x.findtext("NextPartNumberMarker"))
        if k == "mp-list-uploads":
            r = c.req("GET", "/" + bk, query={"uploads": "", "max-uploads": str(op["max"])} if op.get("max") in (0, 1) else {"uploads": ""})
            if r.status != 200 or r.xml() is None: return res(r)
            inv = {v: kk for kk, v in self.uploads.items()}
            return res(r, uploads=sorted((u.findtext("Key"), inv.get(u.findtext("UploadId"), -1)) for u in r.xml().findall("Upload")))
        if k == "mp-complete":
            xml = "<CompleteMultipartUpload>" + "".join("<Part><PartNumber>%d</PartNumber><ETag>%s</ETag></Part>" % (n, e) for n, e in op["parts"]) + "</CompleteMultipartUpload>"
            r = c.req("POST", path, query={"uploadId": uid}, body=xml.encode())
            ok = r.status == 200 and r.xml() is not None and r.xml().tag != "Error"
            return res(r, etag=e2e.etag_clean(r.xml().findtext("ETag")) if ok else None, code=(r.code if not ok else ""))
        if k == "mp-abort": return res(c.req("DELETE", path, query={"uploadId": uid}))
        raise ValueError(k)


def gen_program(rnd, n_ops, pid):
    bks = ["c18-%04d-a" % pid, "c18-%04d-b" % pid]
    ops = [{"op": "create-bucket", "bucket": bks[0]}]
    objs = {}          # (bucket, key) -> (size, salt)
    ups = {}           # ordinal -> {"bucket","key","parts":{n: etag-of (size,salt)}}
    salt = [pid * 1000]
    def newsalt(): salt[0] += 1; return salt[0]
    for _ in range(n_ops):
        x = rnd.random(); bk = rnd.choice(bks if rnd.random() < 0.3 else bks[:1]); key = rnd.choice(KEYS)
        if x < 0.05: ops.append({"op": rnd.choice(["create-bucket", "create-bucket", "delete-bucket", "head-bucket"]), "bucket": bk})
        elif x < 0.07: ops.append({"op": "list-buckets"})
        elif x < 0.27:
            size = rnd.choice([0, 1, 17, 1000, 70000]); s_ = newsalt()
            ops.append({"op": "put", "bucket": bk, "key": key, "size": size, "salt": s_, "content": rnd.choice(CONTENT), "meta": rnd.choice(METAS), "tags": rnd.choice(TAGS)}); objs[(bk, key)] = (size, s_)
        elif x < 0.42: ops.append({"op": rnd.choice(["get", "get", "head"]), "bucket": bk, "key": rnd.choice(KEYS + ["missing"]), "range": rnd.choice(RANGES)})
        elif x < 0.47: ops.append({"op": "delete", "bucket": bk, "key": key})
        elif x < 0.55 and objs:
            (sb, sk) = rnd.choice(sorted(objs)); ops.append({"op": "copy", "bucket": bk, "key": key, "srcbucket": sb, "src": rnd.choice([sk, sk, "missing"]), "replace": rnd.random() < 0.5,
                                                            "content": rnd.choice(CONTENT), "meta": rnd.choice(METAS), "tags": rnd.choice(TAGS), "tagdir": rnd.choice([None, None, "REPLACE", "COPY"])})
            if ops[-1]["tagdir"] and ops[-1]["src"] != "missing":
                ops.append({"op": "get", "bucket": bk, "key": key, "range": None})       # (the tag count of the copy is part of the answer)
        elif x < 0.67:
            q = rnd.choice([{"list-type": "2"}, {"list-type": "2", "prefix": "dir/"}, {"list-type": "2", "delimiter": "/"}, {"list-type": "2", "prefix": "dir", "delimiter": "/"},
                            {"list-type": "2", "max-keys": "2"}, {"list-type": "2", "start-after": "dir/b"}, {"list-type": "2", "max-keys": "0"}, {"list-type": "2", "fetch-owner": "true"},
                            {}, {"prefix": "dir/", "delimiter": "/"}, {"marker": "dir/b", "max-keys": "1"}, {"list-type": "2", "prefix": "nothing"}, {"list-type": "2", "max-keys": "x"}])
            ops.append({"op": "list", "bucket": bk, "query": q})
        elif x < 0.72:
            if objs and rnd.random() < 0.8: bk, key = rnd.choice(sorted(objs))
            ops.append({"op": "put-tags", "bucket": bk, "key": key, "tags": rnd.choice(TAGS[1:] + [{"k1": "v1", "k2": "v2", "k3": "v 3"}])})
            ops.append({"op": "get-tags", "bucket": bk, "key": key})
        elif x < 0.77: ops.append({"op": rnd.choice(["get-tags", "get-tags", "delete-tags"]), "bucket": bk, "key": key})
        elif x < 0.79: ops.append({"op": rnd.choice(["put-bucket-tags", "get-bucket-tags", "get-bucket-tags", "delete-bucket-tags"]), "bucket": bk, "tags": rnd.choice(TAGS[1:])})
        elif x < 0.82:
            u = len(ups); ups[u] = {"bucket": bk, "key": key, "parts": {}}
            ops.append({"op": "mp-create", "bucket": bk, "key": key, "upload": u, "content": rnd.choice(CONTENT), "meta": rnd.choice(METAS)})
        elif x < 0.90 and ups:
            u = rnd.choice(sorted(ups) + [99]); up = ups.get(u, {"bucket": bk, "key": key, "parts": {}})
            n = rnd.choice([1, 1, 2, 3]); size = rnd.choice([17, 1000, MIN, 0]) if u != 99 else 17; s_ = newsalt()
            if rnd.random() < 0.25 and objs:
                (sb, sk) = rnd.choice(sorted(objs)); ops.append({"op": "mp-part-copy", "bucket": up["bucket"], "key": up["key"], "upload": u, "n": n, "srcbucket": sb, "src": sk, "range": rnd.choice(["", "bytes=0-3", "bytes=2-", "bytes=0-999999"])})
                up["parts"][n] = None
            else:
                ops.append({"op": "mp-part", "bucket": up["bucket"], "key": up["key"], "upload": u, "n": n, "size": size, "salt": s_}); up["parts"][n] = hashlib.md5(body_of(size, s_)).hexdigest()
        elif x < 0.93 and ups:
            u = rnd.choice(sorted(ups)); ops.append({"op": rnd.choice(["mp-list-parts", "mp-list-uploads"]), "bucket": ups[u]["bucket"], "key": ups[u]["key"], "upload": u, "max": rnd.choice([0, 1, 1000]), "marker": rnd.choice([0, 1])})
        elif x < 0.98 and ups:
            u = rnd.choice(sorted(ups)); up = ups[u]
            parts = [(n, e) for n, e in sorted(up["parts"].items()) if e is not None] or [(1, "0" * 32)]
            if rnd.random() < 0.2: parts = [(n, "0" * 32) for n, _ in parts]
            ops.append({"op": "mp-complete", "bucket": up["bucket"], "key": up["key"], "upload": u, "parts": parts})
        elif ups:
            u = rnd.choice(sorted(ups)); ops.append({"op": "mp-abort", "bucket": ups[u]["bucket"], "key": ups[u]["key"], "upload": u})
    # every program ends with one upload whose parts are listed page by page (max-parts 1 and 2, following the markers)
    u = len(ups); k_ = "walk/parts"
    ops.append({"op": "mp-create", "bucket": bks[0], "key": k_, "upload": u, "content": CONTENT[1], "meta": METAS[1]})
    for n in (1, 2, 3, 5):
        ops.append({"op": "mp-part", "bucket": bks[0], "key": k_, "upload": u, "n": n, "size": 17 + n, "salt": newsalt()})
    # (a zero-length part, as the last part of an upload may be)
    ops.append({"op": "mp-part", "bucket": bks[0], "key": k_, "upload": u, "n": 6, "size": 0, "salt": newsalt()})
    for mx in (1, 2):
        for marker in (0, 1, 2, 3, 5):
            ops.append({"op": "mp-list-parts", "bucket": bks[0], "key": k_, "upload": u, "max": mx, "marker": marker})
    ops.append({"op": "mp-list-uploads", "bucket": bks[0], "key": k_, "upload": u, "max": 1000, "marker": 0})
    ops.append({"op": "mp-abort", "bucket": bks[0], "key": k_, "upload": u})
    # ... copies whose source key has characters that a query-style decoder reads differently ('+' vs space, '%'), next to their twins
    for k_, sz in (("enc/a+b", 21), ("enc/a b", 22), ("enc/a%2Bb", 23), ("enc/a%20b", 24)):
        ops.append({"op": "put", "bucket": bks[0], "key": k_, "size": sz, "salt": newsalt(), "content": CONTENT[0], "meta": METAS[0], "tags": TAGS[0]})
    for i_, k_ in enumerate(("enc/a+b", "enc/a b", "enc/a%2Bb", "enc/a%20b")):
        ops.append({"op": "copy", "bucket": bks[0], "key": "enc/copy%d" % i_, "srcbucket": bks[0], "src": k_, "replace": False, "content": CONTENT[0], "meta": METAS[0], "tags": TAGS[0]})
        ops.append({"op": "get", "bucket": bks[0], "key": "enc/copy%d" % i_, "range": ""})
    # ... and with a version history that is listed with every combination of markers, read and deleted by version id
    ops.append({"op": "put-versioning", "bucket": bks[0], "status": "Enabled"})
    for key in ("ver/a", "ver/b", "ver/a", "ver/c", "ver/b"):
        ops.append({"op": "put", "bucket": bks[0], "key": key, "size": 17, "salt": newsalt(), "content": CONTENT[0], "meta": METAS[0], "tags": TAGS[0]})
    ops.append({"op": "delete", "bucket": bks[0], "key": "ver/b"})
    for q in ({"prefix": "ver/"}, {"prefix": "ver/", "max-keys": "2"}, {"prefix": "ver/", "key-marker": "ver/a"}, {"prefix": "ver/", "key-marker": "ver/b"}, {"key-marker": "ver/b", "max-keys": "1"},
              {"prefix": "ver/", "key-marker": "ver/a", "version-id-marker": 0}, {"prefix": "ver/", "key-marker": "ver/b", "version-id-marker": 1, "max-keys": "1"},
              {"prefix": "ver", "delimiter": "/"}, {"key-marker": "ver/a", "version-id-marker": ""}, {"key-marker": "", "version-id-marker": 0}, {}):
        ops.append({"op": "list-versions", "bucket": bks[0], "query": q})
    for v in (0, 1, 2, "null", 77):
        ops.append({"op": "get-version", "bucket": bks[0], "key": rnd.choice(["ver/a", "ver/b"]), "version": v})
    ops.append({"op": "delete-version", "bucket": bks[0], "key": "ver/a", "version": 2})
    ops.append({"op": "list-versions", "bucket": bks[0], "query": {"prefix": "ver/"}})
    ops.append({"op": "put-versioning", "bucket": bks[0], "status": "Suspended"})
    ops.append({"op": "put", "bucket": bks[0], "key": "ver/a", "size": 5, "salt": newsalt(), "content": CONTENT[0], "meta": METAS[0], "tags": TAGS[0]})
    ops.append({"op": "list-versions", "bucket": bks[0], "query": {"prefix": "ver/a"}})
    return ops


def run(chk):
    quick = chk.tier == "quick"
    chk.rule = ("a case is one random program (20-45 operations) of bucket create / delete / head / list, put (5 sizes x 3 content-header sets x 3 metadata sets x 3 tag sets), get / head with 8 range "
                "forms, delete, CopyObject (COPY / REPLACE, missing source), ListObjects V1 / V2 with 13 parameter sets, object tagging put / get / delete, and multipart create / upload-part "
                "(incl. 5 MiB) / upload-part-copy with ranges / list-parts / list-uploads / complete (valid and invalid) / abort, ending with a page-by-page ListParts walk and a version history (enable, five puts, a delete marker) listed under eleven marker / prefix / delimiter "
                "combinations, read and deleted by version id, then suspended; run twice: against an S3 endpoint directly and against a gateway "
                "that uses an identical second endpoint as its s3 backend; every client-visible result is compared. Non-trivial: every program; distinct by content.")
    gwbin = gobuild.build_gateway("verif")
    gen.regenerate()
    built = coq.ensure_built(chk, TARGETS)
    if built:
        coq.check_assumptions(chk, "Properties.C18", THEOREMS)
    else:
        # the obligations over the regenerated table do not hold: name the entries
        rc, out = coq.run_cases("C18_missing", "From Coq Require Import String List.\nFrom VGW Require Import Gen.ProxyFields Model.ProxySpec.\nEval vm_compute in (missing_forward proxy_methods, missing_return proxy_methods).\n")
        chk.extra["unforwarded_or_unreturned_fields"] = " ".join(out.split())[:1500]
    rnd = chk.rnd
    n_prog = 12 if quick else 150
    with gw.Site({"iam": False, "tls": True, "versioning": True}, name="c18d") as sd, gw.Site({"iam": False, "tls": True, "versioning": True}, name="c18e") as se:
        gd, ge = sd.gateway(gwbin), se.gateway(gwbin)
        with gw.Site({"iam": False, "backend": "s3", "s3": {"endpoint": "https://127.0.0.1:%d" % ge.port}}, name="c18p") as sp:
            gp = sp.gateway(gwbin)
            for pid in range(n_prog):
                D, P = Side("direct", s3c.Client(gd.port, "root", "rootsecret", tls=True)), Side("proxy", s3c.Client(gp.port, "root", "rootsecret"))
                prog = gen_program(rnd, rnd.randint(20, 45), pid)
                chk.case(("prog", json.dumps(prog, sort_keys=True)), True)
                for i, op in enumerate(prog):
                    a, b = D.run(op), P.run(op)
                    chk.traces += 1; chk.count("%s:%s" % (op["op"], a["status"]))
                    if -1 in (a["status"], b["status"]) and op.get("size", 0) >= MIN:
                        # the server refused the request before the 5 MiB body was sent and closed the connection: the client saw no response
                        chk.count("inconclusive:early-close"); continue
                    if a != b:
                        diff = sorted(k for k in set(a) | set(b) if a.get(k) != b.get(k))
                        desc = {k: v for k, v in op.items() if k not in ("salt",)}
                        chk.fail("c18:%s:%s" % (op["op"], "+".join(diff)[:50]), "%s: the endpoint answers %s, the gateway proxying to an identical endpoint answers %s" % (
                            json.dumps(desc, sort_keys=True)[:300], {k: a.get(k) for k in diff}, {k: b.get(k) for k in diff}),
                            {"program": prog[:i + 1], "direct": a, "proxy": b})
                        break
            if not quick or os.environ.get("VERIF_C18_SLOW"):      # (VERIF_C18_SLOW=1: also in the quick tier, used when a seeded change is tried)
                slow_transfer(chk, gd, gp)
            chk.tie("gateways still running", gd.alive() and ge.alive() and gp.alive(), gp.log_tail())
    kept_data(chk, gwbin)


def slow_transfer(chk, gd, gp):
    """(thorough tier: it takes 35 s of waiting) a large object downloaded by a reader that pauses for longer than any plausible idle
    timeout: the bytes received through the proxy are the bytes received from the endpoint"""
    import http.client, ssl, time, urllib.parse
    size = 64 << 20
    blob = body_of(size, 424242)
    res = {}
    for side, port, tls in (("direct", gd.port, True), ("proxy", gp.port, False)):
        c = s3c.Client(port, "root", "rootsecret", tls=tls)
        c.req("PUT", "/slowbkt"); rp = c.req("PUT", "/slowbkt/big", body=blob, timeout=120)
        url, hd = c.presign("GET", "/slowbkt/big", {}, expires=600)
        u = urllib.parse.urlsplit(url)
        conn = http.client.HTTPSConnection("127.0.0.1", port, timeout=120, context=ssl._create_unverified_context()) if tls else http.client.HTTPConnection("127.0.0.1", port, timeout=120)
        got, err = hashlib.sha256(), ""; n = 0
        try:
            conn.request("GET", u.path + "?" + u.query, headers=hd)
            r = conn.getresponse()
            first = r.read(1 << 20); got.update(first); n += len(first)
            time.sleep(35 if side == "proxy" else 1)
            while True:
                b = r.read(1 << 20)
                if not b: break
                got.update(b); n += len(b)
        except Exception as e:
            err = "%s: %s" % (type(e).__name__, e)
        finally:
            conn.close()
        res[side] = {"put_status": rp.status, "bytes": n, "sha256": got.hexdigest(), "error": err}
    chk.case(("slow-download", size), True); chk.traces += 1; chk.count("slow-download:%s" % ("same" if res["direct"] == res["proxy"] else "differs"))
    want = {"put_status": 200, "bytes": size, "sha256": hashlib.sha256(blob).hexdigest(), "error": ""}
    if res["direct"] == want and res["proxy"] != want:
        chk.fail("c18:slow-download", "a %d-byte object read with a 35 s pause after the first MiB: the endpoint delivers it whole, through the gateway the client gets %r" % (size, res["proxy"]), res)


def kept_data(chk, gwbin):
    """ownership, ACL, policy and bucket tags the gateway keeps for proxied buckets: read back as written, through a restart, without disturbing one another"""
    with gw.Site({"iam": False, "tls": True}, name="c18k") as se:
        ge = se.gateway(gwbin)
        with gw.Site({"iam": True, "backend": "s3", "s3": {"endpoint": "https://127.0.0.1:%d" % ge.port}}, name="c18q") as sp:
            gp = sp.gateway(gwbin)
            R = s3c.Client(gp.port, "root", "rootsecret")
            for acc, role in (("adm", "admin"), ("u1", "userplus"), ("u2", "userplus")):
                R.req("PATCH", "/create-user", body=("<Account><Access>%s</Access><Secret>%s-secret</Secret><Role>%s</Role><UserID>0</UserID><GroupID>0</GroupID></Account>" % (acc, acc, role)).encode())
            def cl(a): return s3c.Client(gp.port, a, a + "-secret")
            chk.require(cl("u1").req("PUT", "/kept-u1").status == 200 and cl("u2").req("PUT", "/kept-u2").status == 200, "c18:setup", "CreateBucket through the proxy failed")
            def acl(b):
                r = R.req("GET", "/" + b, query={"acl": ""})
                return (r.xml().findtext("Owner/ID"), sorted((g.findtext("Grantee/ID") or "", g.findtext("Permission")) for g in r.xml().iter("Grant"))) if r.status == 200 and r.xml() is not None else (r.status, r.code)
            def own(b):
                r = R.req("GET", "/" + b, query={"ownershipControls": ""}); return r.xml().findtext("Rule/ObjectOwnership") if r.status == 200 and r.xml() is not None else (r.status, r.code)
            def pol(b):
                r = R.req("GET", "/" + b, query={"policy": ""}); return json.loads(r.body) if r.status == 200 else (r.status, r.code)
            def tags(b):
                r = R.req("GET", "/" + b, query={"tagging": ""}); return {t.findtext("Key"): t.findtext("Value") for t in r.xml().iter("Tag")} if r.status == 200 and r.xml() is not None else (r.status, r.code)
            def lst(a):
                r = cl(a).req("GET", "/"); return sorted(x.findtext("Name") for x in r.xml().iter("Bucket")) if r.status == 200 and r.xml() is not None else (r.status, r.code)
            steps = []
            def check(label, got, want):
                chk.case(("kept", label), True); chk.traces += 1; steps.append((label, str(got)))
                if got != want:
                    chk.fail("c18:kept:" + label.split(" ")[0], "proxied bucket: %s reads %r, expected %r [steps: %s]" % (label, got, want, steps[-6:]), {"steps": steps})
            check("acl after-create", acl("kept-u1"), ("u1", [("u1", "FULL_CONTROL")]))
            check("list-buckets u1", lst("u1"), ["kept-u1"]); check("list-buckets u2", lst("u2"), ["kept-u2"]); check("list-buckets admin", lst("adm"), ["kept-u1", "kept-u2"])
            R.req("PUT", "/kept-u1", query={"ownershipControls": ""}, body=b"<OwnershipControls><Rule><ObjectOwnership>BucketOwnerPreferred</ObjectOwnership></Rule></OwnershipControls>")
            check("ownership written", own("kept-u1"), "BucketOwnerPreferred")
            r = cl("u1").req("PUT", "/kept-u1", query={"acl": ""}, headers={"x-amz-grant-read": "u2"})
            steps.append(("put-acl", r.status, r.code))
            want_acl = ("u1", sorted([("u1", "FULL_CONTROL"), ("u2", "READ")]))
            check("acl written", acl("kept-u1"), want_acl)
            # an ACL with more grants (its stored form is longer than one tag value of the endpoint may be)
            r = cl("u2").req("PUT", "/kept-u2", query={"ownershipControls": ""}, body=b"<OwnershipControls><Rule><ObjectOwnership>BucketOwnerPreferred</ObjectOwnership></Rule></OwnershipControls>")
            r = cl("u2").req("PUT", "/kept-u2", query={"acl": ""}, headers={"x-amz-grant-read": "u1", "x-amz-grant-write-acp": "adm", "x-amz-grant-read-acp": "adm"})
            steps.append(("put-acl with four grants", r.status, r.code))
            got4 = acl("kept-u2"); want4 = ("u2", sorted([("u2", "FULL_CONTROL"), ("u1", "READ"), ("adm", "WRITE_ACP"), ("adm", "READ_ACP")]))
            chk.case(("kept", "acl-four-grants"), True); chk.traces += 1
            if got4 != want4:
                chk.fail("c18:kept:acl-longer-than-a-tag-value", "proxied bucket: PutBucketAcl with four grants answers %d %s and the ACL reads %r (the gateway keeps the ACL in one tag of the backend bucket, whose value is limited to 256 characters)" % (r.status, r.code, got4), {"steps": steps})
            # ... and a shorter ACL written over the long one replaces all of it; the bucket stays usable
            r = cl("u2").req("PUT", "/kept-u2", query={"acl": ""}, headers={"x-amz-acl": "private"})
            steps.append(("put-acl private over the four grants", r.status, r.code))
            check("acl shrunk", acl("kept-u2"), ("u2", [("u2", "FULL_CONTROL")]))
            rp_ = cl("u2").req("PUT", "/kept-u2/after-acl-shrink", body=b"x"); rh_ = cl("u2").req("HEAD", "/kept-u2/after-acl-shrink")
            check("object put/head after the ACL shrank", (rp_.status, rh_.status), (200, 200))
            check("tags of the bucket whose ACL shrank", tags("kept-u2"), (404, "NoSuchTagSet"))
            r = cl("u2").req("PUT", "/kept-u2", query={"acl": ""}, headers={"x-amz-grant-read": "u1", "x-amz-grant-write-acp": "adm", "x-amz-grant-read-acp": "adm", "x-amz-grant-write": "u1"})
            r = cl("u2").req("PUT", "/kept-u2", query={"acl": ""}, headers={"x-amz-grant-read": "u1"})
            check("acl shrunk again", acl("kept-u2"), ("u2", sorted([("u2", "FULL_CONTROL"), ("u1", "READ")])))
            P0 = {"Version": "2012-10-17", "Statement": [{"Effect": "Allow", "Principal": "*", "Action": "s3:GetObject", "Resource": "arn:aws:s3:::kept-u1/*"}]}
            R.req("PUT", "/kept-u1", query={"policy": ""}, body=json.dumps(P0).encode())
            check("policy written", pol("kept-u1"), P0)
            R.req("PUT", "/kept-u1", query={"tagging": ""}, body=b"<Tagging><TagSet><Tag><Key>team</Key><Value>x y</Value></Tag></TagSet></Tagging>")
            check("tags written", tags("kept-u1"), {"team": "x y"}); check("acl after-tagging", acl("kept-u1"), want_acl)
            r = R.req("PUT", "/kept-u1", query={"acl": ""}, headers={"x-amz-grant-write": "u2"}); steps.append(("put-acl grant-write by root", r.status, r.code))
            check("tags after-acl-change", tags("kept-u1"), {"team": "x y"})
            want_acl = ("u1", sorted([("u1", "FULL_CONTROL"), ("u2", "WRITE")]))
            gp.restart(); R = s3c.Client(gp.port, "root", "rootsecret")
            check("acl after-restart", acl("kept-u1"), want_acl); check("ownership after-restart", own("kept-u1"), "BucketOwnerPreferred")
            check("policy after-restart", pol("kept-u1"), P0); check("tags after-restart", tags("kept-u1"), {"team": "x y"})
            R.req("DELETE", "/kept-u1", query={"tagging": ""})
            check("tags deleted", tags("kept-u1"), (404, "NoSuchTagSet")); check("acl after-tag-delete", acl("kept-u1"), want_acl)
            R.req("DELETE", "/kept-u1", query={"policy": ""})
            check("policy deleted", pol("kept-u1"), (404, "NoSuchBucketPolicy"))
            check("acl other-bucket-owner", acl("kept-u2")[0], "u2")
            # ---- the stored form of an ACL is cut into pieces for the endpoint: every length of it round-trips (grantee names of 3..200
            # characters move the length of the stored form through every residue of the piece size)
            made = cl("u2").req("PUT", "/kept-sweep").status
            cl("u2").req("PUT", "/kept-sweep", query={"ownershipControls": ""}, body=b"<OwnershipControls><Rule><ObjectOwnership>BucketOwnerPreferred</ObjectOwnership></Rule></OwnershipControls>")
            bad_l = []
            lengths = list(range(3, 201)) if chk.tier != "quick" else list(range(3, 201, 1))
            for L in lengths:
                name = "g" + "x" * (L - 1)
                rc_ = R.req("PATCH", "/create-user", body=("<Account><Access>%s</Access><Secret>s</Secret><Role>user</Role><UserID>0</UserID><GroupID>0</GroupID></Account>" % name).encode())
                if rc_.status not in (200, 201):
                    chk.count("acl-sweep:account-refused:%d" % rc_.status); continue
                r = cl("u2").req("PUT", "/kept-sweep", query={"acl": ""}, headers={"x-amz-grant-read": name, "x-amz-grant-write-acp": "adm"})
                got = acl("kept-sweep"); want = ("u2", sorted([("u2", "FULL_CONTROL"), (name, "READ"), ("adm", "WRITE_ACP")]))
                chk.case(("kept", "acl-sweep", L), True); chk.traces += 1; chk.count("acl-sweep:%d" % r.status)
                if r.status not in (200, 204) or got != want:
                    bad_l.append({"grantee_name_length": L, "status": r.status, "code": r.code, "acl_read_back": str(got)[:200]})
                R.req("PATCH", "/delete-user", query={"access": name})
            if bad_l:
                chk.fail("c18:kept:acl-of-some-length", "proxied bucket: PutBucketAcl with a grantee name of %s characters answers %d %s / reads back wrongly (other lengths work): the stored form of the ACL has a length the splitting into endpoint tags mishandles"
                         % ([b_["grantee_name_length"] for b_ in bad_l][:8], bad_l[0]["status"], bad_l[0]["code"]), {"failing": bad_l[:6], "lengths_tried": "%d..%d" % (lengths[0], lengths[-1])})
            chk.tie("proxy gateway still running after the kept-data sequence", gp.alive(), gp.log_tail())


def replay(chk, data):
    print(json.dumps(data.get("replay"), indent=1, default=str))
    return 0
