"""C12 — aws-chunked decoding is independent of stream fragmentation (DESIGN.md §7 C12)."""
import json, subprocess
from vlib import common, coq, gobuild, ocamlbuild, chunkenc

THEOREMS = ["C12_signed_accept_requires_final_chunk_partial", "C12_signed_truncation_rejected", "C12_unsigned_accept_requires_trailer_partial", "C12_signed_decodes_whole_stream", "C12_signed_fragmentation_independent", "C12_unsigned_any_buffers", "C12_signed_data_chunk_declares_signature"]
TARGETS = ["Properties/C12.vo"]
SECRET, SEED = "secret", "seedsig0123"


def hexd(b):
    return b.hex() if b else "-"


def frag_field(frags):
    return ",".join("%s:%d" % (hexd(f), 1 if e else 0) for f, e in frags) if frags else "-"


def cut(stream, cuts, eof_last):
    out, prev = [], 0
    for c in cuts:
        out.append((stream[prev:c], False)); prev = c
    out.append((stream[prev:], eof_last))
    return out


def payload(rnd, n):
    return bytes(rnd.choice(b"abcdefghijklmnopqrstuvwxyz0123456789\r\n;=") for _ in range(n))


def chunking(rnd, sizes):
    return [payload(rnd, n) for n in sizes]


def run(chk):
    quick = chk.tier == "quick"
    chk.rule = ("a signed case is (valid or mutated signed aws-chunked stream with/without CRC trailer, delivery schedule = list of "
                "source fragments with EOF flag); an unsigned case is (stream, source fragments, destination buffer sizes). "
                "Valid streams are cut at every single position and at random multi-cuts; mutation stream: every truncation point "
                "and single-byte mutations of small streams, negative / huge chunk sizes. Non-trivial: >= 2 chunks or >= 2 fragments, "
                "or a mutation; distinct by content.")
    corr = gobuild.build_tool("corr")
    model = ocamlbuild.build_driver("chunkmodel", "Extract/ChunkExtract.v", "chunkmodel.ml", "chunk_driver.ml")
    chk.checker_cmds.append("extracted model: coqc Extract/ChunkExtract.v; ocamlfind ocamlopt chunkmodel.ml chunk_driver.ml")
    built = coq.ensure_built(chk, TARGETS)
    if built and THEOREMS:
        coq.check_assumptions(chk, "Properties.C12", THEOREMS)
    rnd = chk.rnd
    key = chunkenc.signing_key(SECRET)
    stsP = chunkenc.sts_prefix("AWS4-HMAC-SHA256-PAYLOAD").encode()
    stsT = chunkenc.sts_prefix("AWS4-HMAC-SHA256-TRAILER").encode()

    # ------------------------------------------------------------ signed reader
    scases = []      # (trailer code, frags, meta)
    def add_signed(tr, stream, frags, kind, expect):
        scases.append((tr, frags, {"kind": kind, "trailer": tr, "stream_len": len(stream), "nfrags": len(frags),
                                   "expect_payload": expect.hex() if expect is not None else None,
                                   "frag_sizes": [len(f) for f, _ in frags][:40], "stream": stream.hex() if len(stream) < 700 else None}))
    streams = []
    for tr, tname in ((0, None), (1, "crc32"), (2, "crc32c")):
        for sizes in ([10, 20, 16], [1, 1], [5], [3, 40, 2, 7], [], [70, 1]):
            ch = chunking(rnd, sizes)
            streams.append((tr, ch, chunkenc.encode_signed(ch, key, SEED, tname)))
    n_streams_full = 4 if quick else len(streams)
    for i, (tr, ch, st) in enumerate(streams):
        pl = b"".join(ch)
        add_signed(tr, st, cut(st, [], False), "whole", pl)
        add_signed(tr, st, cut(st, [], True), "whole-eof-with-data", pl)
        add_signed(tr, st, [(bytes([b]), False) for b in st], "one-byte-fragments", pl)
        if i < n_streams_full or tr:
            step = 1 if i < n_streams_full else 3
            for c in range(1, len(st), step):
                add_signed(tr, st, cut(st, [c], False), "single-cut", pl)
        for _ in range(20 if quick else 100):
            k = rnd.randrange(2, 7)
            cuts = sorted(set(rnd.randrange(1, len(st)) for _ in range(k)))
            add_signed(tr, st, cut(st, cuts, rnd.random() < 0.3), "multi-cut", pl)
    # mutation stream: truncations and byte mutations of two small streams
    for tr, ch, st in (streams[1], streams[7], streams[2]):
        for c in range(0, len(st), 1 if quick is False else 2):
            add_signed(tr, st[:c], cut(st[:c], [], rnd.random() < 0.5), "truncated", None)
            if c and rnd.random() < 0.3:
                add_signed(tr, st[:c], cut(st[:c], [rnd.randrange(0, c)], False), "truncated+cut", None)
            if c > 1:
                # the source hands over the last bytes together with EOF (as net/http bodies do), after an earlier fragment
                add_signed(tr, st[:c], cut(st[:c], [rnd.randrange(1, c)], True), "truncated+cut-eof-with-data", None)
                add_signed(tr, st[:c], cut(st[:c], [c - 1], True), "truncated+cut-eof-with-data", None)
        for c in range(0, len(st), 2 if quick else 1):
            m = bytearray(st); m[c] ^= rnd.choice([1, 0x20, 0x80, 0x0f])
            m = bytes(m)
            add_signed(tr, m, cut(m, [rnd.randrange(1, len(m))] if rnd.random() < 0.5 else [], False), "byte-mutation", None)
    for hdr in (b"-5;chunk-signature=" + b"a" * 64 + b"\r\nabc\r\n", b"ffffffffffffffff;chunk-signature=" + b"a" * 64 + b"\r\nabc",
                b"7fffffffffffffff;chunk-signature=" + b"a" * 64 + b"\r\nabc", b"x" * 1100, b"5" * 1100 + b";", b";chunk-signature=\r\n",
                b"+3;chunk-signature=" + b"a" * 64 + b"\r\nabc\r\n"):
        add_signed(0, hdr, cut(hdr, [], False), "bad-size", None)
        add_signed(0, hdr, cut(hdr, [min(600, len(hdr) - 1)], False), "bad-size", None)

    glines = ["%d\t%s\t%s\t%s" % (tr, SECRET.encode().hex(), SEED.encode().hex(), frag_field(fr)) for tr, fr, _ in scases]
    mlines = ["S %s %s %s %d %s %s" % (key.hex(), stsP.hex(), stsT.hex(), tr, SEED.encode().hex(), frag_field(fr)) for tr, fr, _ in scases]
    gobs = subprocess.run([corr, "schunk"], input=("\n".join(glines) + "\n").encode(), stdout=subprocess.PIPE, timeout=600,
                          env=common.env()).stdout.decode().split("\n")[:len(scases)]
    mobs = ocamlbuild.run_lines(model, mlines)
    bad = []
    for (tr, fr, meta), g, m in zip(scases, gobs, mobs):
        chk.case(("s", tr, tuple(fr)), meta["kind"] != "whole" or meta["stream_len"] > 200)
        gout, gcls = (g.split(" ") + ["?"])[:2]
        chk.count("signed:%s:%s" % (meta["kind"], gcls))
        meta = dict(meta, observed_class=gcls, observed_payload=gout if len(gout) < 400 else gout[:60] + "...", model=m if len(m) < 400 else m[-30:])
        if g != m:
            bad.append(meta)
        # R3: the Spec on the observation
        exp = meta["expect_payload"]
        if gcls == "PANIC" or g == "PANIC":
            chk.fail("c12:signed:panic", "signed chunk reader panics (%s)" % meta["kind"], meta)
        elif exp is not None:
            if not (gcls == "E_EOF" and gout == (exp or "-")):
                chk.fail("c12:signed:valid-stream-rejected:" + meta["kind"], "a valid signed stream delivered as %s is answered %s (payload %s)" % (
                    meta["kind"], gcls, "equal" if gout == (exp or "-") else "different"), meta)
        else:
            if gcls == "E_EOF" and meta["kind"].startswith("truncated"):
                chk.fail("c12:signed:truncation-accepted", "a signed stream cut after %d bytes is accepted (clean EOF)" % meta["stream_len"], meta)
            elif gcls == "E_EOF" and meta["kind"] == "bad-size":
                chk.fail("c12:signed:bad-size-accepted", "malformed chunk size accepted", meta)
    chk.tie("T2 utils.NewSignedChunkReader = extracted Model.SignedChunk.run on %d (stream, schedule) runs" % len(scases), not bad, bad[:4])
    chk.samples.append(scases[5][2])

    # ------------------------------------------------------------ unsigned reader
    ucases = []
    def region_unsigned(st, pos):
        """which part of a valid unsigned stream byte `pos` belongs to: 'data' / 'checksum' (fully significant characters of the value) / other"""
        p = 0
        while True:
            e = st.index(b"\r\n", p); size = int(st[p:e], 16); p = e + 2
            if size == 0: break
            if p <= pos < p + size: return "data"
            p += size + 2
        c = st.index(b":", p) + 1; e = st.index(b"\r\n", c)
        val = st[c:e].rstrip(b"=")
        return "checksum" if c <= pos < c + len(val) - 1 else "other"
    def add_unsigned(kind_code, stream, frags, bufs, dflt, kind, expect, region=None):
        ucases.append((kind_code, stream, frags, bufs, dflt, {"kind": kind, "stream_len": len(stream), "dest_sizes": bufs[:20], "default_dest": dflt,
                                                             "expect_payload": expect.hex() if expect is not None else None, "mutated_region": region,
                                                             "stream": stream.hex() if len(stream) < 500 else None}))
    ustreams = []
    for kc, kn in ((1, "crc32"), (2, "crc32c")):
        for sizes in ([3, 3, 2], [10, 20, 16], [1], [], [100, 1, 50], [24 * 1024, 24 * 1024, 5]):
            ch = chunking(rnd, sizes)
            ustreams.append((kc, ch, chunkenc.encode_unsigned(ch, kn)))
    for kc, ch, st in ustreams:
        pl = b"".join(ch)
        big = len(st) > 5000
        for dflt in ([32768, 4096, 1000] if big else [1, 2, 3, 4, 5, 7, 64, 4096]):
            add_unsigned(kc, st, cut(st, [], False), [], dflt, "uniform-dest", pl)
        for _ in range(6 if quick else 40):
            bufs = [rnd.choice([1, 2, 3, 4, 5, 8, 13, 64, 1000, 32768] if not big else [1000, 4096, 8192, 32768, 24 * 1024]) for _ in range(rnd.randrange(1, 30))]
            cuts = sorted(set(rnd.randrange(1, len(st)) for _ in range(rnd.randrange(0, 5))))
            add_unsigned(kc, st, cut(st, cuts, rnd.random() < 0.3), bufs, rnd.choice([4, 64, 32768] if not big else [32768]), "scripted-dest", pl)
    for kc, ch, st in (ustreams[0], ustreams[1], ustreams[7]):
        for c in range(0, len(st)):
            add_unsigned(kc, st[:c], cut(st[:c], [], rnd.random() < 0.5), [], rnd.choice([3, 64]), "truncated", None)
        for c in range(0, len(st), 2 if quick else 1):
            m = bytearray(st); m[c] ^= rnd.choice([1, 0x20, 0x80, 0x0f]); m = bytes(m)
            add_unsigned(kc, m, cut(m, [], False), [], rnd.choice([3, 64]), "byte-mutation", None, region_unsigned(st, c))
        # every character of the trailing checksum value, with the mutations that keep it a base64 letter (case flip, neighbour)
        c0 = st.rindex(b":") + 1
        for c in range(c0, st.index(b"\r\n", c0)):
            for x in (0x20, 1, 2):
                m = bytearray(st); m[c] ^= x; m = bytes(m)
                add_unsigned(kc, m, cut(m, [], False), [], 64, "byte-mutation", None, region_unsigned(st, c))
    for st in (b"-5\r\nabc\r\n0\r\n", b"ffffffffffffffff\r\nabc", b"7fffffffffffffff\r\nabc\r\n", b"40000000\r\nabc", b" 3 \r\nabc\r\n0\r\nx-amz-checksum-crc32:AAAAAA==\r\n\r\n",
               b"3\nabc\r\n0\r\n", b"3\r\nabc\n", b"3\r\nabcd\r\n", b"\r\n", b"", b"0\r\n", b"0\r\nx-amz-checksum-crc32:AAAAAA==\r\n\r\n", b"0\r\nx-amz-checksum-crc32:AAAAAA==:\r\n\r\n",
               b"0\r\nx-amz-checksum-sha1:AAAAAA==\r\n\r\n", b"0\r\n\r\n\r\n", b"0\r\nx-amz-checksum-crc32:AAAAAA==\r\n\r", b"+3\r\nabc\r\n0\r\n"):
        add_unsigned(1, st, cut(st, [], False), [], 64, "bad-framing", None)
    glines = ["%d\t%s\t%s\t%d" % (kc, frag_field(fr), ",".join(map(str, bufs)) or "-", dflt) for kc, st, fr, bufs, dflt, _ in ucases]
    mlines = ["U %d %s %s %d" % (kc, hexd(st), ",".join(map(str, bufs)) or "-", dflt) for kc, st, fr, bufs, dflt, _ in ucases]
    gobs = subprocess.run([corr, "uchunk"], input=("\n".join(glines) + "\n").encode(), stdout=subprocess.PIPE, timeout=600,
                          env=common.env()).stdout.decode().split("\n")[:len(ucases)]
    mobs = ocamlbuild.run_lines(model, mlines)
    bad = []
    for (kc, st, fr, bufs, dflt, meta), g, m in zip(ucases, gobs, mobs):
        chk.case(("u", kc, st, tuple(fr), tuple(bufs), dflt), True)
        gout, gcls = (g.split(" ") + ["?"])[:2]
        chk.count("unsigned:%s:%s" % (meta["kind"], gcls))
        meta = dict(meta, observed_class=gcls, observed_payload=gout if len(gout) < 400 else gout[:60] + "...", model=m if len(m) < 400 else m[-30:])
        if g != m:
            bad.append(meta)
        exp = meta["expect_payload"]
        if g == "PANIC" or gcls == "PANIC":
            chk.fail("c12:unsigned:panic", "unsigned chunk reader panics (%s)" % meta["kind"], meta)
        elif exp is not None:
            if not (gcls == "U_EOF" and gout == (exp or "-")):
                chk.fail("c12:unsigned:valid-stream-rejected-or-altered", "a valid unsigned stream read with destination sizes %s.. is answered %s (payload %s)" % (
                    meta["dest_sizes"][:5] or meta["default_dest"], gcls, "equal" if gout == (exp or "-") else "DIFFERENT"), meta)
        elif gcls == "U_EOF" and meta["kind"] == "byte-mutation" and meta.get("mutated_region") in ("data", "checksum"):
            chk.fail("c12:unsigned:corrupted-stream-accepted:" + meta["mutated_region"], "an unsigned stream with one altered byte in its %s is accepted (clean EOF, payload %s)" % (
                {"data": "chunk data (the trailing checksum is that of the original data)", "checksum": "trailing checksum value"}[meta["mutated_region"]], gout[:40]), meta)
        elif gcls == "U_EOF" and meta["kind"] == "truncated":
            chk.fail("c12:unsigned:truncation-accepted", "an unsigned stream cut after %d bytes is accepted (clean EOF)" % meta["stream_len"], meta)
    chk.tie("T2 utils.NewUnsignedChunkReader = extracted Model.UnsignedChunk.urun on %d (stream, buffer schedule) runs" % len(ucases), not bad, bad[:4])
    chk.samples.append(ucases[3][5])
    # key derivation
    k = subprocess.run([model], input=("K %s %s %s\n" % (SECRET.encode().hex(), chunkenc.DATE8.encode().hex(), chunkenc.REGION.encode().hex())).encode(),
                       stdout=subprocess.PIPE).stdout.decode().split(" ")[0]
    chk.tie("signing key derivation of the model = independent HMAC chain", k == key.hex(), k)


def replay(chk, data):
    print(json.dumps(data.get("replay"), indent=1))
    return 0
