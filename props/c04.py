"""C04 — Requests stay confined to the bucket and object they name (DESIGN.md §7 C04)."""
import base64
import json, os, subprocess, urllib.parse
from vlib import common, coq, gobuild, gw, s3c, e2e
from vlib.common import coq_str, coq_list, coq_bool

THEOREMS = ["C04_clean_names_confined", "C04_dot_segments_refused", "C04_refused_or_confined", "C04_reserved_namespace_refused", "C04_valid_name_not_reserved"]
TARGETS = ["Properties/C04.vo", "Check/PathCheck.vo"]
CANARY = b"CANARY-OUTSIDE-ROOT-51c2"
VICTIM = b"VICTIM-OTHER-BUCKET-88ab"
import hashlib as _hl
CANARY_MD5, VICTIM_MD5 = _hl.md5(CANARY).hexdigest().encode(), _hl.md5(VICTIM).hexdigest().encode()

SPELLINGS = [
    ("raw", lambda p: p),
    ("pct-lower", lambda p: p.replace("..", "%2e%2e")),
    ("pct-upper", lambda p: p.replace("..", "%2E%2E")),
    ("pct-slash", lambda p: p.replace("../", "..%2f")),
    ("double-encoded", lambda p: p.replace("..", "%252e%252e")),
    ("dot-slash", lambda p: p.replace("../", ".././")),
    ("double-slash", lambda p: p.replace("../", "..//")),
    ("backslash", lambda p: p.replace("../", "..\\")),
]
TARGETS_REL = [("outside-root", "../../outside/canary.txt"), ("other-bucket", "../bk2/victim"), ("deep", "a/b/../../../../outside/canary.txt"),
               ("dot", "./obj"), ("absolute", "/etc/hostname"), ("self-alias", "x/../obj")]


def run(chk):
    quick = chk.tier == "quick"
    chk.rule = ("a case is (endpoint, client-controlled path-like parameter, traversal target, spelling): object key on GET/HEAD/PUT/DELETE/"
                "tagging/attributes/copy destination, copy source, versionId, uploadId, batch-delete key, listing prefix and marker, bucket "
                "segment, admin bucket parameter; targets outside the gateway root, in another bucket, aliases of an existing key; spellings "
                "raw, %2e%2e, %2E%2E, ..%2f, double-encoded, ./, //, backslash; as root and as a user owning only bk1. After each request the "
                "response is scanned for canary content and everything outside the named bucket is compared byte for byte. Non-trivial when "
                "the spelling differs from the plain name; distinct by content.")
    corr = gobuild.build_tool("corr")
    gwbin = gobuild.build_gateway("verif")
    built = coq.ensure_built(chk, TARGETS)
    if built:
        coq.check_assumptions(chk, "Properties.C04", THEOREMS)
    rnd = chk.rnd
    rows = []
    with gw.Site({"iam": True, "versioning": True}, name="c04") as site:
        os.makedirs(site.outside, exist_ok=True)
        open(os.path.join(site.outside, "canary.txt"), "wb").write(CANARY)
        g = site.gateway(gwbin)
        root = s3c.Client(g.port, "root", "rootsecret")
        ok = root.req("PATCH", "/create-user", body=b"<Account><Access>alice</Access><Secret>alice-secret</Secret><Role>userplus</Role><UserID>0</UserID><GroupID>0</GroupID></Account>").status in (200, 201)
        alice = s3c.Client(g.port, "alice", "alice-secret")
        ok &= alice.req("PUT", "/bk1").status == 200
        ok &= root.req("PUT", "/bk2").status == 200
        ok &= alice.req("PUT", "/bk1/obj", body=b"own-object").status == 200
        ok &= alice.req("PUT", "/bk1/a/b/deep", body=b"deep-object").status == 200
        ok &= root.req("PUT", "/bk2/victim", body=VICTIM).status == 200
        r = alice.req("POST", "/bk1/mp", query={"uploads": ""})
        uid = r.xml().findtext("UploadId") if r.status == 200 else ""
        ok &= alice.req("PUT", "/bk1/mp", query={"partNumber": "1", "uploadId": uid}, body=b"part").status == 200
        ok &= alice.req("PUT", "/bk1", query={"versioning": ""}, body=b"<VersioningConfiguration><Status>Enabled</Status></VersioningConfiguration>").status == 200
        ok &= alice.req("PUT", "/bk1/obj", body=b"own-object-v2").status == 200
        chk.require(ok, "c04:setup", "scenario setup failed")

        def inside_bk1(k):
            k = os.path.normpath(k)
            return any(k == p or k.startswith(p + "/") for p in ("root/bk1", "versions/bk1"))

        def guarded():
            """everything that a request naming bucket bk1 must not touch"""
            s = e2e.snapshot(site.outside, site.iamdir)
            s.update({k: v for k, v in e2e.snapshot(site.root, site.verdir).items() if not inside_bk1(k)})
            return s
        def own():
            return {k: v for k, v in e2e.snapshot(site.root).items() if inside_bk1(k)}

        reqs = []       # (label, param kind, spelling, function(client) -> Resp, plain?)
        for tname, rel in TARGETS_REL:
            for sname, f in SPELLINGS:
                sp = f(rel)
                if sname != "raw" and sp == rel:
                    continue
                dec = urllib.parse.unquote(sp)
                for ep, method, q, body in (("GetObject", "GET", {}, b""), ("HeadObject", "HEAD", {}, b""), ("PutObject", "PUT", {}, b"written-by-traversal"),
                                            ("DeleteObject", "DELETE", {}, b""), ("GetObjectTagging", "GET", {"tagging": ""}, b""),
                                            ("GetObjectAttributes", "GET", {"attributes": ""}, b"")):
                    if quick and ep in ("GetObjectTagging", "GetObjectAttributes") and sname not in ("raw", "pct-lower"):
                        continue
                    hd = {"x-amz-object-attributes": "ETag,ObjectSize"} if ep == "GetObjectAttributes" else {}
                    reqs.append(("%s key=%s" % (ep, sp), "key", sname, tname,
                                 lambda c, method=method, sp=sp, dec=dec, q=q, body=body, hd=hd: [
                                     # the signature is computed over the decoded, the literal and the normalised path in turn:
                                     # whichever form the server canonicalises, one of them authenticates
                                     c.req(method, "/bk1/" + dec, query=q, body=body, headers=hd, raw_path="/bk1/" + sp),
                                     c.req(method, "/bk1/" + sp, query=q, body=body, headers=hd, raw_path="/bk1/" + sp),
                                     c.req(method, os.path.normpath("/bk1/" + dec), query=q, body=body, headers=hd, raw_path="/bk1/" + sp)]))
                reqs.append(("CopyObject source=%s" % sp, "copy-source", sname, tname,
                             lambda c, sp=sp: [c.req("PUT", "/bk1/copied-s", headers={"x-amz-copy-source": "bk1/" + sp}), c.req("GET", "/bk1/copied-s"), c.req("DELETE", "/bk1/copied-s")]))
                reqs.append(("CopyObject dest key=%s" % sp, "key", sname, tname,
                             lambda c, sp=sp, dec=dec: [c.req("PUT", "/bk1/" + dec, headers={"x-amz-copy-source": "bk1/obj"}, raw_path="/bk1/" + sp)]))
                reqs.append(("DeleteObjects key=%s" % sp, "batch-key", sname, tname,
                             lambda c, dec=dec: [c.req("POST", "/bk1", query={"delete": ""}, body=("<Delete><Object><Key>%s</Key></Object></Delete>" % dec.replace("&", "&amp;")).encode())]))
        for tname, rel in (("outside-root", "../../../../outside/canary.txt"), ("outside-root", "../../../outside/canary.txt"), ("other-bucket", "../../bk2/victim"),
                           ("other-bucket-dir", "../../../../bk2"), ("dot", "."), ("dotdot", ".."), ("other-bucket-ver", "../../../bk2/victim")):
            for ep, method, key in (("GetObject", "GET", "obj"), ("HeadObject", "HEAD", "obj"), ("DeleteObject", "DELETE", "obj"), ("GetObjectTagging", "GET", "obj")):
                q = {"versionId": rel}
                if ep == "GetObjectTagging": q["tagging"] = ""
                reqs.append(("%s versionId=%s" % (ep, rel), "versionId", "raw", tname, lambda c, method=method, key=key, q=q: [c.req(method, "/bk1/" + key, query=q)]))
            reqs.append(("AbortMultipartUpload uploadId=%s" % rel, "uploadId", "raw", tname, lambda c, rel=rel: [c.req("DELETE", "/bk1/mp", query={"uploadId": rel})]))
            reqs.append(("ListParts uploadId=%s" % rel, "uploadId", "raw", tname, lambda c, rel=rel: [c.req("GET", "/bk1/mp", query={"uploadId": rel})]))
            reqs.append(("UploadPart uploadId=%s" % rel, "uploadId", "raw", tname, lambda c, rel=rel: [c.req("PUT", "/bk1/mp", query={"uploadId": rel, "partNumber": "1"}, body=b"x")]))
            reqs.append(("CompleteMultipartUpload uploadId=%s" % rel, "uploadId", "raw", tname, lambda c, rel=rel: [
                c.req("POST", "/bk1/mp", query={"uploadId": rel}, body=b"<CompleteMultipartUpload><Part><PartNumber>1</PartNumber><ETag>x</ETag></Part></CompleteMultipartUpload>")]))
            reqs.append(("CopyObject source versionId=%s" % rel, "copy-source-version", "raw", tname,
                         lambda c, rel=rel: [c.req("PUT", "/bk1/copied-v", headers={"x-amz-copy-source": "bk1/obj?versionId=" + rel}), c.req("GET", "/bk1/copied-v"),
                                             c.req("DELETE", "/bk1/copied-v")]))
            reqs.append(("UploadPartCopy source versionId=%s" % rel, "copy-source-version", "raw", tname,
                         lambda c, rel=rel: [c.req("PUT", "/bk1/mp", query={"uploadId": uid, "partNumber": "7"}, headers={"x-amz-copy-source": "bk1/obj?versionId=" + rel})]))
            # a repeated parameter: the value that is validated must be the value that is used (both orders on the wire)
            for first, second in ((rel, uid), (uid, rel)):
                rq = "uploadId=%s&uploadId=%s" % (s3c.quote_q(first), s3c.quote_q(second))
                reqs.append(("AbortMultipartUpload uploadId=%s&uploadId=%s" % (first[:12], second[:12]), "uploadId-repeated", "raw", tname,
                             lambda c, first=first, second=second, rq=rq: [c.req("DELETE", "/bk1/mp2", query=[("uploadId", first), ("uploadId", second)], raw_query=rq)]))
                vq = "versionId=%s&versionId=%s" % (s3c.quote_q(first if first != uid else "null"), s3c.quote_q(second if second != uid else "null"))
                reqs.append(("DeleteObject versionId repeated %s" % vq[:40], "versionId-repeated", "raw", tname,
                             lambda c, first=first, second=second, vq=vq: [c.req("DELETE", "/bk1/obj-r", query=[("versionId", first if first != uid else "null"), ("versionId", second if second != uid else "null")], raw_query=vq)]))
            # a batch delete naming one key several times: every entry's version id is a path element
            for order in (0, 1):
              for rel in [rel] + (["../" * d + t_ for d in (5, 6, 7) for t_ in ("root/bk2/victim", "outside/canary.txt")] if tname == "dotdot" else []):
                ents = ["<Object><Key>obj-b</Key></Object>", "<Object><Key>obj-b</Key><VersionId>%s</VersionId></Object>" % rel]
                body = "<Delete>" + "".join(ents if order == 0 else ents[::-1]) + "</Delete>"
                reqs.append(("DeleteObjects repeated key, versionId=%s (%s)" % (rel, "second" if order == 0 else "first"), "batch-version-repeated", "raw", tname,
                             lambda c, body=body: [c.req("POST", "/bk1", query={"delete": ""}, body=body.encode())]))
                reqs.append(("DeleteObject versionId=%s" % rel, "versionId", "raw", tname, lambda c, rel=rel: [c.req("DELETE", "/bk1/obj-b", query={"versionId": rel})]))
        # version ids are joined below <versioning-dir>/<bucket>/<hash directories>/: every depth of escape, towards the canary outside the
        # root and towards the other bucket's object, through every request that carries a version id (also inside a copy source)
        for d in range(1, 10):
            for tname, tail in (("outside-root-depth", "outside/canary.txt"), ("other-bucket-depth", "root/bk2/victim")):
                rel = "../" * d + tail
                for method in ("GET", "HEAD", "DELETE"):
                    reqs.append(("%s versionId=%s" % (method, rel), "versionId", "raw", tname, lambda c, method=method, rel=rel: [c.req(method, "/bk1/obj", query={"versionId": rel})]))
                reqs.append(("CopyObject source versionId=%s" % rel, "copy-source-version", "raw", tname,
                             lambda c, rel=rel: [c.req("PUT", "/bk1/copied-v", headers={"x-amz-copy-source": "bk1/obj?versionId=" + rel}), c.req("GET", "/bk1/copied-v"), c.req("DELETE", "/bk1/copied-v")]))
                reqs.append(("UploadPartCopy source versionId=%s" % rel, "copy-source-version", "raw", tname,
                             lambda c, rel=rel: [c.req("PUT", "/bk1/mp", query={"uploadId": uid, "partNumber": "7"}, headers={"x-amz-copy-source": "bk1/obj?versionId=" + rel})]))
        for pfx in ("../", "../../outside/", "a/../../bk2/", "..", "/"):
            reqs.append(("ListObjectsV2 prefix=%s" % pfx, "prefix", "raw", "listing", lambda c, pfx=pfx: [c.req("GET", "/bk1", query={"list-type": "2", "prefix": pfx})]))
            reqs.append(("ListObjects marker=%s" % pfx, "marker", "raw", "listing", lambda c, pfx=pfx: [c.req("GET", "/bk1", query={"marker": pfx})]))
            reqs.append(("ListObjectVersions prefix=%s" % pfx, "prefix", "raw", "listing", lambda c, pfx=pfx: [c.req("GET", "/bk1", query={"versions": "", "prefix": pfx})]))
        for b in ("..", "../outside", "%2e%2e", ".", "bk1/../bk2"):
            reqs.append(("GetObject bucket=%s" % b, "bucket", "raw", "bucket-segment", lambda c, b=b: [c.req("GET", "/" + urllib.parse.unquote(b) + "/canary.txt", raw_path="/" + b + "/canary.txt"),
                                                                                                   c.req("GET", "/" + urllib.parse.unquote(b) + "/outside/canary.txt", raw_path="/" + b + "/outside/canary.txt")]))
            reqs.append(("admin change-bucket-owner bucket=%s" % b, "admin-bucket", "raw", "admin", lambda c, b=b: [c.req("PATCH", "/change-bucket-owner", query={"bucket": urllib.parse.unquote(b), "owner": "alice"})]))

        g0, o0 = guarded(), own()
        for who, cl in (("root", root), ("alice", alice)):
            for label, kind, sname, tname, fn in reqs:
                if who == "alice" and kind == "admin-bucket":
                    continue
                try:
                    resps = fn(cl)
                except Exception as e:           # a spelling the HTTP client itself refuses to send
                    chk.count("client-refused:" + kind)
                    continue
                g1 = guarded()
                ch = e2e.snap_diff(g0, g1)
                # (a copy answers with the ETag of what it read: the digest of a foreign file in a CopyObjectResult / CopyPartResult is a read as well)
                leak = any((CANARY in (r.body or b"")) or (CANARY_MD5 in (r.body or b"")) or ((VICTIM in (r.body or b"") or VICTIM_MD5 in (r.body or b"")) and who == "alice") for r in resps)
                row = {"request": label, "parameter": kind, "spelling": sname, "target": tname, "caller": who, "statuses": [r.status for r in resps],
                       "codes": [r.code for r in resps], "changed_outside": ch, "leaked": leak}
                rows.append(row)
                chk.case((label, who), sname != "raw" or tname not in ("dot",))
                chk.count("%s:%s:%s" % (kind, sname, "/".join(str(r.status) for r in resps)))
                chk.traces += 1
                if not g.alive():
                    chk.fail("c04:gateway-died", "the gateway died on %s" % label, row)
                    g = site.gateway(gwbin); root = s3c.Client(g.port, "root", "rootsecret"); alice = s3c.Client(g.port, "alice", "alice-secret")
                if leak:
                    chk.fail("c04:read-outside:%s:%s" % (kind, tname), "%s by %s returned the content of a file outside the named bucket" % (label, who), row)
                if ch:
                    chk.fail("c04:write-outside:%s:%s" % (kind, tname), "%s by %s changed storage outside the named bucket: %s" % (label, who, ch[:3]), row)
                    g0 = g1
                # aliasing: a name with dot / empty segments must be refused or kept verbatim, never resolved onto another key of the bucket
                o1 = own()
                if kind in ("key", "batch-key") and tname in ("self-alias", "dot", "deep") and any(200 <= r.status < 300 for r in resps):
                    ch2 = [d for d in e2e.snap_diff(o0, o1) if "bk1/obj" in d or "bk1/a/b/deep" in d]
                    if ch2 and ("DELETE" in label or "Delete" in label or "Put" in label or "Copy" in label):
                        chk.fail("c04:alias-resolved:%s" % kind, "%s by %s acted on an existing key under a different (resolved) name: %s" % (label, who, ch2[:2]), row)
                o0 = o1
        # ---- the object a request names, not another object of the same bucket: a version id in a copy source selects a version
        # of the SOURCE key (the version stores of two keys hold the same ids: "null")
        import hashlib as _h
        alice.req("PUT", "/bk3")
        for k_, old_ in (("cs/a", b"old-of-a"), ("cs/b", b"old-of-b-longer")):
            alice.req("PUT", "/bk3/" + k_, body=old_)
        alice.req("PUT", "/bk3", query={"versioning": ""}, body=b"<VersioningConfiguration><Status>Enabled</Status></VersioningConfiguration>")
        for k_, new_ in (("cs/a", b"new-of-a"), ("cs/b", b"new-of-b")):
            alice.req("PUT", "/bk3/" + k_, body=new_)
        r0 = alice.req("POST", "/bk3/cs/b", query={"uploads": ""}); uid3 = r0.xml().findtext("UploadId") if r0.status == 200 and r0.xml() is not None else ""
        rp = alice.req("PUT", "/bk3/cs/b", query={"partNumber": "1", "uploadId": uid3}, headers={"x-amz-copy-source": "bk3/cs/a?versionId=null"})
        et = (rp.xml().findtext("ETag") or "").strip('"') if rp.status == 200 and rp.xml() is not None and rp.xml().tag != "Error" else None
        rc_ = alice.req("PUT", "/bk3/cs/c", headers={"x-amz-copy-source": "bk3/cs/a?versionId=null"})
        gc_ = alice.req("GET", "/bk3/cs/c")
        for what, got in (("UploadPartCopy into cs/b", et), ("CopyObject into cs/c", _h.md5(gc_.body).hexdigest() if rc_.status == 200 and gc_.status == 200 else None)):
            chk.case(("named-version", what), True); chk.traces += 1
            row = {"request": what + " from bk3/cs/a?versionId=null", "etag_of_result": got, "old_a": _h.md5(b"old-of-a").hexdigest(), "old_b": _h.md5(b"old-of-b-longer").hexdigest()}
            rows.append(row)
            if got is not None and got != _h.md5(b"old-of-a").hexdigest():
                chk.fail("c04:other-objects-version-read:" + what.split(" ")[0], "%s from bk3/cs/a?versionId=null produced content with MD5 %s: not the null version of cs/a (%s)%s" % (
                    what, got, row["old_a"], "; it is the null version of cs/b" if got == row["old_b"] else ""), row)
        # ---- a key with a trailing "/" and the same key without it are two keys (a directory object and a file object): a request that
        # names the one never reads or changes the attributes of the other
        ok = root.req("PUT", "/bklock", headers={"x-amz-bucket-object-lock-enabled": "true"}).status == 200
        ok &= root.req("PUT", "/bklock/x", body=b"file-x").status == 200 and root.req("PUT", "/bklock/d/", body=b"").status == 200 and root.req("PUT", "/bklock/d/child", body=b"c").status == 200
        chk.require(ok, "c04:setup", "scenario setup (lock bucket) failed")
        TAG = b"<Tagging><TagSet><Tag><Key>who</Key><Value>%s</Value></Tag></TagSet></Tagging>"
        root.req("PUT", "/bklock/x", query={"tagging": ""}, body=TAG % b"x"); root.req("PUT", "/bklock/d/", query={"tagging": ""}, body=TAG % b"d")
        def attrs_of(key):
            t = root.req("GET", "/bklock/" + key, query={"tagging": ""}); lh = root.req("GET", "/bklock/" + key, query={"legal-hold": ""}); rt = root.req("GET", "/bklock/" + key, query={"retention": ""})
            gg = root.req("GET", "/bklock/" + key); lv = root.req("GET", "/bklock", query={"versions": "", "prefix": key})
            vers = sorted((x.tag, x.findtext("VersionId"), x.findtext("IsLatest")) for x in list(lv.xml().findall("Version")) + list(lv.xml().findall("DeleteMarker")) if x.findtext("Key") == key) if lv.status == 200 and lv.xml() is not None else None
            return (t.status, sorted((e.findtext("Key"), e.findtext("Value")) for e in t.xml().iter("Tag")) if t.status == 200 and t.xml() is not None else None,
                    lh.status, lh.xml().findtext("Status") if lh.status == 200 and lh.xml() is not None else None, rt.status, rt.xml().findtext("Mode") if rt.status == 200 and rt.xml() is not None else None,
                    gg.status, _h.md5(gg.body).hexdigest() if gg.status == 200 else None, vers)
        LH = b"<LegalHold><Status>ON</Status></LegalHold>"
        RET = b"<Retention><Mode>GOVERNANCE</Mode><RetainUntilDate>2031-01-01T00:00:00Z</RetainUntilDate></Retention>"
        for real, other in (("x", "x/"), ("d/", "d")):
            for opname, method, q, body in (("PutObjectTagging", "PUT", {"tagging": ""}, TAG % b"intruder"), ("DeleteObjectTagging", "DELETE", {"tagging": ""}, b""), ("GetObjectTagging", "GET", {"tagging": ""}, b""),
                                            ("PutObjectLegalHold", "PUT", {"legal-hold": ""}, LH), ("GetObjectLegalHold", "GET", {"legal-hold": ""}, b""),
                                            ("PutObjectRetention", "PUT", {"retention": ""}, RET), ("GetObjectRetention", "GET", {"retention": ""}, b""),
                                            ("DeleteObject", "DELETE", {}, b""), ("DeleteObject-by-version", "DELETE", {"versionId": "CURRENT"}, b"")):
                before = attrs_of(real)
                if q.get("versionId") == "CURRENT":
                    cur_ = [v for v in (before[8] or []) if v[2] == "true"]
                    if not cur_: continue
                    q = {"versionId": cur_[0][1]}
                hd = {"Content-MD5": base64.b64encode(_h.md5(body).digest()).decode()} if body and method == "PUT" else {}
                r = root.req(method, "/bklock/" + other, query=q, body=body, headers=hd)
                after_ = attrs_of(real)
                chk.case(("other-kind", real, other, opname), True); chk.traces += 1
                chk.count("other-kind:%s:%d" % (opname, r.status))
                row = {"stored_key": real, "request": "%s on key %r" % (opname, other), "status": r.status, "code": r.code, "attributes_before": before, "attributes_after": after_}
                rows.append(row)
                leaked = method == "GET" and r.status == 200
                if after_[6] != before[6] or after_[8] != before[8]:
                    # the stored object itself went away or got a delete marker: put it back for the remaining operations
                    for v_ in (after_[8] or []):
                        if v_[0] == "DeleteMarker": root.req("DELETE", "/bklock/" + real, query={"versionId": v_[1]})
                    if root.req("HEAD", "/bklock/" + real).status != 200:
                        root.req("PUT", "/bklock/" + real, body=b"file-x" if real == "x" else b"")
                if after_ != before or leaked:
                    chk.fail("c04:other-kind-key-%s:%s" % ("read" if leaked and after_ == before else "modified", opname),
                             "%s on the key %r (which does not exist: the stored key is %r) answered %d and %s" % (
                                 opname, other, real, r.status, "returned that object's data" if leaked and after_ == before else "changed that object's attributes from %r to %r" % (before, after_)), row)
                    # put the attributes back for the next operation
                    root.req("PUT", "/bklock/" + real, query={"tagging": ""}, body=TAG % (b"x" if real == "x" else b"d"))
                    root.req("PUT", "/bklock/" + real, query={"legal-hold": ""}, body=b"<LegalHold><Status>OFF</Status></LegalHold>")
        # ---- a version id that names no version of the key deletes nothing (a bucket whose versioning was never configured: the object is
        # its own and only "null" version)
        chk.require(root.req("PUT", "/plainbk").status == 200, "c04:setup", "CreateBucket plainbk failed")
        for how in ("DeleteObject", "DeleteObjects"):
            for vid_ in ("abc", "01ARZ3NDEKTSV4RRFFQ69G5FAV", "nul", "null/", "Null"):
                root.req("PUT", "/plainbk/keep", body=b"the only copy")
                if how == "DeleteObject": r = root.req("DELETE", "/plainbk/keep", query={"versionId": vid_})
                else: r = root.req("POST", "/plainbk", query={"delete": ""}, body=("<Delete><Object><Key>keep</Key><VersionId>%s</VersionId></Object></Delete>" % vid_).encode())
                g_ = root.req("GET", "/plainbk/keep")
                chk.case(("unknown-version-delete", how, vid_), True); chk.traces += 1; chk.count("unknown-version-delete:%s:%d" % (how, r.status))
                row = {"request": "%s of plainbk/keep with version id %r (the bucket keeps no versions)" % (how, vid_), "status": r.status, "code": r.code, "object_after": g_.status}
                rows.append(row)
                if g_.status != 200 or g_.body != b"the only copy":
                    chk.fail("c04:unknown-version-delete:" + how, "%s of the key 'keep' with the version id %r, which names no version of it, answered %d and removed the object (GET %d)" % (how, vid_, r.status, g_.status), row)
        # ---- a copy source names one key: "x/" is not the file object "x", "d" is not the directory object "d/" (CopyObject and UploadPartCopy)
        rcu = root.req("POST", "/bklock/cp-target", query={"uploads": ""}); cuid_ = rcu.xml().findtext("UploadId") if rcu.status == 200 and rcu.xml() is not None else ""
        for real, other in (("x", "x/"), ("d/", "d")):
            for opname in ("CopyObject", "UploadPartCopy"):
                if opname == "CopyObject":
                    r = root.req("PUT", "/bklock/cp-out", headers={"x-amz-copy-source": "bklock/" + other})
                    copied = root.req("HEAD", "/bklock/cp-out").status == 200
                    root.req("DELETE", "/bklock/cp-out")
                else:
                    r = root.req("PUT", "/bklock/cp-target", query={"partNumber": "1", "uploadId": cuid_}, headers={"x-amz-copy-source": "bklock/" + other})
                    copied = r.status == 200 and r.xml() is not None and r.xml().tag != "Error"
                chk.case(("other-kind-source", real, other, opname), True); chk.traces += 1; chk.count("other-kind-source:%s:%d" % (opname, r.status))
                row = {"stored_key": real, "request": "%s with the copy source %r" % (opname, other), "status": r.status, "code": r.code, "copied": copied}
                rows.append(row)
                if copied or r.status >= 500:
                    chk.fail("c04:other-kind-key-read:%s-source" % opname, "%s with the copy source %r (which does not exist: the stored key is %r) answered %d %s%s" % (
                        opname, other, real, r.status, r.code, " and copied that object's data" if copied else ""), row)
        root.req("DELETE", "/bklock/cp-target", query={"uploadId": cuid_})
        # ---- a delete removes the key it names and nothing else: the explicitly uploaded directory objects above it stay
        for dk in ("photos/", "photos/2024/"):
            root.req("PUT", "/bklock/" + dk, body=b"", headers={"x-amz-meta-kind": "album"})
        before = {dk: attrs_of(dk) for dk in ("photos/", "photos/2024/")}
        rp_ = root.req("PUT", "/bklock/photos/2024/img.jpg", body=b"jpeg")
        lv_ = root.req("GET", "/bklock", query={"versions": "", "prefix": "photos/2024/img.jpg"})
        for x in (list(lv_.xml().findall("Version")) if lv_.status == 200 and lv_.xml() is not None else []):
            root.req("DELETE", "/bklock/photos/2024/img.jpg", query={"versionId": x.findtext("VersionId")})
        rd_ = root.req("DELETE", "/bklock/photos/2024/img.jpg")
        for dk in ("photos/", "photos/2024/"):
            after_ = attrs_of(dk)
            chk.case(("delete-below-dirobj", dk), True); chk.traces += 1
            row = {"stored_key": dk, "request": "PUT and DELETE (all versions) of photos/2024/img.jpg", "status": rd_.status, "attributes_before": before[dk], "attributes_after": after_}
            rows.append(row)
            if after_ != before[dk]:
                chk.fail("c04:delete-removed-another-key", "deleting photos/2024/img.jpg (answered %d) changed the directory object %r from %r to %r" % (rd_.status, dk, before[dk], after_), row)
        # ---- a write to the file key "e" never replaces the (childless) directory object "e/"
        chk.require(root.req("PUT", "/bklock/e/", body=b"", headers={"x-amz-meta-kind": "dirobj"}).status == 200, "c04:setup", "PUT of the directory object e/ failed")
        root.req("PUT", "/bklock/e/", query={"tagging": ""}, body=TAG % b"e")
        for opname in ("PutObject", "CopyObject", "CompleteMultipartUpload"):
            before = attrs_of("e/")
            if opname == "PutObject": r = root.req("PUT", "/bklock/e", body=b"file-e")
            elif opname == "CopyObject": r = root.req("PUT", "/bklock/e", headers={"x-amz-copy-source": "bklock/x"})
            else:
                r0 = root.req("POST", "/bklock/e", query={"uploads": ""}); uid_ = r0.xml().findtext("UploadId") if r0.status == 200 and r0.xml() is not None else ""
                rp = root.req("PUT", "/bklock/e", query={"partNumber": "1", "uploadId": uid_}, body=b"part-e")
                r = root.req("POST", "/bklock/e", query={"uploadId": uid_}, body=("<CompleteMultipartUpload><Part><PartNumber>1</PartNumber><ETag>%s</ETag></Part></CompleteMultipartUpload>" % rp.headers.get("etag", "")).encode())
                root.req("DELETE", "/bklock/e", query={"uploadId": uid_})
            after_ = attrs_of("e/")
            chk.case(("other-kind", "e/", "e", opname), True); chk.traces += 1
            chk.count("other-kind:%s:%d" % (opname, r.status))
            row = {"stored_key": "e/", "request": "%s on key 'e'" % opname, "status": r.status, "code": r.code, "attributes_before": before, "attributes_after": after_}
            rows.append(row)
            if after_ != before:
                chk.fail("c04:other-kind-key-replaced:" + opname, "%s on the key 'e' answered %d %s and changed the directory object 'e/' from %r to %r" % (opname, r.status, r.code, before, after_), row)
                for v_ in (attrs_of("e")[8] or []): root.req("DELETE", "/bklock/e", query={"versionId": v_[1]})
                root.req("DELETE", "/bklock/e")
                root.req("PUT", "/bklock/e/", body=b"", headers={"x-amz-meta-kind": "dirobj"}); root.req("PUT", "/bklock/e/", query={"tagging": ""}, body=TAG % b"e")
        chk.tie("gateway still running", g.alive(), g.log_tail())
    chk.samples.extend(rows[7:10])

    # ---- the access decision of a copy, taken before the backend validates the source: the only bucket names the backend is asked
    # about are the destination and single path elements (a name like ".." would be looked up above the gateway root)
    srcs = ["bk/key", "../x", "..", "../../etc/passwd", "./x", ".", "a/../../x", "/bk/key", "/../x", "..\\x/y", "bk\x00/k", "%2e%2e/x", "..%2fx/k", "../", "./", "bk/../../x",
            ".../x", "..a/x", "a../x", "bk//k", " ../x"]
    for _ in range(60 if quick else 600):
        srcs.append("/".join(rnd.choice(["..", ".", "a", "", "bk", "...", "..b"]) for _ in range(rnd.randrange(1, 5))))
    cobs = subprocess.run([corr, "copyaccess"], input=("\n".join(n.encode("latin1").hex() or "-" for n in srcs) + "\n").encode(), stdout=subprocess.PIPE,
                          timeout=120, env=common.env()).stdout.decode().split("\n")[:len(srcs)]
    nbad = 0
    for src, o in zip(srcs, cobs):
        chk.case(("copyaccess", src), True); chk.traces += 1
        asked = [bytes.fromhex(x).decode("latin1") for x in o[len("asked="):].split(",") if x] if o.startswith("asked=") else None
        chk.count("copyaccess:%s" % ("panic" if asked is None else "asked-%d" % len(asked)))
        if asked is None:
            chk.fail("c04:copy-access-panic", "auth.VerifyObjectCopyAccess on copy source %r: %s" % (src, o), {"copy_source": src, "observed": o}); nbad += 1; continue
        for a in asked:
            if a in (".", "..") or "/" in a or "\x00" in a:
                chk.fail("c04:copy-access-looks-up-bucket:%s" % a.encode("latin1").hex(), "for the copy source %r the access decision asks the backend for the ACL of the bucket %r, "
                         "which the posix backend resolves relative to the gateway root (outside it for \"..\")" % (src, a), {"copy_source": src, "asked": asked})
                nbad += 1
    chk.tie("T2 auth.VerifyObjectCopyAccess asks the backend only about single path elements, on %d copy sources" % len(srcs), nbad == 0, "%d sources" % nbad)

    # ---- T2: the name validation helper against the model
    names = gen_names(rnd, 1200 if quick else 12000)
    obs = subprocess.run([corr, "validname"], input=("\n".join(n.encode("latin1").hex() or "-" for n in names) + "\n").encode(), stdout=subprocess.PIPE,
                         timeout=120, env=common.env()).stdout.decode().split("\n")[:len(names)]
    terms = []
    for n, o in zip(names, obs):
        chk.case(("name", n), True)
        chk.count("validname:" + o)
        terms.append("(%s, %s)" % (coq_str(n.encode("latin1")), "true" if o == "true" else "false"))
    if not built:
        return
    text = ("From Coq Require Import String List Bool.\nFrom VGW Require Import Base.GoStr Model.Paths Check.Common Check.PathCheck.\n"
            "Import ListNotations.\nOpen Scope string_scope.\n")
    text += "Definition ncases : list (string * bool) :=\n " + coq_list(terms).replace("; (", ";\n (") + ".\n"
    text += "Definition MN := Eval vm_compute in bad name_ok ncases.\nPrint MN.\n"
    rc, out = coq.run_cases("C04_cases", text)
    mn = coq.printed_list(out, "MN")
    if rc != 0 or mn is None:
        chk.tie("case file evaluates", False, out[-3000:])
        return
    for i in mn[:6]:
        nm = names[int(i)]
        segs_ = nm.split("/")
        if obs[int(i)] == "true" and (any(x in (".", "..") for x in segs_) or "" in segs_[:-1] or segs_[0] == ".sgwtmp"):
            # the Spec itself (C04_dot_segments_refused, C04_reserved_namespace_refused) condemns the name: a concrete failing input
            chk.fail("c04:name-validation-accepts-unsafe-name", "backend.IsObjectNameValid accepts the key %s (%d elements), which has a %s element" % (
                repr(nm) if len(nm) < 80 else repr(nm[:30]) + " ... " + repr(nm[-30:]), len(segs_), "'.' / '..'" if any(x in (".", "..") for x in segs_) else "reserved" if segs_[0] == ".sgwtmp" else "empty"),
                {"name_hex": nm.encode("latin1").hex()[:4000], "elements": len(segs_), "observed": obs[int(i)]})
    chk.tie("T2 the object-name validation of the gateway = Model.Paths.valid_object_name on %d names" % len(terms), not mn,
            [{"name": names[int(i)], "observed": obs[int(i)]} for i in mn[:5]])


def gen_names(rnd, n):
    segs = ["a", "b", "..", ".", "", "...", ".a", "a.", "..a", "a..", " ", "%2e%2e", "\\", "..\\", "c d", ".sgwtmp", ".sgwtmp", ".sgwtmpx", "sgwtmp"]
    out = ["", "/", "a", "a/b", "a/", "a//b", "../x", "a/../b", "a/./b", "./a", "a/..", "a/.", "..", ".", "/a", "a/b/", "a/b//", "...", "a/.../b", "a\\..\\b"]
    # names of many elements with a dot segment (or the empty one) far behind the first: every element is examined, however many
    for depth in (30, 255, 256, 300, 510, 511, 512, 513, 1023, 1024, 1025, 2000):
        for bad in ("..", ".", ""):
            out.append("a/" * depth + bad + "/x"); out.append("a/" * depth + "b/" + bad)
        out.append("a/" * depth + "x")
    while len(out) < n:
        k = "/".join(rnd.choice(segs) for _ in range(rnd.randrange(1, 6)))
        if rnd.random() < 0.2: k += "/"
        if rnd.random() < 0.1: k = "/" + k
        out.append(k)
    return out


def replay(chk, data):
    print(json.dumps(data.get("replay"), indent=1, default=str))
    return 0
