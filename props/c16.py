"""C16 — Bucket lifecycle and settings are faithful; deletion never loses data (DESIGN.md §7 C16)."""
import json, os, re, subprocess, threading
from vlib import common, coq, gobuild, gw, s3c, e2e, hooks
from vlib.common import coq_str, coq_list, coq_bool

THEOREMS = ["C16_name_rules", "C16_bad_names_refused", "C16_create_existing_changes_nothing", "C16_create_new", "C16_list_shows_exactly_owned",
            "C16_names_unique_reachable", "C16_setting_reads_back_last_written", "C16_setting_gone_after_delete", "C16_bucket_delete_forgets_settings",
            "C16_delete_only_when_empty", "C16_no_acknowledged_upload_lost"]
TARGETS = ["Properties/C16.vo", "Check/BucketCheck.vo"]
ERR = {1: "InvalidBucketName", 2: "BucketAlreadyOwnedByYou", 3: "BucketAlreadyExists", 4: "NoSuchBucket", 5: "BucketNotEmpty", 6: "NoSuchSetting"}
NOSETTING = {"NoSuchTagSet", "NoSuchBucketPolicy", "OwnershipControlsNotFoundError", "ObjectLockConfigurationNotFoundError", "NoSuchTagSetError"}
TAGDOCS = [{"a": "1"}, {"a": "2", "b": "x y"}, {"team": "storage", "env": "prod", "k3": "v=3&4"}]
def POLDOCS(bk):
    return [{"Version": "2012-10-17", "Statement": [{"Effect": "Allow", "Principal": "*", "Action": "s3:GetObject", "Resource": "arn:aws:s3:::%s/*" % bk}]},
            {"Version": "2012-10-17", "Statement": [{"Effect": "Deny", "Principal": {"AWS": ["u1"]}, "Action": ["s3:PutObject", "s3:DeleteObject"], "Resource": ["arn:aws:s3:::%s/*" % bk, "arn:aws:s3:::%s" % bk]}]}]
VERDOCS = ["Enabled", "Suspended"]


def s3_name_ok(n):
    """the naming rules, written independently of the implementation and of the model"""
    if not (3 <= len(n) <= 63): return False
    if not re.fullmatch(r"[a-z0-9.\-]+", n): return False
    if not (n[0].isalnum() and n[-1].isalnum()): return False
    if ".." in n: return False
    if re.fullmatch(r"(\d{1,3}\.){3}\d{1,3}", n): return False
    return True


def gen_names(rnd, n):
    out = ["abc", "ab", "a" * 63, "a" * 64, "my.bucket-1", "a..b", "a.-b", "-abc", "abc-", ".abc", "abc.", "Abc", "abC", "a_b", "192.168.1.1", "1.2.3.4", "1.2.3", "1.2.3.4.5", "256.1.1.1", "1234.1.1.1",
           "1.2.3.a", "", "a", "..", "...", "a b", "a/b", "ü-bucket", "xn--abc", "abc\n", "abc\x00", "a.b.c.d", "0.0.0.0", "00.00.00.00", "000.000.000.000", "1.1.1.1a"]
    alphabet = "abcxyz0189.-"
    for _ in range(n):
        k = rnd.choice([2, 3, 3, 4, 7, 15, 62, 63, 64])
        s = "".join(rnd.choice(alphabet) for _ in range(k))
        x = rnd.random()
        if x < 0.15 and s: s = s[:rnd.randrange(len(s))] + rnd.choice(["A", "_", "..", " ", "/", "é", "%"]) + s[rnd.randrange(len(s)):]
        elif x < 0.30: s = ".".join(str(rnd.choice([0, 1, 25, 255, 256, 999, 1000])) for _ in range(rnd.choice([3, 4, 4, 4, 5])))
        out.append(s)
    return out


def names_part(chk, built):
    rnd = chk.rnd
    tool = gobuild.build_tool("corr")
    names = gen_names(rnd, 2500 if chk.tier == "quick" else 20000)
    p = subprocess.run([tool, "bucketname"], input=("\n".join("_" + n.encode("utf-8", "surrogateescape").hex() for n in names) + "\n").encode(), stdout=subprocess.PIPE, stderr=subprocess.PIPE, env=common.env(), timeout=120)
    outs = [l for l in p.stdout.decode("latin1").splitlines() if l in ("0", "1")]      # (the function logs to stdout as well)
    if p.returncode != 0 or len(outs) != len(names):
        chk.tie("corr bucketname ran", False, p.stderr.decode()[-800:]); return
    terms = []
    for n, o in zip(names, outs):
        real = o == "1"
        chk.case(("name", n), True); chk.count("name:%s:%s" % ("valid" if s3_name_ok(n) else "invalid", "accepted" if real else "refused"))
        if real and not s3_name_ok(n):
            cls = "adjacent-periods" if ".." in n else "ip-shaped" if re.fullmatch(r"[\d.]+", n) else "charset" if not re.fullmatch(r"[a-z0-9.\-]+", n) else "ends" if n and not (n[0].isalnum() and n[-1].isalnum()) else "length"
            chk.fail("c16:name-accepted:" + cls, "IsValidBucketName accepts %r, which is outside the S3 naming rules (%s)" % (n, cls), {"name": n})
        if not real and s3_name_ok(n):
            chk.fail("c16:name-refused", "IsValidBucketName refuses %r, which is inside the S3 naming rules" % n, {"name": n})
        if all(ord(c) < 128 for c in n):
            terms.append("(%s, %s)" % (coq_str(n), coq_bool(real)))
    if not built:
        return
    text = ("From Coq Require Import String List Bool NArith.\nFrom VGW Require Import Base.Bytes Base.GoStr Model.Bucket Check.Common Check.BucketCheck.\nImport ListNotations.\nOpen Scope string_scope.\n")
    text += "Definition ncases : list (string * bool) :=\n " + coq_list(terms).replace("); (", ");\n (") + ".\nDefinition MN := Eval vm_compute in bad name_ok ncases.\nPrint MN.\n"
    rc, out = coq.run_cases("C16_names", text)
    mn = coq.printed_list(out, "MN")
    if rc != 0 or mn is None:
        chk.tie("name case file evaluates", False, out[-2000:]); return
    chk.tie("T2 utils.IsValidBucketName = Model.Bucket.valid_bucket_name on %d names" % len(terms), not mn, [terms[int(i)] for i in mn[:6]])


def canon_tags(r):
    return {t.findtext("Key"): t.findtext("Value") for t in r.xml().iter("Tag")} if r.status == 200 and r.xml() is not None else None


def table_histories(chk, gwbin, built):
    rnd = chk.rnd
    n_hist = 14 if chk.tier == "quick" else 150
    hists = []
    for label, cfg, hbase, nh in (("xattr", {"iam": True, "versioning": True}, 0, n_hist), ("sidecar", {"iam": True, "versioning": True, "meta": "sidecar"}, n_hist, max(n_hist // 3, 4))):
        with gw.Site(cfg, name="c16t") as site:
            g = site.gateway(gwbin)
            R = s3c.Client(g.port, "root", "rootsecret")
            ok = True
            for acc, role in (("adm", "admin"), ("u1", "userplus"), ("u2", "userplus")):
                ok &= R.req("PATCH", "/create-user", body=("<Account><Access>%s</Access><Secret>%s-secret</Secret><Role>%s</Role><UserID>0</UserID><GroupID>0</GroupID></Account>" % (acc, acc, role)).encode()).status in (200, 201)
            chk.require(ok, "c16:setup", "creating the accounts failed")
            callers = ["root", "adm", "u1", "u2"]
            def client(name):
                return s3c.Client(g.port, name, "rootsecret" if name == "root" else name + "-secret")
            for h in range(hbase, hbase + nh):
                names = ["h%03d-a" % h, "h%03d.b" % h, "h%03d-c-x" % h, "H%03dBad" % h, "h%03d..x" % h]
                ops, obs, text = [], [], []
                docs = {}           # canonical document (json text) -> id
                live_objs = {n: [] for n in names}
                nobj = [0]
                def doc_id(kind, canon):
                    k = json.dumps([kind, canon], sort_keys=True)
                    return docs.setdefault(k, len(docs))
                def rec(c, t, o):
                    ops.append(c); obs.append(o); text.append(t + " -> " + str(o))
                for _ in range(rnd.randint(25, 45)):
                    if rnd.random() < 0.04:
                        g.restart(); R = s3c.Client(g.port, "root", "rootsecret"); text.append("(gateway restarted)") if False else None
                    n = rnd.choice(names[:3] if rnd.random() < 0.9 else names); x = rnd.random()
                    if x < 0.16:
                        who = rnd.choice(callers); r = client(who).req("PUT", "/" + n)
                        rec("Create %s %d" % (coq_str(n), callers.index(who)), "create %s by %s" % (n, who), ("ok",) if r.status == 200 else ("err", r.code))
                    elif x < 0.26:
                        r = R.req("DELETE", "/" + n)
                        rec("Delete %s" % coq_str(n), "delete-bucket %s" % n, ("ok",) if r.status == 204 else ("err", r.code))
                        if r.status == 204: live_objs[n] = []
                    elif x < 0.44:
                        kind = rnd.choice([0, 0, 1, 3])
                        if kind == 0:
                            d = rnd.choice(TAGDOCS); body = "<Tagging><TagSet>" + "".join("<Tag><Key>%s</Key><Value>%s</Value></Tag>" % (k, v.replace("&", "&amp;")) for k, v in d.items()) + "</TagSet></Tagging>"
                            r = R.req("PUT", "/" + n, query={"tagging": ""}, body=body.encode()); canon = d
                        elif kind == 1:
                            d = rnd.choice(POLDOCS(n)); r = R.req("PUT", "/" + n, query={"policy": ""}, body=json.dumps(d).encode()); canon = d
                        else:
                            d = rnd.choice(VERDOCS); r = R.req("PUT", "/" + n, query={"versioning": ""}, body=("<VersioningConfiguration><Status>%s</Status></VersioningConfiguration>" % d).encode()); canon = d
                        rec("PutSetting %s %d %d" % (coq_str(n), kind, doc_id(kind, canon)), "put %s of %s := doc#%d" % (["tagging", "policy", "", "versioning"][kind], n, doc_id(kind, canon)),
                            ("ok",) if r.status in (200, 204) else ("err", r.code))
                    elif x < 0.62:
                        kind = rnd.choice([0, 0, 1, 3])
                        r = R.req("GET", "/" + n, query={["tagging", "policy", "", "versioning"][kind]: ""})
                        if r.status == 200:
                            if kind == 0: canon = canon_tags(r)
                            elif kind == 1:
                                try: canon = json.loads(r.body)
                                except ValueError: canon = "unparseable"
                            else:
                                canon = r.xml().findtext("Status") if r.xml() is not None else None
                            o = ("doc", doc_id(kind, canon) if json.dumps([kind, canon], sort_keys=True) in docs else -1) if canon not in (None, "", {}) else ("err", "NoSuchSetting")
                        else:
                            o = ("err", "NoSuchSetting" if r.code in NOSETTING else r.code)
                        rec("GetSetting %s %d" % (coq_str(n), kind), "get %s of %s" % (["tagging", "policy", "", "versioning"][kind], n), o)
                    elif x < 0.70:
                        kind = rnd.choice([0, 1])
                        r = R.req("DELETE", "/" + n, query={["tagging", "policy"][kind]: ""})
                        rec("DelSetting %s %d" % (coq_str(n), kind), "delete %s of %s" % (["tagging", "policy"][kind], n), ("ok",) if r.status in (200, 204) else ("err", r.code))
                    elif x < 0.80:
                        # some keys name the gateway's bookkeeping directory: refusing them is no step of the bucket table, but an
                        # acknowledged one is an object of the bucket like any other (DeleteBucket has to see it)
                        reserved = rnd.random() < 0.15
                        nobj[0] += 1; key = (rnd.choice([".sgwtmp/obj%d", ".sgwtmp/multipart/obj%d"]) if reserved else "obj%d") % nobj[0]
                        r = R.req("PUT", "/%s/%s" % (n, key), body=b"x")
                        chk.count("table-put:%s:%d" % ("reserved-name" if reserved else "plain", r.status))
                        if not (reserved and 400 <= r.status < 500 and r.code not in ("NoSuchBucket",)):
                            rec("PutObject %s" % coq_str(n), "put-object %s/%s" % (n, key), ("ok",) if r.status == 200 else ("err", r.code))
                        if r.status == 200: live_objs[n].append(key)
                    elif x < 0.88:
                        if live_objs[n]:
                            key = live_objs[n].pop()
                            # (all versions: the bucket may be versioned)
                            vs = R.req("GET", "/" + n, query={"versions": "", "prefix": key})
                            r = R.req("DELETE", "/%s/%s" % (n, key))
                            if vs.status == 200 and vs.xml() is not None:
                                for el in list(vs.xml().findall("Version")) + list(vs.xml().findall("DeleteMarker")):
                                    R.req("DELETE", "/%s/%s" % (n, key), query={"versionId": el.findtext("VersionId")})
                                lv = R.req("GET", "/" + n, query={"versions": "", "prefix": key})
                                for el in (list(lv.xml().findall("Version")) + list(lv.xml().findall("DeleteMarker"))) if lv.status == 200 and lv.xml() is not None else []:
                                    R.req("DELETE", "/%s/%s" % (n, key), query={"versionId": el.findtext("VersionId")})
                            rec("DelObject %s" % coq_str(n), "delete-object %s/%s" % (n, key), ("ok",) if r.status == 204 else ("err", r.code))
                    else:
                        who = rnd.choice(callers); r = client(who).req("GET", "/")
                        got = [b.findtext("Name") for b in r.xml().iter("Bucket")] if r.status == 200 and r.xml() is not None else None
                        mine = sorted(names.index(x_) for x_ in (got or []) if x_ in names)
                        rec("ListBuckets %d %s" % (callers.index(who), coq_bool(who in ("root", "adm"))), "list-buckets by %s" % who, ("names", mine) if got is not None else ("err", r.code))
                    chk.traces += 1
                hists.append((names, ops, obs, text))
                chk.case(("table", tuple(ops)), True)
                for n in names[:3]:
                    import shutil
                    shutil.rmtree(os.path.join(site.root, n), ignore_errors=True); shutil.rmtree(os.path.join(site.verdir, n), ignore_errors=True)
            chk.tie("gateway still running after the bucket histories (%s)" % label, g.alive(), g.log_tail())
    if not built:
        return
    text = ("From Coq Require Import String List ZArith Bool.\nFrom VGW Require Import Base.GoStr Model.Bucket Check.BucketCheck.\nImport ListNotations.\nOpen Scope string_scope.\n")
    text += "Definition progs : list (list string * list op) :=\n " + coq_list(["(%s, %s)" % (coq_list([coq_str(n) for n in names]), coq_list(ops)) for names, ops, _, _ in hists]).replace("]); ([", "]);\n ([") + ".\n"
    text += "Definition OUT := Eval vm_compute in map (fun p => run_enc (fst p) (snd p)) progs.\nPrint OUT.\n"
    rc, out = coq.run_cases("C16_cases", text)
    res = coq.printed_nested(out, "OUT")
    if rc != 0 or res is None or len(res) != len(hists):
        chk.tie("case file evaluates", False, out[-3000:]); return
    nbad = 0
    for hi, ((names, ops, obs, txt), encs) in enumerate(zip(hists, res)):
        for i, (o, e) in enumerate(zip(obs, encs)):
            m = ("ok",) if e[0] == 1 else ("err", ERR[e[1]]) if e[0] == 0 else ("doc", e[1]) if e[0] == 2 else ("names", sorted(e[1:]))
            if tuple(o) != tuple(m):
                chk.fail("c16:%s:%s" % (ops[i].split(" ")[0], (o[1] if o[0] == "err" else o[0]) if isinstance(o[1] if len(o) > 1 else "", str) else o[0]),
                         "step %d (%s): the gateway answered %s, the bucket table requires %s [history: %s]" % (i, txt[i].split(" -> ")[0], o, m, "; ".join(t.split(" -> ")[0] for t in txt[max(0, i - 10):i])),
                         {"history": txt[:i + 1], "gateway": repr(o), "required": repr(m)})
                nbad += 1; break
    chk.tie("T3 bucket programs: every answer of the real gateway = Model.Bucket.run on %d programs (%d steps)" % (len(hists), sum(len(h[1]) for h in hists)), nbad == 0, "%d programs disagree" % nbad)
    chk.samples.append({"program": hists[0][3][:10]})


def settings_readback(chk, gwbin, label="xattr", cfg=None):
    """every setting kind x every valid document: read back as written, through a restart, gone once deleted; create-on-existing changes nothing"""
    with gw.Site(cfg or {"iam": True, "versioning": True}, name="c16s") as site:
        g = site.gateway(gwbin)
        R = s3c.Client(g.port, "root", "rootsecret")
        R.req("PATCH", "/create-user", body=b"<Account><Access>u1</Access><Secret>u1-secret</Secret><Role>userplus</Role><UserID>0</UserID><GroupID>0</GroupID></Account>")
        R.req("PATCH", "/create-user", body=b"<Account><Access>u2</Access><Secret>u2-secret</Secret><Role>userplus</Role><UserID>0</UserID><GroupID>0</GroupID></Account>")
        R.req("PATCH", "/create-user", body=b"<Account><Access>adm</Access><Secret>adm-secret</Secret><Role>admin</Role><UserID>0</UserID><GroupID>0</GroupID></Account>")
        U1, U2 = s3c.Client(g.port, "u1", "u1-secret"), s3c.Client(g.port, "u2", "u2-secret")
        chk.require(U1.req("PUT", "/set-bkt", headers={"x-amz-bucket-object-lock-enabled": "true"}).status == 200, "c16:setup", "CreateBucket by u1 failed")
        bk = "set-bkt"
        def restart():
            nonlocal R, U1, U2
            g.restart(); R = s3c.Client(g.port, "root", "rootsecret"); U1, U2 = s3c.Client(g.port, "u1", "u1-secret"), s3c.Client(g.port, "u2", "u2-secret")
        OWN = ["BucketOwnerPreferred", "ObjectWriter", "BucketOwnerEnforced"]
        LOCKS = [("GOVERNANCE", "Days", 3), ("COMPLIANCE", "Years", 1), ("COMPLIANCE", "Days", 30)]
        kinds = []
        for d in TAGDOCS + [{"k%d" % i: "v%d" % i for i in range(10)}, {"uni": "ü ö", "sp ace": "a+b"}]:
            body = "<Tagging><TagSet>" + "".join("<Tag><Key>%s</Key><Value>%s</Value></Tag>" % (k, v.replace("&", "&amp;")) for k, v in d.items()) + "</TagSet></Tagging>"
            kinds.append(("tagging", d, lambda b=body: R.req("PUT", "/" + bk, query={"tagging": ""}, body=b.encode()), lambda: canon_tags(R.req("GET", "/" + bk, query={"tagging": ""})), True))
        for d in POLDOCS(bk):
            kinds.append(("policy", d, lambda b=d: R.req("PUT", "/" + bk, query={"policy": ""}, body=json.dumps(b).encode()),
                          lambda: (lambda r: json.loads(r.body) if r.status == 200 else None)(R.req("GET", "/" + bk, query={"policy": ""})), True))
        for d in OWN:
            kinds.append(("ownershipControls", d, lambda b=d: R.req("PUT", "/" + bk, query={"ownershipControls": ""}, body=("<OwnershipControls><Rule><ObjectOwnership>%s</ObjectOwnership></Rule></OwnershipControls>" % b).encode()),
                          lambda: (lambda r: r.xml().findtext("Rule/ObjectOwnership") if r.status == 200 and r.xml() is not None else None)(R.req("GET", "/" + bk, query={"ownershipControls": ""})), True))
        for mode, unit, nn in LOCKS:
            d = (mode, unit, nn)
            body = "<ObjectLockConfiguration><ObjectLockEnabled>Enabled</ObjectLockEnabled><Rule><DefaultRetention><Mode>%s</Mode><%s>%d</%s></DefaultRetention></Rule></ObjectLockConfiguration>" % (mode, unit, nn, unit)
            kinds.append(("object-lock", d, lambda b=body: R.req("PUT", "/" + bk, query={"object-lock": ""}, body=b.encode()),
                          lambda: (lambda r: (r.xml().findtext("Rule/DefaultRetention/Mode"), "Days" if r.xml().findtext("Rule/DefaultRetention/Days") else "Years",
                                              int(r.xml().findtext("Rule/DefaultRetention/Days") or r.xml().findtext("Rule/DefaultRetention/Years") or 0)) if r.status == 200 and r.xml() is not None and r.xml().find("Rule/DefaultRetention") is not None else None)(R.req("GET", "/" + bk, query={"object-lock": ""})), False))
        # ACL: grants by header on a bucket whose ownership allows ACLs
        R.req("PUT", "/" + bk, query={"ownershipControls": ""}, body=b"<OwnershipControls><Rule><ObjectOwnership>BucketOwnerPreferred</ObjectOwnership></Rule></OwnershipControls>")
        for hd in ({"x-amz-grant-read": "u2"}, {"x-amz-grant-full-control": "u2", "x-amz-grant-read-acp": "adm"}, {"x-amz-acl": "public-read"}, {"x-amz-acl": "private"}):
            def getacl():
                r = R.req("GET", "/" + bk, query={"acl": ""})
                if r.status != 200 or r.xml() is None: return None
                return (r.xml().findtext("Owner/ID"), sorted((gr.findtext("Grantee/ID") or gr.findtext("Grantee/URI") or "", gr.findtext("Permission")) for gr in r.xml().iter("Grant")))
            want = {"x-amz-grant-read": [("u2", "READ")], "x-amz-grant-full-control": [("adm", "READ_ACP"), ("u2", "FULL_CONTROL")]}.get(sorted(hd)[0]) if "x-amz-acl" not in hd else None
            r = R.req("PUT", "/" + bk, query={"acl": ""}, headers=hd)
            got = getacl(); restart(); got2 = getacl()
            chk.case(("acl", tuple(sorted(hd.items()))), True); chk.traces += 1
            if r.status in (200, 204):
                if got != got2: chk.fail("c16:acl-restart", "the bucket ACL set with %r reads %r before and %r after a restart" % (hd, got, got2), {"headers": hd})
                if got is None or got[0] != "u1": chk.fail("c16:acl-owner", "after PutBucketAcl %r the owner reads %r (created by u1)" % (hd, got), {"headers": hd})
                elif want is not None and [x for x in got[1] if x[0] != "u1"] != want:
                    chk.fail("c16:acl-readback", "PutBucketAcl %r reads back grants %r" % (hd, got[1]), {"headers": hd})
        # ACL documents in the request body: several grants, and one grantee holding two permissions
        def acl_doc(grants):
            return ("<AccessControlPolicy><Owner><ID>u1</ID></Owner><AccessControlList>" + "".join(
                '<Grant><Grantee xmlns:xsi="http://www.w3.org/2001/XMLSchema-instance" xsi:type="CanonicalUser"><ID>%s</ID></Grantee><Permission>%s</Permission></Grant>' % g_ for g_ in grants)
                + "</AccessControlList></AccessControlPolicy>").encode()
        for grants in ([("u2", "READ")], [("u2", "READ"), ("adm", "WRITE")], [("u2", "READ"), ("u2", "WRITE")], [("u2", "READ_ACP"), ("adm", "READ"), ("u2", "WRITE_ACP")]):
            r = R.req("PUT", "/" + bk, query={"acl": ""}, body=acl_doc(grants))
            got = getacl(); restart(); got2 = getacl()
            chk.case(("acl-body", tuple(grants)), True); chk.traces += 1; chk.count("acl-body:%d" % r.status)
            if r.status in (200, 204):
                if got is None or [x for x in got[1] if x[0] != "u1"] != sorted(grants) or got2 != got:
                    chk.fail("c16:acl-body-readback", "PutBucketAcl with the grants %r in the body reads back %r (after a restart %r)" % (grants, got and got[1], got2 and got2[1]), {"grants": grants})
        R.req("PUT", "/" + bk, query={"acl": ""}, headers={"x-amz-acl": "private"})
        # grants given at creation: the ACL of the new bucket is the ACL that was written
        for gi, ghd in enumerate(({"x-amz-grant-write": "u2"}, {"x-amz-grant-write": "u2", "x-amz-grant-write-acp": "adm"}, {"x-amz-grant-read": "adm", "x-amz-grant-write": "u2", "x-amz-grant-read-acp": "u2"},
                                  {"x-amz-grant-full-control": "adm", "x-amz-grant-write-acp": "u2"})):
            gb = "grant-bkt-%d" % gi
            rc_ = U1.req("PUT", "/" + gb, headers=dict(ghd, **{"x-amz-object-ownership": "BucketOwnerPreferred"}))
            ra_ = R.req("GET", "/" + gb, query={"acl": ""})
            gotg = sorted((gr.findtext("Grantee/ID") or "", gr.findtext("Permission")) for gr in ra_.xml().iter("Grant")) if ra_.status == 200 and ra_.xml() is not None else None
            wantg = sorted((v_, {"x-amz-grant-write": "WRITE", "x-amz-grant-write-acp": "WRITE_ACP", "x-amz-grant-read": "READ", "x-amz-grant-read-acp": "READ_ACP", "x-amz-grant-full-control": "FULL_CONTROL"}[h_]) for h_, v_ in ghd.items())
            chk.case(("create-with-grants", label, tuple(sorted(ghd))), True); chk.traces += 1; chk.count("create-with-grants:%d" % rc_.status)
            if rc_.status == 200 and (gotg is None or [x for x in gotg if x[0] != "u1"] != wantg):
                chk.fail("c16:acl-readback:create-bucket-grants", "CreateBucket with %r reads back the grants %r" % (ghd, gotg), {"headers": ghd, "grants_read": gotg, "grants_written": wantg})
        R.req("PUT", "/" + bk, query={"ownershipControls": ""}, body=b"<OwnershipControls><Rule><ObjectOwnership>BucketOwnerPreferred</ObjectOwnership></Rule></OwnershipControls>")
        for kind, doc, put, get, deletable in kinds:
            r = put(); got = get(); restart(); got2 = get()
            chk.case(("setting", kind, json.dumps(doc, sort_keys=True, default=str)), True); chk.traces += 1; chk.count("setting:%s:%d" % (kind, r.status))
            if r.status not in (200, 204):
                chk.fail("c16:setting-refused:" + kind, "a valid %s document %r is refused: %d %s" % (kind, doc, r.status, r.code), {"kind": kind, "doc": doc}); continue
            want = tuple(doc) if isinstance(doc, tuple) else doc
            if got != want: chk.fail("c16:setting-readback:" + kind, "%s written as %r reads back as %r" % (kind, doc, got), {"kind": kind, "doc": doc, "got": got})
            elif got2 != want: chk.fail("c16:setting-restart:" + kind, "%s written as %r reads back as %r after a restart" % (kind, doc, got2), {"kind": kind, "doc": doc, "got": got2})
            if deletable:
                rd = R.req("DELETE", "/" + bk, query={kind: ""}); gone = get(); restart(); gone2 = get()
                if rd.status in (200, 204) and (gone not in (None, {}) or gone2 not in (None, {})):
                    chk.fail("c16:setting-survives-delete:" + kind, "%s still reads %r / %r after it was deleted" % (kind, gone, gone2), {"kind": kind})
        # a setting replaced (not deleted first) by a shorter document reads back as the shorter document, nothing of the longer one
        by_kind = {}
        for kind, doc, put, get, deletable in kinds:
            by_kind.setdefault(kind, []).append((len(json.dumps(doc, default=str)), doc, put, get))
        for kind, lst in by_kind.items():
            lst.sort(key=lambda x: x[0])
            (l1, short, put_s, get_), (l2, long_, put_l, _) = lst[0], lst[-1]
            if l1 == l2: continue
            for _round in range(2):
                rl = put_l(); gl = get_(); rs = put_s(); gs = get_(); restart(); gs2 = get_()
                chk.case(("setting-shrinks", label, kind, _round), True); chk.traces += 1; chk.count("setting-shrinks:%s:%s:%d/%d" % (label, kind, rl.status, rs.status))
                want_s, want_l = (tuple(short) if isinstance(short, tuple) else short), (tuple(long_) if isinstance(long_, tuple) else long_)
                if rl.status in (200, 204) and rs.status in (200, 204) and (gl != want_l or gs != want_s or gs2 != want_s):
                    chk.fail("c16:setting-readback-after-replace:%s:%s" % (label, kind), "[%s] %s written as %r (read back %r) and then replaced by the shorter %r reads back as %r, after a restart %r" % (
                        label, kind, long_, gl, short, gs, gs2), {"config": label, "kind": kind, "long": long_, "short": short, "got_long": gl, "got_short": gs, "got_short_after_restart": gs2})
                    break
        for grants_l, grants_s in (([("u2", "READ_ACP"), ("adm", "READ"), ("u2", "WRITE_ACP"), ("adm", "WRITE")], [("u2", "READ")]),):
            R.req("PUT", "/" + bk, query={"acl": ""}, body=acl_doc(grants_l)); r = R.req("PUT", "/" + bk, query={"acl": ""}, body=acl_doc(grants_s))
            got = getacl(); restart(); got2 = getacl()
            chk.case(("acl-shrinks", label), True); chk.traces += 1
            if r.status in (200, 204) and (got is None or [x for x in got[1] if x[0] != "u1"] != sorted(grants_s) or got2 != got):
                chk.fail("c16:setting-readback-after-replace:%s:acl" % label, "[%s] a bucket ACL with the grants %r replaced by %r reads back %r (after a restart %r)" % (label, grants_l, grants_s, got, got2), {"config": label})
        # create on an existing bucket: refused, nothing changes
        R.req("PUT", "/" + bk, query={"tagging": ""}, body=b"<Tagging><TagSet><Tag><Key>keep</Key><Value>me</Value></Tag></TagSet></Tagging>")
        R.req("PUT", "/%s/content" % bk, body=b"kept")
        before = e2e.snapshot(os.path.join(site.root, bk))
        for who, cl, hd in (("u2", U2, {}), ("root", R, {}), ("u1", U1, {}), ("u2", U2, {"x-amz-acl": "public-read-write", "x-amz-object-ownership": "ObjectWriter"}), ("u1", U1, {"x-amz-bucket-object-lock-enabled": "true", "x-amz-grant-full-control": "u2"})):
            r = cl.req("PUT", "/" + bk, headers=hd)
            after = e2e.snapshot(os.path.join(site.root, bk))
            chk.case(("create-existing", who, tuple(sorted(hd))), True); chk.traces += 1
            if r.status == 200 or e2e.snap_diff(before, after):
                chk.fail("c16:create-existing:" + who, "CreateBucket of the existing bucket by %s with headers %r answered %d %s and changed: %s" % (who, hd, r.status, r.code, e2e.snap_diff(before, after)), {"caller": who, "headers": hd})
                before = after
        # a few invalid names end to end
        for n in ["Ab-upper", "a..b", "ab", "x" * 64, "-start", "end-", "1.2.3.4", "under_score"]:
            r = R.req("PUT", "/" + n)
            chk.case(("create-invalid", n), True); chk.traces += 1
            if r.status == 200 or os.path.exists(os.path.join(site.root, n)):
                chk.fail("c16:invalid-name-created", "CreateBucket %r answered %d %s; directory exists: %s" % (n, r.status, r.code, os.path.exists(os.path.join(site.root, n))), {"name": n})
        # objects whose keys look like the names the metadata store uses for the bucket's own settings: the settings of the bucket
        # and those objects do not get in each other's way
        mb = "set-meta"
        chk.require(U1.req("PUT", "/" + mb).status == 200, "c16:setup", "CreateBucket set-meta failed")
        okeys = ["meta/policy", "meta/X-Amz-Tagging", "meta/acl", "policy", "meta/meta/policy"]
        stored_ = {}
        for k_ in okeys:
            ro = R.req("PUT", "/%s/%s" % (mb, k_), body=("object " + k_).encode())
            if ro.status == 200: stored_[k_] = ("object " + k_).encode()
        pol = POLDOCS(mb)[0]
        tagb = b"<Tagging><TagSet><Tag><Key>k</Key><Value>v</Value></Tag></TagSet></Tagging>"
        rp_ = R.req("PUT", "/" + mb, query={"policy": ""}, body=json.dumps(pol).encode()); gp_ = R.req("GET", "/" + mb, query={"policy": ""})
        rt_ = R.req("PUT", "/" + mb, query={"tagging": ""}, body=tagb); gt_ = canon_tags(R.req("GET", "/" + mb, query={"tagging": ""}))
        ga_ = R.req("GET", "/" + mb, query={"acl": ""})
        objs_ = {k_: (lambda r: r.body if r.status == 200 else r.status)(R.req("GET", "/%s/%s" % (mb, k_))) for k_ in stored_}
        row = {"config": label, "objects_acknowledged": sorted(stored_), "PutBucketPolicy": (rp_.status, rp_.code), "GetBucketPolicy": gp_.status, "PutBucketTagging": (rt_.status, rt_.code),
               "tags_read": gt_, "GetBucketAcl": ga_.status, "objects_read": {k_: (v_ if isinstance(v_, int) else v_.decode()) for k_, v_ in objs_.items()}}
        chk.case(("setting-vs-object-key", label), True); chk.traces += 1; chk.count("setting-vs-object-key:%s:%d/%d" % (label, rp_.status, rt_.status))
        bad = []
        if rp_.status not in (200, 204) or gp_.status != 200 or json.loads(gp_.body) != pol: bad.append("PutBucketPolicy %d %s, GetBucketPolicy %d" % (rp_.status, rp_.code, gp_.status))
        if rt_.status not in (200, 204) or gt_ != {"k": "v"}: bad.append("PutBucketTagging %d %s, tags read %r" % (rt_.status, rt_.code, gt_))
        if ga_.status != 200: bad.append("GetBucketAcl %d" % ga_.status)
        bad += ["object %s reads %r" % (k_, v_) for k_, v_ in objs_.items() if v_ != stored_[k_]]
        if bad:
            chk.fail("c16:setting-vs-object-key:%s" % label, "[%s] in a bucket holding the acknowledged objects %s: %s" % (label, sorted(stored_), "; ".join(bad)), row)
        chk.tie("gateway still running after the settings sweep", g.alive(), g.log_tail())


def recreate_fresh(chk, gwbin):
    """a deleted bucket is gone with everything that was set on it: a later bucket of the same name starts from the defaults
    (both metadata stores: xattrs die with the directory, the sidecar store keeps attributes by name)"""
    for label, cfg in (("xattr", {"iam": True, "versioning": True}), ("sidecar", {"iam": True, "versioning": True, "meta": "sidecar"}),
                       ("xattr-noversioning", {"iam": True}), ("sidecar-noversioning", {"iam": True, "meta": "sidecar"})):
        with gw.Site(cfg, name="c16f") as site:
            g = site.gateway(gwbin)
            R = s3c.Client(g.port, "root", "rootsecret")
            R.req("PATCH", "/create-user", body=b"<Account><Access>u1</Access><Secret>u1-secret</Secret><Role>userplus</Role><UserID>0</UserID><GroupID>0</GroupID></Account>")
            U1 = s3c.Client(g.port, "u1", "u1-secret")
            bk = "again-" + label
            chk.require(U1.req("PUT", "/" + bk).status == 200, "c16:setup", "CreateBucket failed (%s)" % label)
            sets = [R.req("PUT", "/" + bk, query={"tagging": ""}, body=b"<Tagging><TagSet><Tag><Key>old</Key><Value>life</Value></Tag></TagSet></Tagging>").status,
                    R.req("PUT", "/" + bk, query={"policy": ""}, body=('{"Statement":[{"Effect":"Allow","Principal":"*","Action":"s3:GetObject","Resource":"arn:aws:s3:::%s/*"}]}' % bk).encode()).status,
                    R.req("PUT", "/" + bk, query={"versioning": ""}, body=b"<VersioningConfiguration><Status>Enabled</Status></VersioningConfiguration>").status,
                    R.req("PUT", "/" + bk, query={"ownershipControls": ""}, body=b"<OwnershipControls><Rule><ObjectOwnership>BucketOwnerPreferred</ObjectOwnership></Rule></OwnershipControls>").status,
                    R.req("PUT", "/" + bk, query={"acl": ""}, headers={"x-amz-acl": "public-read"}).status]
            d = R.req("DELETE", "/" + bk)
            c = R.req("PUT", "/" + bk)            # re-created by another account
            left = []
            t = R.req("GET", "/" + bk, query={"tagging": ""});
            if t.status == 200 and b"<Tag>" in (t.body or b""): left.append("tags %r" % t.body[-90:])
            pl = R.req("GET", "/" + bk, query={"policy": ""})
            if pl.status == 200: left.append("policy %r" % pl.body[:80])
            v = R.req("GET", "/" + bk, query={"versioning": ""})
            if b"Enabled" in (v.body or b""): left.append("versioning Enabled")
            o = R.req("GET", "/" + bk, query={"ownershipControls": ""})
            if b"BucketOwnerPreferred" in (o.body or b""): left.append("ownership BucketOwnerPreferred")
            a = R.req("GET", "/" + bk, query={"acl": ""})
            if b"AllUsers" in (a.body or b"") or b"<ID>u1</ID>" in (a.body or b""): left.append("ACL of the deleted bucket (%r)" % (a.body or b"")[-160:])
            chk.case(("recreate", label), True); chk.traces += 1; chk.count("recreate:%s:%s" % (label, "fresh" if not left else "inherited"))
            if d.status == 204 and c.status == 200 and left:
                chk.fail("c16:recreated-bucket-inherits:" + label, "[%s] a bucket deleted and created again under the same name still has: %s" % (label, "; ".join(left)),
                         {"store": label, "set_statuses": sets, "delete": d.status, "create": c.status, "left_over": left})
            elif d.status != 204 or c.status != 200:
                chk.tie("[%s] delete and re-create of an empty bucket succeed" % label, False, "%s / %s" % (d, c))
            chk.tie("gateway still running after the re-create scenario (%s)" % label, g.alive(), g.log_tail())


def races(chk, gwbin):
    rnd = chk.rnd
    with gw.Site({"iam": False}, name="c16r") as site:
        hk = hooks.Hooks(site.base)
        g = site.gateway(gwbin, extra_env=hk.env())
        A, B = s3c.Client(g.port, "root", "rootsecret"), s3c.Client(g.port, "root", "rootsecret")
        n = [0]
        def fresh():
            n[0] += 1; bk = "race%04d" % n[0]
            chk.require(A.req("PUT", "/" + bk).status == 200, "c16:setup", "CreateBucket failed"); return bk
        def verdict(name, bk, key, up, dl, parked):
            get = A.req("GET", "/%s/%s" % (bk, key)); head = A.req("HEAD", "/" + bk)
            listed = bk in (A.req("GET", "/").body or b"").decode("latin1")
            row = {"schedule": name, "upload": (up.status, up.code), "delete_bucket": (dl.status, dl.code) if dl is not None else None, "get": (get.status, get.code), "head_bucket": head.status, "listed": listed, "parked": parked}
            chk.case(("race", name, n[0] if name.startswith("stress") else 0), True); chk.traces += 1
            chk.count("race:%s:upload=%d:delete=%s" % (name.split("#")[0], up.status, dl.status if dl is not None else None))
            upok = up.status == 200 and (up.xml() is None or up.xml().tag != "Error")
            if upok and get.status != 200 and not name.startswith("create-multipart"):        # (an initiated upload is not an object yet)
                chk.fail("c16:acknowledged-upload-lost:" + name.split("#")[0], "schedule %s: the upload of %s/%s was acknowledged (%d), DeleteBucket answered %s, and the object now reads %d %s" % (
                    name, bk, key, up.status, row["delete_bucket"], get.status, get.code), row)
            if dl is not None and dl.status == 204 and (head.status == 200 or listed):
                chk.fail("c16:deleted-bucket-exists:" + name.split("#")[0], "schedule %s: DeleteBucket of %s was acknowledged (204) but the bucket exists afterwards (HEAD %d, listed %s)" % (name, bk, head.status, listed), row)
            if not parked and not name.startswith("stress"):
                chk.tie("hook schedule %s reached its yield point" % name, False, row)
            return row
        # S1: DeleteBucket parked after its emptiness check; an upload completes meanwhile
        bk = fresh(); dl, up, parked = hooks.held(hk, "posix.deletebucket.checked", lambda: A.req("DELETE", "/" + bk), lambda: B.req("PUT", "/%s/obj" % bk, body=b"data"))
        chk.samples.append(verdict("delete-checked|put|delete-removes", bk, "obj", up, dl, parked))
        bk = fresh(); dl, up, parked = hooks.held(hk, "posix.deletebucket.checked", lambda: A.req("DELETE", "/" + bk), lambda: B.req("PUT", "/%s/deep/er/obj" % bk, body=b"data"))
        verdict("delete-checked|put-nested|delete-removes", bk, "deep/er/obj", up, dl, parked)
        # S2: the same with a multipart completion
        bk = fresh(); r0 = A.req("POST", "/%s/mp" % bk, query={"uploads": ""}); uid = r0.xml().findtext("UploadId")
        rp = A.req("PUT", "/%s/mp" % bk, query={"partNumber": "1", "uploadId": uid}, body=b"part")
        cmu = lambda: B.req("POST", "/%s/mp" % bk, query={"uploadId": uid}, body=("<CompleteMultipartUpload><Part><PartNumber>1</PartNumber><ETag>%s</ETag></Part></CompleteMultipartUpload>" % rp.headers.get("etag", "")).encode())
        dl, up, parked = hooks.held(hk, "posix.deletebucket.checked", lambda: A.req("DELETE", "/" + bk), cmu)
        verdict("delete-checked|complete-multipart|delete-removes", bk, "mp", up, dl, parked)
        # S2b: an upload / a multipart initiation parked right after it found the bucket; the bucket is deleted meanwhile, the request goes on
        for key_ in ("obj", "deep/er/obj"):
            bk = fresh(); up, dl, parked = hooks.held(hk, "posix.putobject.bucketchecked", lambda: A.req("PUT", "/%s/%s" % (bk, key_), body=b"data"), lambda: B.req("DELETE", "/" + bk))
            verdict("put-bucket-checked|delete|put-goes-on", bk, key_, up, dl, parked)
        bk = fresh(); up, dl, parked = hooks.held(hk, "posix.createmultipart.bucketchecked", lambda: A.req("POST", "/%s/mp" % bk, query={"uploads": ""}), lambda: B.req("DELETE", "/" + bk))
        row_ = verdict("create-multipart-bucket-checked|delete|create-goes-on", bk, "mp", up, dl, parked)
        # S3: an upload parked just before publication; the bucket is deleted meanwhile
        bk = fresh(); up, dl, parked = hooks.held(hk, "posix.putobject.beforelink", lambda: A.req("PUT", "/%s/obj" % bk, body=b"data"), lambda: B.req("DELETE", "/" + bk))
        verdict("put-before-link|delete|put-links", bk, "obj", up, dl, parked)
        bk = fresh(); up, dl, parked = hooks.held(hk, "posix.putobject.beforelink", lambda: A.req("PUT", "/%s/a/b/obj" % bk, body=b"data"), lambda: B.req("DELETE", "/" + bk))
        verdict("put-nested-before-link|delete|put-links", bk, "a/b/obj", up, dl, parked)
        bk = fresh(); r0 = A.req("POST", "/%s/mp" % bk, query={"uploads": ""}); uid = r0.xml().findtext("UploadId")
        rp = A.req("PUT", "/%s/mp" % bk, query={"partNumber": "1", "uploadId": uid}, body=b"part")
        cmu = lambda: A.req("POST", "/%s/mp" % bk, query={"uploadId": uid}, body=("<CompleteMultipartUpload><Part><PartNumber>1</PartNumber><ETag>%s</ETag></Part></CompleteMultipartUpload>" % rp.headers.get("etag", "")).encode())
        up, dl, parked = hooks.held(hk, "posix.cmu.beforelink", cmu, lambda: B.req("DELETE", "/" + bk))
        verdict("complete-before-link|delete|complete-links", bk, "mp", up, dl, parked)
        # S4: CreateBucket of the same name while DeleteBucket is parked
        bk = fresh(); dl, cr, parked = hooks.held(hk, "posix.deletebucket.checked", lambda: A.req("DELETE", "/" + bk), lambda: B.req("PUT", "/" + bk))
        head = A.req("HEAD", "/" + bk)
        chk.case(("race", "delete-checked|create|delete-removes", 0), True); chk.traces += 1
        if dl.status == 204 and cr.status == 200 and head.status != 200:
            chk.fail("c16:created-bucket-lost", "CreateBucket answered 200 while DeleteBucket was in progress, DeleteBucket answered 204, and the bucket does not exist", {"create": cr.status, "delete": dl.status})
        hk.clear()
        # S4b: two creators of one name, the first parked right after it made the directory: at most one is acknowledged
        n[0] += 1; bk = "race%04d" % n[0]
        c1, c2, parked = hooks.held(hk, "posix.createbucket.made", lambda: A.req("PUT", "/" + bk), lambda: B.req("PUT", "/" + bk, headers={"x-amz-object-ownership": "BucketOwnerPreferred", "x-amz-acl": "public-read"}))
        hk.clear()
        chk.case(("race", "create-made|create|create-returns", 0), True); chk.traces += 1
        acl = A.req("GET", "/" + bk, query={"acl": ""})
        public = b"AllUsers" in (acl.body or b"")
        row = {"schedule": "create-made|create|create-returns", "first": (c1.status, c1.code) if c1 is not None else None, "second": (c2.status, c2.code) if c2 is not None else None, "acl_is_public": public, "parked": parked}
        if not parked:
            chk.tie("hook schedule create-made|create reached its yield point", False, row)
        elif c1 is not None and c2 is not None and c1.status == 200 and c2.status == 200:
            chk.fail("c16:two-creators-acknowledged", "two concurrent CreateBucket requests for one name were both acknowledged (the bucket's ACL is that of the %s)" % ("second" if public else "first"), row)
        elif c1 is not None and c1.status == 200 and public:
            chk.fail("c16:refused-creator-changed-bucket", "the refused second CreateBucket (%s) left its ACL on the bucket the first one created" % (c2.status if c2 is not None else None), row)
        # unscheduled stress: upload and DeleteBucket fired together
        for i in range(40 if chk.tier == "quick" else 600):
            bk = fresh(); key = rnd.choice(["o", "d/o", "d/e/e/p/o"]); res = {}
            t1 = threading.Thread(target=lambda: res.__setitem__("up", A.req("PUT", "/%s/%s" % (bk, key), body=b"x" * rnd.choice([1, 1000, 200000]))))
            t2 = threading.Thread(target=lambda: res.__setitem__("dl", B.req("DELETE", "/" + bk)))
            for t in rnd.sample([t1, t2], 2): t.start()
            t1.join(); t2.join()
            verdict("stress#%d" % i, bk, key, res["up"], res["dl"], True)
        chk.tie("gateway still running after the race schedules", g.alive(), g.log_tail())
    # S5: the same race in a versioned bucket: two acknowledged uploads of one key while DeleteBucket is parked; both versions must survive a refused DeleteBucket
    with gw.Site({"iam": False, "versioning": True}, name="c16v") as site:
        hk = hooks.Hooks(site.base)
        g = site.gateway(gwbin, extra_env=hk.env())
        A, B = s3c.Client(g.port, "root", "rootsecret"), s3c.Client(g.port, "root", "rootsecret")
        for name, key in (("delete-checked|put;put (versioned)|delete-removes", "obj"), ("delete-checked|put;put nested (versioned)|delete-removes", "d/e/obj")):
            bk = "vrace-%d" % len(key)
            chk.require(A.req("PUT", "/" + bk).status == 200 and A.req("PUT", "/" + bk, query={"versioning": ""}, body=b"<VersioningConfiguration><Status>Enabled</Status></VersioningConfiguration>").status == 200,
                        "c16:setup", "versioned bucket setup failed")
            ups = []
            def two():
                ups.append(B.req("PUT", "/%s/%s" % (bk, key), body=b"first")); ups.append(B.req("PUT", "/%s/%s" % (bk, key), body=b"second")); return ups[-1]
            dl, up, parked = hooks.held(hk, "posix.deletebucket.checked", lambda: A.req("DELETE", "/" + bk), two)
            hk.clear()
            chk.case(("race", name, 0), True); chk.traces += 1
            v1 = ups[0].headers.get("x-amz-version-id") if ups else None
            g1 = A.req("GET", "/%s/%s" % (bk, key), query={"versionId": v1 or "none"}); g2 = A.req("GET", "/%s/%s" % (bk, key))
            row = {"schedule": name, "uploads": [(u.status, u.headers.get("x-amz-version-id")) for u in ups], "delete_bucket": (dl.status, dl.code) if dl is not None else None,
                   "get_first_version": (g1.status, g1.code), "get_current": (g2.status, g2.code), "parked": parked}
            chk.count("race:versioned:delete=%s:first=%d:current=%d" % (dl.status if dl is not None else None, g1.status, g2.status))
            if not parked:
                chk.tie("hook schedule %s reached its yield point" % name, False, row)
            elif len(ups) == 2 and ups[0].status == 200 and ups[1].status == 200 and (g1.status != 200 or g1.body != b"first" or g2.status != 200 or g2.body != b"second"):
                chk.fail("c16:acknowledged-version-lost", "schedule %s: both uploads of %s/%s were acknowledged, DeleteBucket answered %s; the first version now reads %d %s, the current one %d %s"
                         % (name, bk, key, row["delete_bucket"], g1.status, g1.code, g2.status, g2.code), row)
        chk.tie("gateway still running after the versioned race schedules", g.alive(), g.log_tail())


def run(chk):
    chk.rule = ("cases: (a) bucket-name strings (generated around the rule boundaries: lengths 2-64, charset, ends, adjacent periods, IP shapes) through the real "
                "IsValidBucketName, the model and an independent reading of the rules; (b) random programs of create (4 callers) / delete-bucket / put-get-delete of "
                "tagging, policy, versioning / put-delete object / ListBuckets by admin and non-admin callers with gateway restarts, every answer compared with "
                "Model.Bucket.run; (c) every setting kind x every valid document: read-back, restart, delete; create-on-existing by 5 callers/header sets with a "
                "byte-exact snapshot; (d) DeleteBucket against PutObject / CompleteMultipartUpload / CreateBucket in the hook-driven schedules where one request is "
                "parked between its check and its effect, plus unscheduled concurrent pairs. Non-trivial: every case; distinct by content.")
    gwbin = gobuild.build_gateway("verif")
    built = coq.ensure_built(chk, TARGETS)
    if built:
        coq.check_assumptions(chk, "Properties.C16", THEOREMS)
    names_part(chk, built)
    table_histories(chk, gwbin, built)
    recreate_fresh(chk, gwbin)
    settings_readback(chk, gwbin)
    settings_readback(chk, gwbin, "sidecar", {"iam": True, "versioning": True, "meta": "sidecar"})
    races(chk, gwbin)


def replay(chk, data):
    print(json.dumps(data.get("replay"), indent=1, default=str))
    return 0
