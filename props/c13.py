"""C13 — Range reads return exactly the requested bytes (DESIGN.md §7 C13)."""
import os, subprocess, hashlib, random
from vlib import common, coq, gobuild, gw, s3c
from vlib.common import coq_str, coq_z, coq_bool, coq_list

THEOREMS = ["C13_range_exact", "C13_window_inside", "C13_denoting_is_206", "C13_spec_evaluator_sound"]
TARGETS = ["Properties/C13.vo", "Check/RangeCheck.vo"]
INT64 = 1 << 63


def gen_number(rnd, size):
    r = rnd.random()
    if r < 0.45:
        return str(rnd.choice([0, 1, 2, max(size - 2, 0), max(size - 1, 0), size, size + 1, size * 2 + 3, rnd.randrange(0, size + 3)]))
    if r < 0.55:
        return rnd.choice(["+", "-", ""]) + str(rnd.randrange(0, size + 3))
    if r < 0.65:
        return str(rnd.choice([INT64 - 1, INT64, INT64 + 1, 2 * INT64, 10 ** 20, 10 ** 19]))
    if r < 0.72:
        return "0" * rnd.randrange(1, 4) + str(rnd.randrange(0, size + 2))
    if r < 0.80:
        return ""
    if r < 0.9:
        return rnd.choice(["a", "1a", "0x5", "1_0", " 3", "3 ", "1e2", "٣", "\xb2", "1.0", "--1", "+-1"])
    return str(rnd.randrange(0, 40))


def gen_header(rnd, size, http=False):
    """Grammar of Range headers: mostly well-formed, plus structural mutations."""
    r = rnd.random()
    if r < 0.03:
        return b""
    if r < 0.40 and size > 0:
        a = rnd.choice([0, size - 1, rnd.randrange(size), rnd.randrange(size)])
        b = rnd.choice(["", str(a), str(size - 1), str(size), str(size + 5), str(rnd.randrange(a, size + 2)), str(rnd.randrange(a, size + 2))])
        return ("bytes=%d-%s" % (a, b)).encode()
    unit = "bytes" if rnd.random() < 0.85 else rnd.choice(["Bytes", "byte", "bytes ", " bytes", "", "items", "bytes=bytes"])
    a, b = gen_number(rnd, size), gen_number(rnd, size)
    r = rnd.random()
    if r < 0.70:
        h = "%s=%s-%s" % (unit, a, b)
    elif r < 0.76:
        h = "%s=%s-%s,%s-%s" % (unit, a, b, gen_number(rnd, size), gen_number(rnd, size))
    elif r < 0.82:
        h = "%s=%s-%s-%s" % (unit, a, b, gen_number(rnd, size))
    elif r < 0.86:
        h = "%s=%s" % (unit, a)
    elif r < 0.90:
        h = "%s=%s-%s=%s" % (unit, a, b, a)
    elif r < 0.94:
        h = "%s %s-%s" % (unit, a, b)
    else:
        h = "%s=-%s" % (unit, b)
    if rnd.random() < 0.05:
        # byte-level mutation
        if h:
            i = rnd.randrange(len(h))
            h = h[:i] + rnd.choice(["=", "-", " ", "\t", "b", "9", "\x7f"]) + h[i + (rnd.random() < 0.5):]
    hb = h.encode("utf-8", "surrogateescape") if not isinstance(h, bytes) else h
    if http:
        hb = hb.strip(b" \t")
        hb = bytes(c for c in hb if 32 <= c < 127)
    return hb


def classify(size, hdr):
    s = hdr.decode("latin1")
    if s == "":
        return "empty"
    if not s.startswith("bytes="):
        return "other-unit"
    body = s[6:]
    parts = body.split("-")
    if len(parts) != 2 or "=" in body:
        return "not-two-parts"
    def num(x):
        try:
            if x and (x.lstrip("+-").isascii() and x.lstrip("+-").isdigit()) and len(x) - len(x.lstrip("+-")) <= 1:
                v = int(x)
                return v if -INT64 <= v < INT64 else None
        except ValueError:
            pass
        return None
    a, b = num(parts[0]), num(parts[1])
    if a is None:
        return "bad-first"
    if a >= size:
        return "first-beyond-end"
    if parts[1] == "":
        return "open-ended"
    if b is None:
        return "bad-last"
    if b < a:
        return "reversed"
    if b >= size:
        return "clipped"
    if a == b:
        return "single-byte"
    return "inside"


def blob(n):
    return bytes((i * 7 + (i >> 8) * 13 + 1) % 251 for i in range(n))


def offsets(data, body):
    if not body:
        return []
    out, i = [], data.find(body)
    while i >= 0 and len(out) < 64:
        out.append(i)
        i = data.find(body, i + 1)
    return out


def corpus():
    """Regression inputs that run first: the witnesses of the two defects repaired by fix: commits and the
    boundary classes. (size, header)"""
    hs = [b"bytes=abc", b"bytes=-3", b"bytes=0-10", b"bytes=5-", b"bytes=9-9", b"bytes=10-", b"bytes=10-12", b"bytes=20-abc",
          b"bytes=20-5", b"bytes=3-2", b"bytes=0-0", b"bytes=+1-+2", b"bytes=0-9223372036854775807",
          b"bytes=9223372036854775807-", b"bytes=9223372036854775808-", b"bytes=0-9223372036854775808",
          b"bytes=1-2,4-5", b"bytes=1-2-3", b"bytes=", b"bytes=-", b"bytes", b"=1-2", b"bytes=1-2=3", b"items=1-2"]
    return [(sz, h) for sz in (0, 1, 10) for h in hs]


def run(chk):
    quick = chk.tier == "quick"
    n_unit = 3000 if quick else 30000
    n_http = 300 if quick else 2000
    chk.rule = ("cases are (object size, Range header) pairs from a grammar of range headers (units, signs, 19-21 digit "
                "numbers, multi-range, reversed, empty parts) plus byte mutations; a case is non-trivial when the header is "
                "non-empty; distinct = distinct (size, header, kind). Unit cases call backend.ParseGetObjectRange, http cases "
                "are signed GETs on the real gateway (files of size 0,1,10,300,4097 and a directory object).")
    corr = gobuild.build_tool("corr")
    gwbin = gobuild.build_gateway("verif")
    built = coq.ensure_built(chk, TARGETS)
    if built:
        coq.check_assumptions(chk, "Properties.C13", THEOREMS)

    rnd = chk.rnd
    # ---------------- T2: unit correspondence
    ucases = list(corpus())
    sizes = [0, 1, 2, 10, 255, 4096, 4097, 1 << 20, INT64 - 1]
    while len(ucases) < n_unit:
        sz = rnd.choice(sizes)
        ucases.append((sz, gen_header(rnd, min(sz, 5000))))
    inp = "".join("%d\t%s\n" % (sz, h.hex()) for sz, h in ucases).encode()
    p = subprocess.run([corr, "range"], input=inp, stdout=subprocess.PIPE, timeout=120, env=common.env())
    uobs = p.stdout.decode().split("\n")[:len(ucases)]
    uterms = []
    for (sz, h), o in zip(ucases, uobs):
        cl = classify(sz, h)
        chk.count("unit:" + cl)
        chk.case(("u", sz, h), h != b"", None)
        if o.startswith("OK "):
            _, s, l, v = o.split()
            ot = "(UO %s %s %s)" % (coq_z(int(s)), coq_z(int(l)), v)
        elif o == "ERR":
            ot = "UErr"
        else:
            ot = "UPanic"
        uterms.append("(%s, %s, %s)" % (coq_z(sz), coq_str(h), ot))
    chk.samples.append({"unit": {"size": ucases[len(corpus()) + 1][0], "header": ucases[len(corpus()) + 1][1].decode("latin1"),
                                 "observed": uobs[len(corpus()) + 1]}})

    # ---------------- T3: the real gateway
    hterms, hmeta = [], []
    with gw.Site({"iam": False}, name="c13") as site:
        g = site.gateway(gwbin)
        cl = s3c.Client(g.port, "root", "rootsecret")
        assert cl.req("PUT", "/bk1").status == 200
        objs = {}
        for n in (0, 1, 10, 300, 4097):
            key = "o%d" % n
            r = cl.req("PUT", "/bk1/" + key, body=blob(n))
            assert r.status == 200, r
            objs[key] = (n, False, blob(n))
        r = cl.req("PUT", "/bk1/d/")
        assert r.status == 200, r
        objs["d/"] = (os.stat(os.path.join(site.root, "bk1", "d")).st_size, True, b"")
        reqs = []
        for sz, h in corpus():
            reqs.append((("o%d" % sz), h))
        for h in (b"bytes=0-10", b"bytes=abc", b"bytes=0-", b""):
            reqs.append(("d/", h))
        keys = list(objs)
        while len(reqs) < n_http:
            k = rnd.choice(keys)
            reqs.append((k, gen_header(rnd, objs[k][0] if not objs[k][1] else 8, http=True)))
        seq_results = []
        for k, h in reqs:
            stat, isdir, data = objs[k]
            h = bytes(c for c in h.strip(b" \t") if 32 <= c < 127)
            hd = {"Range": h.decode("latin1")} if h != b"" else {}
            # other request headers that have nothing to do with the range (what SDKs send along) must not change the answer
            extra = rnd.choice([{}, {}, {"x-amz-checksum-mode": "ENABLED"}, {"x-amz-checksum-mode": "ENABLED"}, {"x-amz-expected-bucket-owner": "root"}, {"Accept-Encoding": "identity"}])
            hd.update(extra)
            r = cl.req("GET", "/bk1/" + k, headers=hd)
            seq_results.append((k, dict(hd), (r.status, r.headers.get("content-range", ""), r.headers.get("content-length", ""), hashlib.md5(r.body or b"").hexdigest())))
            if extra: chk.count("http-extra-header:%s" % sorted(extra)[0])
            if r.status == -1 and not g.alive():
                chk.fail("c13:gateway-died", "the gateway process died on GET with Range %r on a %d-byte object" % (h, stat),
                         {"key": k, "range": h.decode("latin1"), "log": g.log_tail(1500)})
                break
            crange = r.headers.get("content-range", "")
            try:
                clen = int(r.headers.get("content-length", "-1"))
            except ValueError:
                clen = -1
            body = r.body if r.status in (200, 206) else b""
            offs = offsets(data, body)
            if r.status in (200, 206) and body and not offs:
                offs = [-1]          # body is not a slice of the object at all
            hterms.append("{| h_stat := %s; h_dir := %s; h_hdr := %s; o_status := %s; o_crange := %s; o_clen := %s; "
                          "o_blen := %s; o_offs := %s |}" % (coq_z(stat), coq_bool(isdir), coq_str(h), coq_z(r.status),
                                                             coq_str(crange), coq_z(clen if r.status != 416 else 0),
                                                             coq_z(len(body)), coq_list([coq_z(o) for o in offs])))
            hmeta.append({"key": k, "size": 0 if isdir else stat, "dir": isdir, "range": h.decode("latin1"), "status": r.status,
                          "content_range": crange, "content_length": clen, "body_len": len(body)})
            cls = classify(0 if isdir else stat, h)
            chk.count("http:%s:%s" % ("dir" if isdir else "file", cls))
            chk.count("http-status:%d" % r.status)
            chk.case(("h", k, h), h != b"", None)
            chk.traces += 1
        # the same requests again, many at a time: every response still is the response of its own request (status, Content-Range,
        # Content-Length and body all of one request)
        import threading
        pool = [x for x in seq_results if x[2][0] in (200, 206, 416)][:400]
        bad_conc = []
        def hammer(t):
            r_ = random.Random(1000 + t); c_ = s3c.Client(g.port, "root", "rootsecret")
            for _ in range(120 if quick else 600):
                k_, hd_, want = r_.choice(pool)
                rr = c_.req("GET", "/bk1/" + k_, headers=hd_)
                got = (rr.status, rr.headers.get("content-range", ""), rr.headers.get("content-length", ""), hashlib.md5(rr.body or b"").hexdigest())
                if got != want and len(bad_conc) < 5:
                    bad_conc.append({"key": k_, "headers": hd_, "alone": want, "among_concurrent_requests": got})
        ths = [threading.Thread(target=hammer, args=(t,)) for t in range(12)]
        for t in ths: t.start()
        for t in ths: t.join()
        chk.case(("h-concurrent", len(pool)), True); chk.traces += 1; chk.count("http-concurrent-requests:%d" % (12 * (120 if quick else 600)))
        if bad_conc:
            chk.fail("c13:concurrent-response-differs", "a ranged GET among concurrent ones was answered differently from the same request alone: %r" % (bad_conc[0],), {"differences": bad_conc})
        chk.samples.extend(hmeta[len(corpus()) + 5:len(corpus()) + 9])
        alive = g.alive()
        chk.tie("gateway still running after the range requests", alive, g.log_tail())
    overlapped(chk, gwbin)

    # ---------------- evaluate model and Spec in Coq
    if not built:
        return
    text = ("From Coq Require Import String List ZArith Bool.\nFrom VGW Require Import Base.GoStr Model.Range Spec.RangeSpec "
            "Check.Common Check.RangeCheck.\nImport ListNotations.\nOpen Scope string_scope.\nOpen Scope Z_scope.\n")
    text += "Definition ucases : list (Z * string * uobs) :=\n " + coq_list(uterms).replace("; (", ";\n (") + ".\n"
    text += "Definition hcases : list hcase :=\n " + coq_list(hterms).replace("; {|", ";\n {|") + ".\n"
    text += ("Definition MU := Eval vm_compute in bad unit_ok ucases.\nPrint MU.\n"
             "Definition MH := Eval vm_compute in bad http_ok hcases.\nPrint MH.\n"
             "Definition VH := Eval vm_compute in bad http_spec_ok hcases.\nPrint VH.\n")
    rc, out = coq.run_cases("C13_cases", text)
    mu, mh, vh = coq.printed_list(out, "MU"), coq.printed_list(out, "MH"), coq.printed_list(out, "VH")
    if rc != 0 or mu is None or mh is None or vh is None:
        chk.tie("case file evaluates", False, out[-3000:])
        return
    chk.tie("T2 backend.ParseGetObjectRange = Model.Range.parse_get_object_range on %d cases" % len(ucases), not mu,
            [{"size": ucases[int(i)][0], "header": ucases[int(i)][1].decode("latin1"), "observed": uobs[int(i)]} for i in mu[:5]])
    chk.tie("T3 GET responses of the gateway = Model.Range.get_resp on %d requests" % len(hterms), not mh,
            [hmeta[int(i)] for i in mh[:5]])
    for i in vh:
        m = hmeta[int(i)]
        denotes = classify(m["size"], m["range"].encode("latin1")) in ("open-ended", "clipped", "single-byte", "inside")
        key = "c13:status=%d:denotes=%s:dir=%s" % (m["status"], "yes" if denotes else "no", "yes" if m["dir"] else "no")
        chk.fail(key, "GET with Range %r on a %d-byte %s answered %d, Content-Range %r, Content-Length %d, body of %d bytes: "
                 "not a response the property admits" % (m["range"], m["size"], "directory object" if m["dir"] else "object",
                                                         m["status"], m["content_range"], m["content_length"], m["body_len"]),
                 {"request": m, "how": "PUT the object, then signed GET /bk1/<key> with this Range header"})
    # unit-level Spec failures: a mismatching unit case whose observation breaks the window bound
    for i in mu[:20]:
        sz, h = ucases[int(i)]
        o = uobs[int(i)]
        if o.startswith("OK "):
            _, s, l, v = o.split()
            s, l = int(s), int(l)
            if s < 0 or l < 0 or s + l > sz:
                chk.fail("c13:window-outside-object", "ParseGetObjectRange(%d, %r) = (%d, %d): window outside the object" % (sz, h, s, l),
                         {"size": sz, "header": h.decode("latin1"), "observed": o})
        elif o == "PANIC":
            chk.fail("c13:panic", "ParseGetObjectRange(%d, %r) panics" % (sz, h), {"size": sz, "header": h.decode("latin1")})


def overlapped(chk, gwbin):
    """a ranged GET parked after it opened the object while the key is overwritten: status, Content-Range, Content-Length and body must
    all describe ONE object (the replaced or the new one), with the range applied to that object's size"""
    from vlib import hooks
    with gw.Site({"iam": False}, name="c13o") as site:
        hk = hooks.Hooks(site.base)
        g = site.gateway(gwbin, extra_env=hk.env())
        A, B = s3c.Client(g.port, "root", "rootsecret"), s3c.Client(g.port, "root", "rootsecret")
        chk.require(A.req("PUT", "/bk1").status == 200, "c13:setup", "CreateBucket failed")
        n = 0
        for at in ("posix.getobject.statted", "posix.getobject.attrsread", "posix.getobject.opened"):
            for old, new in ((b"0123456789", b"abcd"), (b"abcd", b"0123456789ABCDEFGHIJ"), (b"0123456789", b"")):
                for rng in ("bytes=2-7", "bytes=5-", "bytes=0-19", "bytes=12-15"):
                    n += 1; key = "ov%d" % n
                    A.req("PUT", "/bk1/" + key, body=old)
                    rd, w, parked = hooks.held(hk, at, lambda: A.req("GET", "/bk1/" + key, headers={"Range": rng}), lambda: B.req("PUT", "/bk1/" + key, body=new))
                    hk.clear()
                    chk.case(("overlap", at, len(old), len(new), rng), True); chk.traces += 1
                    if not parked or rd is None:
                        chk.count("overlap:not-reached"); continue
                    def expect(obj):
                        kind = classify(len(obj), rng.encode())
                        if kind in ("open-ended", "clipped", "single-byte", "inside"):
                            a, _, b = rng[6:].partition("-")
                            if a == "": lo = max(len(obj) - int(b), 0); hi = len(obj) - 1
                            else: lo = int(a); hi = min(int(b), len(obj) - 1) if b else len(obj) - 1
                            return (206, "bytes %d-%d/%d" % (lo, hi, len(obj)), obj[lo:hi + 1])
                        return None
                    got = (rd.status, rd.headers.get("content-range"), rd.body)
                    oks = [e for e in (expect(old), expect(new)) if e is not None]
                    whole = [(200, None, o) for o in (old, new) if expect(o) is None and classify(len(o), rng.encode()) not in ("unsatisfiable",)]
                    row = {"parked_at": at, "old_size": len(old), "new_size": len(new), "range": rng, "status": rd.status, "content_range": rd.headers.get("content-range"),
                           "content_length": rd.headers.get("content-length"), "body": rd.body.decode("latin1")[:40], "overwrite": w.status if w is not None else None}
                    chk.count("overlap:%s:%d" % (at.split(".")[-1], rd.status))
                    if rd.status in (200, 206) and got not in oks and got not in whole:
                        chk.fail("c13:overlap:mixed-sizes", "GET with Range %s parked at %s while the %d-byte object was replaced by a %d-byte one answered %d, Content-Range %r and %r: the range of neither object"
                                 % (rng, at, len(old), len(new), rd.status, rd.headers.get("content-range"), rd.body[:30]), row)
                    elif rd.status == -1 or rd.status >= 500:
                        chk.fail("c13:overlap:error", "GET with Range %s parked at %s while the object was replaced answered %d %s" % (rng, at, rd.status, rd.code), row)
        chk.tie("gateway still running after the overlapped range requests", g.alive(), g.log_tail())


def replay(chk, data):
    r = data.get("replay", {})
    print(json_dumps(r))
    return 0


def json_dumps(x):
    import json
    return json.dumps(x, indent=1)
