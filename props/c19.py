"""C19 — Event notifications match committed changes (DESIGN.md §7 C19)."""
import base64, hashlib, http.server, json, os, subprocess, threading, time
from collections import Counter
from vlib import common, coq, gobuild, gw, s3c, e2e
from vlib.common import coq_str, coq_list, coq_bool

THEOREMS = ["C19_one_event_per_affected_key", "C19_no_event_when_filtered", "C19_failed_requests_emit_nothing", "C19_events_independent_of_interleaving", "C19_filter_semantics"]
TARGETS = ["Properties/C19.vo", "Check/EventsCheck.vo"]
FILTERS = [None,
           {"s3:ObjectCreated:*": True, "s3:ObjectRemoved:*": True, "s3:ObjectTagging:*": True},
           {"s3:ObjectCreated:*": True, "s3:ObjectCreated:Copy": False, "s3:ObjectRemoved:Delete": True},
           {"s3:ObjectCreated:Put": True, "s3:ObjectTagging:*": False, "s3:ObjectTagging:Delete": True},
           {"s3:ObjectRemoved:*": False, "s3:ObjectRemoved:DeleteObjects": True, "s3:ObjectCreated:CompleteMultipartUpload": True},
           {}]
TYPES = ["s3:ObjectCreated:Put", "s3:ObjectCreated:Copy", "s3:ObjectCreated:CompleteMultipartUpload", "s3:ObjectRemoved:Delete", "s3:ObjectRemoved:DeleteObjects",
         "s3:ObjectTagging:Put", "s3:ObjectTagging:Delete"]


class Receiver:
    def __init__(self):
        self.docs, self.lock = [], threading.Lock()
        outer = self
        class H(http.server.BaseHTTPRequestHandler):
            def do_POST(self):
                n = int(self.headers.get("content-length") or 0)
                body = self.rfile.read(n)
                with outer.lock:
                    outer.docs.append(body)
                # (receivers commonly acknowledge with a small document; a sender that never reads it must still deliver the next event)
                ack = b'{"status":"received"}'
                self.send_response(200); self.send_header("content-type", "application/json"); self.send_header("content-length", str(len(ack))); self.end_headers()
                self.wfile.write(ack)
            def log_message(self, *a): pass
        class Srv(http.server.ThreadingHTTPServer):
            # (the default listen backlog of 5 overflows when many events arrive at once: the dropped connection attempts are
            # repeated by the kernel after 1 s and 3 s, beyond the gateway's 3 s delivery timeout - the event is then lost to the
            # receiver, not withheld by the gateway)
            request_queue_size = 1024
            daemon_threads = True
        self.srv = Srv(("127.0.0.1", 0), H)
        self.srv.daemon_threads = True
        self.port = self.srv.server_address[1]
        threading.Thread(target=self.srv.serve_forever, daemon=True).start()
    def settle(self, quiet=0.6, limit=15):
        """wait until no document has arrived for `quiet` seconds"""
        t0 = time.time(); last = -1; tlast = time.time()
        while time.time() - t0 < limit:
            with self.lock: n = len(self.docs)
            if n != last: last, tlast = n, time.time()
            elif time.time() - tlast > quiet: break
            time.sleep(0.05)
    def take(self):
        with self.lock:
            d, self.docs = self.docs, []
        return d
    def close(self):
        self.srv.shutdown(); self.srv.server_close()


def allowed_by(flt, ev):
    """an independent reading of the filter rule: an explicit entry for the event wins, else the entry for its wildcard family, else off; no filter file: everything"""
    if flt is None: return True
    if ev in flt: return flt[ev]
    fam = ev[:ev.rindex(":") + 1] + "*"
    return flt.get(fam, False)


def plan(rnd, tid, nreq, buckets):
    """requests of one client thread on keys of its own; returns list of dicts"""
    out = []; mine = []
    for i in range(nreq):
        bk = rnd.choice(buckets); key = "t%d/k%d-%s" % (tid, i, rnd.choice(["a", "b c", "ü", "x+y"])); x = rnd.random()
        size = rnd.choice([0, 1, 17, 1000, 70000])
        if x < 0.30 and rnd.random() < 0.2:
            key, size = "t%d/dirobj%d/" % (tid, i), 0        # an explicit directory object: its key ends with the slash
        if x < 0.30: out.append({"op": "put" if rnd.random() < 0.7 or key.endswith("/") else rnd.choice(["put-chunked-signed", "put-chunked-trailer"]), "bucket": bk, "key": key, "size": size}); mine.append((bk, key, size))
        elif x < 0.40 and mine: s = rnd.choice(mine); out.append({"op": "copy", "bucket": bk, "key": key, "src": s})
        elif x < 0.48: out.append({"op": "mpu", "bucket": bk, "key": key, "size": max(size, 17)})
        elif x < 0.58 and mine: s = mine.pop(rnd.randrange(len(mine))); out.append({"op": "delete", "bucket": s[0], "key": s[1]})
        elif x < 0.66 and mine: s = rnd.choice(mine); out.append({"op": "tag", "bucket": s[0], "key": s[1]})
        elif x < 0.71 and mine: s = rnd.choice(mine); out.append({"op": "untag", "bucket": s[0], "key": s[1]})
        elif x < 0.78 and len(mine) >= 2:
            ks = [mine.pop(rnd.randrange(len(mine))) for _ in range(2)]
            ks = [k for k in ks if k[0] == ks[0][0]]
            out.append({"op": "batch", "bucket": ks[0][0], "keys": [k[1] for k in ks]})
        elif x < 0.80 and mine:
            k_ = mine.pop(rnd.randrange(len(mine)))
            out.append({"op": "batch-partial", "bucket": k_[0], "keys": [k_[1]], "bad": ["t%d/" % tid]})
        elif x < 0.81: out.append({"op": "batch-partial", "bucket": bk, "keys": [], "bad": ["t%d/" % tid]})     # every key of the batch fails (a directory that still holds keys)
        elif x < 0.82: out.append({"op": "put-nobucket", "bucket": "no-such-bucket-%d" % tid, "key": key, "size": size})
        elif x < 0.86: out.append({"op": "put-baddigest", "bucket": bk, "key": key, "size": max(size, 1)})
        elif x < 0.89: out.append({"op": "copy-nosource", "bucket": bk, "key": key})
        elif x < 0.92: out.append({"op": "mpu-badpart", "bucket": bk, "key": key})
        elif x < 0.95: out.append({"op": "tag-malformed", "bucket": bk, "key": key})
        elif x < 0.98: out.append({"op": "put-wrongsecret", "bucket": bk, "key": key, "size": size})
        else: out.append({"op": "delete-nobucket", "bucket": "no-such-bucket-%d" % tid, "key": key})
    return out


def body_for(key, size):
    return (hashlib.sha256(key.encode()).digest() * (size // 32 + 1))[:size]


def execute(cl, bad, rq):
    """perform one planned request; returns (status, expected events [(type, bucket, key, size or None, etag or None)])"""
    op, bk = rq["op"], rq["bucket"]; key = rq.get("key"); path = "/%s/%s" % (bk, key) if key else None
    if op in ("put", "put-nobucket"):
        b = body_for(key, rq["size"]); r = cl.req("PUT", path, body=b)
        return r, [("s3:ObjectCreated:Put", bk, key, len(b), hashlib.md5(b).hexdigest())]
    if op in ("put-chunked-signed", "put-chunked-trailer"):
        # an aws-chunked upload: what is on the wire is longer than the object
        from vlib import chunkenc
        b = body_for(key, rq["size"]); chunks = [b[:len(b) // 2], b[len(b) // 2:]] if len(b) > 1 else ([b] if b else [])
        hd = {"x-amz-decoded-content-length": str(len(b)), "content-encoding": "aws-chunked"}
        if op == "put-chunked-trailer":
            hd["x-amz-trailer"] = "x-amz-checksum-crc32"
            r, _ = cl.req_streaming("PUT", path, lambda *a: chunkenc.encode_unsigned(chunks, "crc32"), headers=hd, payload_type="STREAMING-UNSIGNED-PAYLOAD-TRAILER")
        else:
            r, _ = cl.req_streaming("PUT", path, lambda sig, k, ad, d8, reg: chunkenc.encode_signed(chunks, k, sig, None, ad, d8, reg), headers=hd, payload_type="STREAMING-AWS4-HMAC-SHA256-PAYLOAD")
        return r, [("s3:ObjectCreated:Put", bk, key, len(b), hashlib.md5(b).hexdigest())]
    if op == "put-wrongsecret":
        r = bad.req("PUT", path, body=body_for(key, rq["size"])); return r, [("s3:ObjectCreated:Put", bk, key, None, None)]
    if op == "put-baddigest":
        r = cl.req("PUT", path, body=body_for(key, rq["size"]), headers={"content-md5": base64.b64encode(hashlib.md5(b"other").digest()).decode()})
        return r, [("s3:ObjectCreated:Put", bk, key, None, None)]
    if op == "copy":
        sb, sk, ssz = rq["src"]; r = cl.req("PUT", path, headers={"x-amz-copy-source": "%s/%s" % (sb, sk)})
        b = body_for(sk, ssz)
        return r, [("s3:ObjectCreated:Copy", bk, key, len(b), hashlib.md5(b).hexdigest())]
    if op == "copy-nosource":
        r = cl.req("PUT", path, headers={"x-amz-copy-source": "%s/never-written" % bk}); return r, [("s3:ObjectCreated:Copy", bk, key, None, None)]
    if op in ("mpu", "mpu-badpart"):
        r0 = cl.req("POST", path, query={"uploads": ""})
        if r0.status != 200: return r0, []
        uid = r0.xml().findtext("UploadId"); b = body_for(key, rq.get("size", 20))
        rp = cl.req("PUT", path, query={"partNumber": "1", "uploadId": uid}, body=b)
        et = rp.headers.get("etag", "") if op == "mpu" else "0" * 32
        r = cl.req("POST", path, query={"uploadId": uid}, body=("<CompleteMultipartUpload><Part><PartNumber>1</PartNumber><ETag>%s</ETag></Part></CompleteMultipartUpload>" % et).encode())
        if op != "mpu": cl.req("DELETE", path, query={"uploadId": uid})
        return r, [("s3:ObjectCreated:CompleteMultipartUpload", bk, key, len(b), e2e.multipart_etag([b]))]
    if op in ("delete", "delete-nobucket"):
        r = cl.req("DELETE", path); return r, [("s3:ObjectRemoved:Delete", bk, key, None, None)]
    if op == "tag":
        r = cl.req("PUT", path, query={"tagging": ""}, body=b"<Tagging><TagSet><Tag><Key>k</Key><Value>v</Value></Tag></TagSet></Tagging>")
        return r, [("s3:ObjectTagging:Put", bk, key, None, None)]
    if op == "tag-malformed":
        r = cl.req("PUT", path, query={"tagging": ""}, body=b"<Tagging><TagSet><Tag>"); return r, [("s3:ObjectTagging:Put", bk, key, None, None)]
    if op == "untag":
        r = cl.req("DELETE", path, query={"tagging": ""}); return r, [("s3:ObjectTagging:Delete", bk, key, None, None)]
    if op == "batch-partial":
        body = "<Delete>" + "".join("<Object><Key>%s</Key></Object>" % k for k in rq["keys"] + rq["bad"]) + "</Delete>"
        r = cl.req("POST", "/" + bk, query={"delete": ""}, body=body.encode())
        errs = [e.findtext("Key") for e in r.xml().findall("Error")] if r.status == 200 and r.xml() is not None else []
        return r, [("s3:ObjectRemoved:DeleteObjects", bk, k, None, None) for k in rq["keys"] + [b for b in rq["bad"] if b not in errs]]
    if op == "batch":
        body = "<Delete>" + "".join("<Object><Key>%s</Key></Object>" % k for k in rq["keys"]) + "</Delete>"
        r = cl.req("POST", "/" + bk, query={"delete": ""}, body=body.encode())
        return r, [("s3:ObjectRemoved:DeleteObjects", bk, k, None, None) for k in rq["keys"]]
    raise ValueError(op)


def run(chk):
    quick = chk.tier == "quick"
    chk.rule = ("a case is one round: 8 client threads run 10-14 requests each concurrently against a gateway with a webhook receiver: successful put (5 sizes), "
                "CopyObject, multipart completion, delete, batch delete, tagging put / delete, and failing requests (missing bucket, digest mismatch, missing copy source, "
                "invalid part, malformed tagging, wrong secret) on keys of their own (incl. spaces, plus signs, non-ASCII) in three buckets; for each of six event-filter "
                "configurations. After the receiver is quiet the multiset of received (event type, bucket, key) is compared with the one the successful requests and the "
                "filter require, and size / ETag of each notification with the committed object. Non-trivial: every round; distinct by plan.")
    gwbin = gobuild.build_gateway("verif")
    built = coq.ensure_built(chk, TARGETS)
    if built:
        coq.check_assumptions(chk, "Properties.C19", THEOREMS)
    rnd = chk.rnd
    mcases = []
    rounds = 2 if quick else 12
    for fi, flt in enumerate(FILTERS):
        rc = Receiver()
        try:
            with gw.Site({"iam": False}, name="c19") as site:
                ga = ["--event-webhook-url", "http://127.0.0.1:%d/hook" % rc.port]
                if flt is not None:
                    fp = os.path.join(site.base, "filter.json"); json.dump(flt, open(fp, "w")); ga += ["--event-filter", fp]
                g = site.gateway(gwbin, global_args=ga)
                R = s3c.Client(g.port, "root", "rootsecret"); BAD = s3c.Client(g.port, "root", "not-the-secret")
                buckets = ["evb-%d-%d" % (fi, i) for i in range(3)]
                for b in buckets:
                    chk.require(R.req("PUT", "/" + b).status == 200, "c19:setup", "CreateBucket failed")
                rc.settle(0.3); rc.take()       # (the sender's test event)
                acc_got, acc_exp, acc_results, acc_log = [], [], [], []
                for rd in range(rounds):
                    plans = [plan(rnd, rd * 100 + t, rnd.randint(10, 14), buckets) for t in range(8)]
                    results = [[] for _ in plans]
                    def worker(t):
                        cl = s3c.Client(g.port, "root", "rootsecret")
                        for rq in plans[t]:
                            r, evs = execute(cl, BAD, rq)
                            ok = 200 <= r.status < 300 and (r.xml() is None or r.xml().tag != "Error")
                            results[t].append((rq, r.status, r.code, ok, evs))
                    ts = [threading.Thread(target=worker, args=(t,)) for t in range(len(plans))]
                    [t.start() for t in ts]; [t.join() for t in ts]
                    rc.settle()
                    docs = rc.take()
                    got = []
                    for d in docs:
                        try:
                            for rec in json.loads(d).get("Records", []):
                                o = rec["s3"]["object"]
                                got.append((rec.get("eventName"), rec["s3"]["bucket"].get("name"), o.get("key"), o.get("size"), e2e.etag_clean(o.get("eTag") or ""), rec["s3"]["bucket"].get("arn")))
                        except Exception as e:
                            chk.fail("c19:unparseable-notification", "the webhook received a document that is not an event record: %r (%s)" % (d[:120], e), {"doc": d[:300].decode("latin1")})
                    exp, reqlog = [], []
                    for t in results:
                        for rq, st, code, ok, evs in t:
                            reqlog.append((rq["op"], ok, [TYPES.index(e[0]) for e in evs]))
                            chk.count("filter%d:%s:%s" % (fi, rq["op"], "ok" if ok else st))
                            if ok:
                                exp += [e for e in evs if allowed_by(flt, e[0])]
                    acc_got += got; acc_exp += exp; acc_results += results; acc_log += reqlog
                    chk.case(("round", fi, rd, tuple(tuple(sorted(r.items(), key=str)) if False else str(r) for p in plans for r in p)), True); chk.traces += 1
                    if rd < rounds - 1:
                        continue
                    # notifications are delivered asynchronously: the comparison is made once, after the last round of this configuration
                    rc.settle(1.5, 20); late = rc.take()
                    for d in late:
                        for rec in json.loads(d).get("Records", []):
                            o = rec["s3"]["object"]
                            acc_got.append((rec.get("eventName"), rec["s3"]["bucket"].get("name"), o.get("key"), o.get("size"), e2e.etag_clean(o.get("eTag") or ""), rec["s3"]["bucket"].get("arn")))
                    got, exp, results = acc_got, acc_exp, acc_results
                    mcases.append((flt, acc_log, len(got)))
                    cg, ce = Counter((a, b, c) for a, b, c, _, _, _ in got), Counter((a, b, c) for a, b, c, _, _ in exp)
                    row = {"filter": flt, "round": rd, "requests": sum(len(p) for p in plans), "expected": len(exp), "received": len(got)}
                    missing, extra = ce - cg, cg - ce
                    for (ev, b, k), n in list(missing.items())[:3]:
                        twin = [x for x in got if x[0] == ev and (x[1] != b or x[2] != k) and (x[1], x[2]) not in [(e[1], e[2]) for e in exp if e[0] == ev]]
                        chk.fail("c19:missing-notification:%s" % ev.split(":", 1)[1], "filter %s: no notification %s for %s/%s although the request succeeded%s" % (
                            json.dumps(flt), ev, b, k, (" (a notification of that type names %s/%s instead, which no request touched)" % (twin[0][1], twin[0][2])) if twin else ""), dict(row, event=ev, bucket=b, key=k))
                    for (ev, b, k), n in list(extra.items())[:3]:
                        why = "the filter switches this event type off" if not allowed_by(flt, ev or "s3:x:y") else "no successful request produces it"
                        failed = [rq for t in results for rq, st, code, ok, evs in t if not ok and any(e[1] == b and e[2] == k for e in evs)]
                        if failed: why = "the request on that key failed (%s)" % failed[0]["op"]
                        chk.fail("c19:unexpected-notification:%s:%s" % ((ev or "?").split(":", 1)[-1], "failed-request" if failed else "filtered" if "filter" in why else "foreign"),
                                 "filter %s: %d notification(s) %s for %s/%s: %s" % (json.dumps(flt), n, ev, b, k, why), dict(row, event=ev, bucket=b, key=k))
                    # size / ETag of the matched notifications
                    want = {(a, b, c): (sz, et) for a, b, c, sz, et in exp if sz is not None}
                    for a, b, c, sz, et, arn in got:
                        if (a, b, c) in want:
                            wsz, wet = want[(a, b, c)]
                            if sz != wsz or (et and et != wet) or (not et and a != "s3:ObjectRemoved:Delete"):
                                chk.fail("c19:wrong-object-data:%s" % a.split(":", 1)[1], "the notification %s for %s/%s says size %r eTag %r; the committed object has %d bytes, ETag %s" % (a, b, c, sz, et, wsz, wet),
                                         dict(row, event=a, bucket=b, key=c)); break
                        if arn is not None and arn != "arn:aws:s3:::" + (b or ""):
                            chk.fail("c19:wrong-bucket-arn", "the notification for %s/%s names the bucket ARN %r" % (b, c, arn), dict(row, arn=arn)); break
                chk.tie("gateway still running (filter %d)" % fi, g.alive(), g.log_tail())
        finally:
            rc.close()
    versioned_batches(chk, gwbin)
    if built:
        unit_and_model(chk, mcases)


def versioned_batches(chk, gwbin):
    """a versioned bucket: one DeleteObjects request that removes several versions of one key (and versions of other keys) is
    announced once per removed version; a batch without version ids creates one delete marker per key, each announced"""
    rc = Receiver()
    try:
        with gw.Site({"iam": False, "versioning": True}, name="c19v") as site:
            g = site.gateway(gwbin, global_args=["--event-webhook-url", "http://127.0.0.1:%d/hook" % rc.port])
            R = s3c.Client(g.port, "root", "rootsecret")
            chk.require(R.req("PUT", "/evv").status == 200 and R.req("PUT", "/evv", query={"versioning": ""}, body=b"<VersioningConfiguration><Status>Enabled</Status></VersioningConfiguration>").status == 200, "c19:setup", "versioned bucket setup failed")
            vids = {}
            for k, n in (("doc", 3), ("other", 2), ("third", 1)):
                for i in range(n):
                    r = R.req("PUT", "/evv/" + k, body=b"v%d" % i); vids.setdefault(k, []).append(r.headers.get("x-amz-version-id"))
            rc.settle(0.6); rc.take()
            def events():
                rc.settle(1.0, 10); out = []
                for d in rc.take():
                    for rec in json.loads(d).get("Records", []):
                        o = rec["s3"]["object"]; out.append((rec.get("eventName"), o.get("key"), o.get("versionId") or ""))
                return sorted(out)
            # 1. several versions of one key in one request
            named = [("doc", vids["doc"][0]), ("doc", vids["doc"][1]), ("other", vids["other"][0])]
            body = "<Delete>" + "".join("<Object><Key>%s</Key><VersionId>%s</VersionId></Object>" % kv for kv in named) + "</Delete>"
            r = R.req("POST", "/evv", query={"delete": ""}, body=body.encode())
            deleted = sorted((d.findtext("Key"), d.findtext("VersionId") or "") for d in r.xml().findall("Deleted")) if r.status == 200 and r.xml() is not None else []
            got = events()
            chk.case(("versioned-batch", "several-versions-of-one-key"), True); chk.traces += 1
            if sorted(deleted) != sorted(named):
                chk.count("versioned-batch:not-all-deleted")
            if [(k, v) for _, k, v in got] != deleted and sorted(k for _, k, _ in got) != sorted(k for k, _ in deleted):
                chk.fail("c19:batch-of-versions:notifications-differ", "one DeleteObjects removed the versions %s; the notifications name %s" % (deleted, [(k, v) for _, k, v in got]),
                         {"request": named, "deleted": deleted, "notifications": got})
            # 2. a batch without version ids: one delete marker per key
            body = "<Delete>" + "".join("<Object><Key>%s</Key></Object>" % k for k in ("doc", "other", "third")) + "</Delete>"
            r = R.req("POST", "/evv", query={"delete": ""}, body=body.encode())
            deleted = sorted(d.findtext("Key") for d in r.xml().findall("Deleted")) if r.status == 200 and r.xml() is not None else []
            got = events()
            chk.case(("versioned-batch", "markers"), True); chk.traces += 1
            if sorted(k for _, k, _ in got) != deleted:
                chk.fail("c19:batch-of-versions:notifications-differ", "one DeleteObjects (no version ids, versioned bucket) deleted %s; the notifications name %s" % (deleted, [(k, v) for _, k, v in got]),
                         {"deleted": deleted, "notifications": got})
            # 3. a copy whose source names one version: the notification describes the object the copy created (its size, not 0)
            r1 = R.req("PUT", "/evv/sized", body=b"s" * 1234); v1 = r1.headers.get("x-amz-version-id", "")
            R.req("PUT", "/evv/sized", body=b"tiny!")
            rc.settle(0.6); rc.take()
            rcp = R.req("PUT", "/evv/sized-copy", headers={"x-amz-copy-source": "evv/sized?versionId=" + v1})
            rc.settle(1.0, 10); recs = [rec for d in rc.take() for rec in json.loads(d).get("Records", [])]
            seen = [(rec.get("eventName"), rec["s3"]["object"].get("key"), rec["s3"]["object"].get("size")) for rec in recs]
            chk.case(("versioned-copy", "named-source-version"), True); chk.traces += 1
            if rcp.status == 200 and [x for x in seen if x[1] == "sized-copy"] != [("s3:ObjectCreated:Copy", "sized-copy", 1234)]:
                chk.fail("c19:copy-of-version:notification-differs", "CopyObject from evv/sized?versionId=<the 1234-byte version> to sized-copy answered 200; the notifications are %r" % (seen,),
                         {"copy_status": rcp.status, "notifications": seen, "expected": [("s3:ObjectCreated:Copy", "sized-copy", 1234)]})
            # 4. many uploads of keys without "/" at the same time: every notification names its own request's key with that request's size
            import threading
            want = {}
            def burst(t):
                c_ = s3c.Client(g.port, "root", "rootsecret")
                for i in range(25):
                    k_ = "f%02d%03d" % (t, i); n_ = 10 + t * 40 + i
                    if c_.req("PUT", "/evv/" + k_, body=b"z" * n_).status == 200: want[k_] = n_
            ths = [threading.Thread(target=burst, args=(t,)) for t in range(10)]
            for t in ths: t.start()
            for t in ths: t.join()
            rc.settle(1.5, 20); recs = [rec for d in rc.take() for rec in json.loads(d).get("Records", [])]
            gotb = sorted((rec["s3"]["object"].get("key"), rec["s3"]["object"].get("size")) for rec in recs)
            chk.case(("concurrent-flat-keys", len(want)), True); chk.traces += 1; chk.count("concurrent-flat-key-puts:%d" % len(want))
            if gotb != sorted(want.items()):
                wrong = [x for x in gotb if want.get(x[0]) != x[1]][:5]; missing = sorted(set(want) - set(k_ for k_, _ in gotb))[:5]
                chk.fail("c19:concurrent-puts:notifications-differ", "%d concurrent uploads of keys without '/': notifications with a key and size that belong to no one request %r; keys without a notification %r" % (len(want), wrong, missing),
                         {"wrong": wrong, "missing": missing, "uploads": len(want), "notifications": len(gotb)})
            chk.tie("gateway still running (versioned batches)", g.alive(), g.log_tail())
    finally:
        rc.close()


def unit_and_model(chk, mcases):
    """T2 the real EventFilter.Filter = the model on every (configuration, event type); T3 the number of notifications of each round = the model's"""
    tool = gobuild.build_tool("corr")
    lines, meta = [], []
    allkeys = TYPES + ["s3:ObjectCreated:*", "s3:ObjectRemoved:*", "s3:ObjectTagging:*", "s3:ObjectAcl:Put", "s3:ObjectRestore:*", "s3:ObjectRestore:Post", "s3:ObjectCreated:Post"]
    rnd = chk.rnd
    cfgs = [f for f in FILTERS if f is not None] + [{k: rnd.random() < 0.5 for k in rnd.sample(allkeys, rnd.randint(0, 6))} for _ in range(80 if chk.tier == "quick" else 600)]
    for f in cfgs:
        for ev in allkeys:
            if ev.endswith("*"): continue
            lines.append("%s\t%s" % (json.dumps(f).encode().hex(), ev)); meta.append((f, ev))
    p = subprocess.run([tool, "eventfilter"], input=("\n".join(lines) + "\n").encode(), stdout=subprocess.PIPE, stderr=subprocess.PIPE, env=common.env(), timeout=120)
    outs = p.stdout.decode().splitlines()
    if p.returncode != 0 or len(outs) != len(lines):
        chk.tie("corr eventfilter ran", False, p.stderr.decode()[-800:]); return
    terms = []
    for (f, ev), o in zip(meta, outs):
        if (o == "1") != allowed_by(f, ev):
            chk.fail("c19:filter-decision", "EventFilter %s answers %s for %s" % (json.dumps(f), o, ev), {"filter": f, "event": ev})
        terms.append("(%s, %s, %s)" % (coq_list(["(%s, %s)" % (coq_str(k), coq_bool(v)) for k, v in f.items()]), coq_str(ev), coq_bool(o == "1")))
    text = ("From Coq Require Import String List Bool ZArith.\nFrom VGW Require Import Base.GoStr Model.Events Check.Common Check.EventsCheck.\nImport ListNotations.\nOpen Scope string_scope.\n")
    text += "Definition fcases : list (list (string * bool) * string * bool) :=\n " + coq_list(terms).replace("); (", ");\n (") + ".\nDefinition MF := Eval vm_compute in bad filter_ok fcases.\nPrint MF.\n"
    rterms = []
    for flt, reqlog, n in mcases:
        fl = "None" if flt is None else "(Some %s)" % coq_list(["(%s, %s)" % (coq_str(k), coq_bool(v)) for k, v in flt.items()])
        rterms.append("(%s, %s, %d%%nat)" % (fl, coq_list(["(%s, %s)" % (coq_bool(ok), coq_list(["%d%%nat" % i for i in evs])) for _op, ok, evs in reqlog]), n))
    text += "Definition rcases : list (option (list (string * bool)) * list (bool * list nat) * nat) :=\n " + coq_list(rterms) + ".\nDefinition MR := Eval vm_compute in bad round_ok rcases.\nPrint MR.\n"
    rc, out = coq.run_cases("C19_cases", text)
    mf, mr = coq.printed_list(out, "MF"), coq.printed_list(out, "MR")
    if rc != 0 or mf is None or mr is None:
        chk.tie("case file evaluates", False, out[-2500:]); return
    chk.tie("T2 s3event.EventFilter.Filter = Model.Events.filter_allows on %d (configuration, event) pairs" % len(terms), not mf, [str(meta[int(i)]) for i in mf[:5]])
    chk.tie("T3 number of notifications received under concurrent load = length of Model.Events.all_events (%d filter configurations)" % len(mcases), not mr, [{"filter": mcases[int(i)][0], "received": mcases[int(i)][2]} for i in mr[:5]])


def replay(chk, data):
    print(json.dumps(data.get("replay"), indent=1, default=str))
    return 0
