"""C17 — Account changes take effect immediately and completely (DESIGN.md §7 C17)."""
import json, os, subprocess
from vlib import common, coq, gobuild, gw, s3c
from vlib.common import coq_str, coq_list

THEOREMS = ["C17_coherent", "C17_concurrent_lookup"]
TARGETS = ["Properties/C17.vo", "Check/IamCheck.vo"]
ACCS = ["u1", "u2", "u3", "root"]
ROLES = ["user", "userplus", "admin"]


def gen_history(rnd):
    ops = []
    n = rnd.randrange(3, 14)
    for _ in range(n):
        a = rnd.choice(ACCS if rnd.random() < 0.93 else ["zz"])
        r = rnd.random()
        if r < 0.28:
            ops.append(("C", a, rnd.choice(["s1", "s2", "sec ret"]), rnd.choice(ROLES), rnd.choice([0, 1000, 1234]), rnd.choice([0, 2345, 7])))
        elif r < 0.45:
            ops.append(("U", a, rnd.choice([None, "n1", "n2"]), rnd.choice([None, 5, 6]), rnd.choice([None, 8])))
        elif r < 0.60:
            ops.append(("D", a))
        else:
            ops.append(("L", a))
    return ops


def enc_op(o):
    hx = lambda s: s.encode().hex()
    if o[0] == "C": return "C:%s:%s:%s:%d:%d" % (hx(o[1]), hx(o[2]), hx(o[3]), o[4], o[5])
    if o[0] == "U": return "U:%s:%s:%s:%s" % (hx(o[1]), hx(o[2]) if o[2] is not None else "~", o[3] if o[3] is not None else "~", o[4] if o[4] is not None else "~")
    return "%s:%s" % (o[0], hx(o[1]))


def coq_op(o):
    z = lambda v: "None" if v is None else "(Some (%d)%%Z)" % v
    if o[0] == "C":
        return "Create %s {| secret := %s; role := %s; uid := (%d)%%Z; gid := (%d)%%Z |}" % (coq_str(o[1]), coq_str(o[2]), coq_str(o[3]), o[4], o[5])
    if o[0] == "U":
        return "Update %s {| p_secret := %s; p_uid := %s; p_gid := %s |}" % (
            coq_str(o[1]), "None" if o[2] is None else "(Some %s)" % coq_str(o[2]), z(o[3]), z(o[4]))
    return "%s %s" % ({"D": "Delete", "L": "Lookup"}[o[0]], coq_str(o[1]))


def coq_out(x):
    if x == "OK": return "OK"
    if x == "EXISTS": return "Exists"
    if x == "NOSUCH": return "NoSuchUser"
    if x.startswith("F:"):
        _, s, r, u, g = x.split(":")
        return "(Found {| secret := %s; role := %s; uid := (%s)%%Z; gid := (%s)%%Z |})" % (
            coq_str(bytes.fromhex(s).decode()), coq_str(bytes.fromhex(r).decode()), u, g)
    return None


CORPUS = [
    [("C", "u1", "s1", "user", 1234, 2345), ("L", "u1")],
    [("C", "u1", "s1", "user", 1, 2), ("C", "u1", "s2", "admin", 3, 4), ("L", "u1"), ("L", "u2")],
    [("C", "u1", "s1", "user", 1, 2), ("U", "u9", "x", None, None), ("L", "u1"), ("C", "u2", "s", "user", 0, 0), ("L", "u2")],
    [("C", "u1", "s1", "user", 1, 2), ("U", "u1", "n1", None, 8), ("L", "u1"), ("D", "u1"), ("L", "u1"), ("C", "u1", "s3", "userplus", 9, 9), ("L", "u1")],
    [("C", "root", "x", "user", 1, 1), ("L", "root"), ("D", "root"), ("L", "root"), ("U", "root", "n", None, None)],
]


def admin_xml(access, secret, role, uid, gid):
    return ("<Account><Access>%s</Access><Secret>%s</Secret><Role>%s</Role><UserID>%d</UserID><GroupID>%d</GroupID></Account>" % (
        access, secret, role, uid, gid)).encode()


def run(chk):
    quick = chk.tier == "quick"
    n_hist = 300 if quick else 3000
    chk.rule = ("a history is a sequence of 3-14 create/update/delete/lookup operations over 4 account names incl. the root name, run "
                "against the real IAMCache over the real file store with cache TTL 1 h and TTL 0; non-trivial when it has a successful "
                "mutation followed by a lookup of that account; plus three hook-driven schedules of a lookup with a delete, and an "
                "admin-API history against the real gateway with --chuid/--chgid. Distinct by content.")
    corr = gobuild.build_tool("corr")
    gwbin = gobuild.build_gateway("verif")
    built = coq.ensure_built(chk, TARGETS)
    if built:
        coq.check_assumptions(chk, "Properties.C17", THEOREMS)
    rnd = chk.rnd

    hists = [(t, h) for h in CORPUS for t in ("big", "zero")]
    while len(hists) < n_hist:
        hists.append((rnd.choice(["big", "zero"]), gen_history(rnd)))
    lines = ["%s\t%s" % (t, ",".join(enc_op(o) for o in h)) for t, h in hists]
    obs = subprocess.run([corr, "iam"], input=("\n".join(lines) + "\n").encode(), stdout=subprocess.PIPE, timeout=600,
                         env=common.env()).stdout.decode().split("\n")[:len(hists)]
    hterms, hmeta = [], []
    for (t, h), o in zip(hists, obs):
        outs = o.split("|")
        co = [coq_out(x) for x in outs]
        meta = {"ttl": t, "ops": [list(x) for x in h], "observed": outs}
        muts = set()
        nt = False
        for op, x in zip(h, outs):
            if op[0] in ("C", "U", "D") and x == "OK": muts.add(op[1])
            if op[0] == "L" and op[1] in muts: nt = True
        chk.case(("h", t, tuple(h)), nt)
        chk.count("history:ttl=%s:%s" % (t, "nontrivial" if nt else "trivial"))
        if o == "PANIC" or None in co or len(outs) != len(h):
            chk.fail("c17:store-error", "an account operation failed with an internal error: %s" % [x for x in outs if coq_out(x) is None][:2], meta)
            continue
        hterms.append("{| h_ttl := %s; h_ops := %s; h_obs := %s |}" % ("3600" if t == "big" else "0", coq_list([coq_op(x) for x in h]), coq_list(co)))
        hmeta.append(meta)
    chk.samples.append(hmeta[len(CORPUS) * 2 + 1])

    # schedules through the hooks
    scheds = [("inflight", "[StepLookup; StepDelete; StepDelete; StepLookup]"), ("held-enter", "[StepLookup; StepLookup; StepDelete; StepDelete]"),
              ("after", "[StepDelete; StepDelete; StepLookup; StepLookup]")]
    sobs = subprocess.run([corr, "iamsched"], input=("\n".join(s for s, _ in scheds) + "\n").encode(), stdout=subprocess.PIPE, timeout=120,
                          env=common.env()).stdout.decode().split("\n")[:len(scheds)]
    sterms, smeta = [], []
    for (name, sched), o in zip(scheds, sobs):
        chk.case(("s", name), True)
        chk.count("schedule:%s:%s" % (name, o.split(":")[0]))
        chk.traces += 1
        if o.startswith("BLOCKED|"):
            # the implementation serialised the delete behind the lookup in flight: the schedule executed is L L D D
            o = o[8:]
            sched = {"inflight": "[StepLookup; StepLookup; StepDelete; StepDelete]", "held-enter": "[StepDelete; StepDelete; StepLookup; StepLookup]"}[name]
            name += " (the second operation waited for the held one)"
        co = coq_out(o)
        meta = {"schedule": name, "model_schedule": sched, "final_lookup": o}
        if co is None:
            chk.tie("hook-driven schedule %s ran" % name, False, meta)
            continue
        sterms.append("{| s_sched := %s; s_final := %s |}" % (sched, co))
        smeta.append(meta)
    chk.samples.append(smeta[0] if smeta else {})

    # ---- T3: the real gateway, admin API, ownership of created files
    with gw.Site({"iam": True, "chown": True}, name="c17") as site:
        g = site.gateway(gwbin)
        root = s3c.Client(g.port, "root", "rootsecret")
        chk.require(root.req("PUT", "/bk1").status == 200, "c17:setup", "CreateBucket failed")
        ev = []
        r = root.req("PATCH", "/create-user", body=admin_xml("ua", "sa1", "admin", 1234, 2345))
        ev.append(("create-user ua", r.status))
        ua = s3c.Client(g.port, "ua", "sa1")
        r1 = ua.req("PUT", "/bk1/owned-by-ua", body=b"x")
        ev.append(("first PUT by the new account", r1.status))
        st = os.stat(os.path.join(site.root, "bk1", "owned-by-ua")) if r1.status == 200 else None
        ev.append(("owner of the created file", (st.st_uid, st.st_gid) if st else None))
        if r.status not in (200, 201) or r1.status != 200:
            chk.fail("c17:new-account-not-usable", "a new account does not work at once: %s" % ev, {"events": ev})
        elif (st.st_uid, st.st_gid) != (1234, 2345):
            chk.fail("c17:new-account-uid-gid-missing", "the first object of a new account created with uid 1234 / gid 2345 is owned by %d:%d" % (st.st_uid, st.st_gid), {"events": ev})
        # change the secret: old one must stop working at once, new one must work
        r = root.req("PATCH", "/update-user", query={"access": "ua"}, body=b"<MutableProps><Secret>sa2</Secret><UserID>1500</UserID></MutableProps>")
        old = ua.req("GET", "/bk1/owned-by-ua")
        new = s3c.Client(g.port, "ua", "sa2").req("GET", "/bk1/owned-by-ua")
        ev += [("update-user secret", r.status), ("GET with old secret", old.status), ("GET with new secret", new.status)]
        if r.status == 200 and (old.status == 200 or new.status != 200):
            chk.fail("c17:secret-change-not-immediate", "after update-user: old secret %d, new secret %d" % (old.status, new.status), {"events": ev})
        r2 = s3c.Client(g.port, "ua", "sa2").req("PUT", "/bk1/second", body=b"y")
        st2 = os.stat(os.path.join(site.root, "bk1", "second")) if r2.status == 200 else None
        ev.append(("owner after uid update", (st2.st_uid, st2.st_gid) if st2 else None))
        if st2 and (st2.st_uid, st2.st_gid) != (1500, 2345):
            chk.fail("c17:uid-update-not-immediate", "after update-user UserID=1500 the next object is owned by %d:%d" % (st2.st_uid, st2.st_gid), {"events": ev})
        # the account (admin role) rotates its own secret: the request that made the change was the last one verified, and it
        # was verified for this very account under the old secret
        me = s3c.Client(g.port, "ua", "sa2")
        r = me.req("PATCH", "/update-user", query={"access": "ua"}, body=b"<MutableProps><Secret>sa3</Secret></MutableProps>")
        old = me.req("GET", "/bk1/owned-by-ua")
        new = s3c.Client(g.port, "ua", "sa3").req("GET", "/bk1/owned-by-ua")
        ev += [("update-user by the account itself", r.status), ("GET with old secret", old.status), ("GET with new secret", new.status)]
        chk.case(("history", "self-rotation"), True); chk.traces += 1
        if r.status == 200 and (old.status == 200 or new.status != 200):
            chk.fail("c17:self-secret-change-not-immediate", "after an account changed its own secret: old secret %d, new secret %d" % (old.status, new.status), {"events": ev})
        if r.status != 200:
            root.req("PATCH", "/update-user", query={"access": "ua"}, body=b"<MutableProps><Secret>sa3</Secret></MutableProps>")
        # delete: rejected at once, also through a second gateway process sharing the IAM directory after its cache entry expires
        r = root.req("PATCH", "/delete-user", query={"access": "ua"})
        gone = s3c.Client(g.port, "ua", "sa3").req("GET", "/bk1/owned-by-ua")
        ev += [("delete-user", r.status), ("GET by the deleted account", gone.status, gone.code)]
        if r.status == 200 and gone.status == 200:
            chk.fail("c17:deleted-account-still-works", "a deleted account is still served: %s" % ev, {"events": ev})
        # an update of an account the gateway has not looked up since it started (nothing of it is cached): the account keeps every
        # attribute the update does not name
        root.req("PATCH", "/create-user", body=admin_xml("ub", "sb1", "admin", 1700, 1800))
        g.restart(); root = s3c.Client(g.port, "root", "rootsecret")
        r = root.req("PATCH", "/update-user", query={"access": "ub"}, body=b"<MutableProps><Secret>sb2</Secret></MutableProps>")
        ub = s3c.Client(g.port, "ub", "sb2")
        la = ub.req("PATCH", "/list-users"); pu = ub.req("PUT", "/bk1/by-ub", body=b"z")
        stb = os.stat(os.path.join(site.root, "bk1", "by-ub")) if pu.status == 200 else None
        ev += [("restart, then update-user ub secret", r.status), ("list-users by ub (admin role) with the new secret", la.status, la.code), ("PUT by ub", pu.status, (stb.st_uid, stb.st_gid) if stb else None)]
        chk.case(("history", "update-uncached-secret"), True); chk.traces += 1
        if r.status == 200 and (la.status != 200 or pu.status != 200 or (stb.st_uid, stb.st_gid) != (1700, 1800)):
            chk.fail("c17:update-of-uncached-account", "after a restart update-user changed the secret of the admin account ub (uid 1700, gid 1800): list-users by ub answers %d %s, its PUT %d, the file is owned by %s" % (
                la.status, la.code, pu.status, (stb.st_uid, stb.st_gid) if stb else None), {"events": ev[-3:]})
        g.restart(); root = s3c.Client(g.port, "root", "rootsecret")
        r = root.req("PATCH", "/update-user", query={"access": "ub"}, body=b"<MutableProps><UserID>1900</UserID></MutableProps>")
        ub = s3c.Client(g.port, "ub", "sb2")
        pu = ub.req("PUT", "/bk1/by-ub2", body=b"z"); la = ub.req("PATCH", "/list-users")
        stb = os.stat(os.path.join(site.root, "bk1", "by-ub2")) if pu.status == 200 else None
        ev += [("restart, then update-user ub UserID", r.status), ("PUT by ub", pu.status, (stb.st_uid, stb.st_gid) if stb else None), ("list-users by ub", la.status)]
        chk.case(("history", "update-uncached-uid"), True); chk.traces += 1
        if r.status == 200 and (pu.status != 200 or la.status != 200 or (stb.st_uid, stb.st_gid) != (1900, 1800)):
            chk.fail("c17:update-of-uncached-account", "after a restart update-user changed the uid of ub to 1900: its PUT (unchanged secret) answers %d %s, list-users %d, the file is owned by %s" % (
                pu.status, pu.code, la.status, (stb.st_uid, stb.st_gid) if stb else None), {"events": ev[-3:]})
        root.req("PATCH", "/delete-user", query={"access": "ub"})
        # concurrent admin mutations through one gateway: none lost, store stays parseable
        import threading
        def mk(i):
            root.req("PATCH", "/create-user", body=admin_xml("cu%d" % i, "s%d" % i, "user", i, i))
        ts = [threading.Thread(target=mk, args=(i,)) for i in range(12)]
        [t.start() for t in ts]; [t.join() for t in ts]
        lst = root.req("PATCH", "/list-users")
        names = sorted(x.findtext("Access") for x in (lst.xml().iter("Accounts") if lst.xml() is not None else []))
        ev.append(("users after 12 concurrent creates", names))
        want = sorted("cu%d" % i for i in range(12))
        if lst.status != 200 or names != want:
            chk.fail("c17:concurrent-mutations-lost", "12 concurrent create-user calls left %s (list-users %d)" % (names, lst.status), {"events": ev})
        try:
            json.load(open(os.path.join(site.iamdir, "users.json")))
        except Exception as e:
            chk.fail("c17:store-corrupt", "users.json does not parse after concurrent changes: %r" % e, {"events": ev})
        chk.case(("e2e", "admin"), True)
        chk.traces += 1
        chk.samples.append({"admin_api_history": [list(map(str, e)) for e in ev]})
        chk.tie("gateway still running after the admin history", g.alive(), g.log_tail())

    prune_schedule(chk, gwbin)
    s3_object_store(chk, gwbin)
    if not built:
        return
    text = ("From Coq Require Import String List ZArith Bool.\nFrom VGW Require Import Model.IamCache Spec.IamSpec Check.Common Check.IamCheck.\n"
            "Import ListNotations.\nOpen Scope string_scope.\n")
    text += "Definition hcases : list hcase :=\n " + coq_list(hterms).replace("; {| h_ttl", ";\n {| h_ttl") + ".\n"
    text += "Definition scases : list scase := " + coq_list(sterms) + ".\n"
    text += ("Definition MH := Eval vm_compute in bad hist_ok hcases.\nPrint MH.\nDefinition VH := Eval vm_compute in bad hist_spec_ok hcases.\nPrint VH.\n"
             "Definition MS := Eval vm_compute in bad sched_ok scases.\nPrint MS.\nDefinition VS := Eval vm_compute in bad sched_spec_ok scases.\nPrint VS.\n")
    rc, out = coq.run_cases("C17_cases", text)
    mh, vh, ms, vs = (coq.printed_list(out, x) for x in ("MH", "VH", "MS", "VS"))
    if rc != 0 or None in (mh, vh, ms, vs):
        chk.tie("case file evaluates", False, out[-3000:])
        return
    chk.tie("T2 real IAMCache over the real internal store = Model.IamCache.run on %d histories" % len(hterms), not mh, [hmeta[int(i)] for i in mh[:4]])
    chk.tie("T4 hook-driven lookup/delete schedules = Model.IamCache.sched_step on %d schedules" % len(sterms), not ms, [smeta[int(i)] for i in ms[:4]])
    for i in vh:
        m = hmeta[int(i)]
        chk.fail("c17:history-differs-from-account-map", "a history of account operations is not answered like the plain account map: %s -> %s" % (m["ops"], m["observed"]), m)
    for i in vs:
        m = smeta[int(i)]
        key = "c17:lookup-in-flight-during-delete" if m["schedule"].startswith("inflight") else "c17:deleted-account-served:" + m["schedule"]
        chk.fail(key, "schedule %s: after delete-user returned, a lookup still answers %s" % (m["schedule"], m["final_lookup"]), m)



def prune_schedule(chk, gwbin):
    """the periodic prune of the account cache parked at the end of its scan (yield point iamcache.gc.scanned) while delete-user /
    update-user run: once they are acknowledged the cache shows their effect, whatever the prune does afterwards"""
    import threading
    from vlib import hooks
    with gw.Site({"iam": True}, name="c17g") as site:
        hk = hooks.Hooks(site.base)
        g = site.gateway(gwbin, extra_env=hk.env(), global_args=["--iam-cache-prune", "1"])
        root = s3c.Client(g.port, "root", "rootsecret")
        chk.require(root.req("PUT", "/bk1").status == 200, "c17:setup", "CreateBucket failed")
        for what in ("delete", "update"):
            acc = "gc" + what
            root.req("PATCH", "/create-user", body=admin_xml(acc, "s1", "admin", 0, 0))
            first = s3c.Client(g.port, acc, "s1").req("PATCH", "/list-users")        # (the account is in the cache now)
            hk.hold("iamcache.gc.scanned")
            parked = hk.wait_at("iamcache.gc.scanned", 4.0)
            res = {}
            def mutate():
                if what == "delete": res["r"] = root.req("PATCH", "/delete-user", query={"access": acc}, timeout=20)
                else: res["r"] = root.req("PATCH", "/update-user", query={"access": acc}, body=b"<MutableProps><Secret>s2</Secret></MutableProps>", timeout=20)
            t = threading.Thread(target=mutate); t.start(); t.join(1.5)       # (the unchanged code holds the cache's lock while parked: the mutation waits)
            waited = t.is_alive()
            hk.release("iamcache.gc.scanned"); hk.clear(); t.join(20)
            import time as _t; _t.sleep(0.3)
            after_old = s3c.Client(g.port, acc, "s1").req("PATCH", "/list-users")
            after_new = s3c.Client(g.port, acc, "s2").req("PATCH", "/list-users") if what == "update" else None
            r = res.get("r")
            row = {"mutation": what, "prune_parked": parked, "mutation_waited_for_the_prune": waited, "mutation_status": r.status if r is not None else None, "first_use": first.status,
                   "old_secret_after": after_old.status, "new_secret_after": after_new.status if after_new is not None else None}
            chk.case(("prune-schedule", what), parked); chk.traces += 1; chk.count("prune-schedule:%s:%s" % (what, "parked" if parked else "not-parked"))
            if not parked:
                chk.tie("the prune of the account cache reaches its yield point within 4 s (--iam-cache-prune 1)", False, row); continue
            if r is not None and r.status == 200 and (after_old.status == 200 or (after_new is not None and after_new.status != 200)):
                chk.fail("c17:mutation-lost-to-cache-prune:" + what, "%s-user of a cached account acknowledged while a prune of the cache was between its scan and its end: afterwards the old secret answers %d%s" % (
                    what, after_old.status, "" if after_new is None else ", the new secret %d" % after_new.status), row)
        chk.tie("gateway still running after the prune schedules", g.alive(), g.log_tail())


class Relay:
    """an HTTP relay in front of the object store that keeps the accounts; while fail is set, a GET of the accounts object is answered
    with that status instead (the object store is briefly unavailable)"""
    def __init__(self, target_port):
        import http.server, socketserver, threading, http.client
        relay = self
        self.fail = None; self.failed = 0
        class H(http.server.BaseHTTPRequestHandler):
            protocol_version = "HTTP/1.1"
            def log_message(self, *a): pass
            def handle_one(self):
                n = int(self.headers.get("Content-Length") or 0)
                body = self.rfile.read(n) if n else b""
                if relay.fail and self.command == "GET" and "users.json" in self.path:
                    relay.failed += 1
                    doc = b'<?xml version="1.0" encoding="UTF-8"?><Error><Code>ServiceUnavailable</Code><Message>Please reduce your request rate.</Message></Error>'
                    self.send_response(relay.fail); self.send_header("Content-Type", "application/xml"); self.send_header("Content-Length", str(len(doc))); self.end_headers(); self.wfile.write(doc); return
                c = http.client.HTTPConnection("127.0.0.1", target_port, timeout=20)
                c.putrequest(self.command, self.path, skip_host=True, skip_accept_encoding=True)
                for k, v in self.headers.items(): c.putheader(k, v)
                c.endheaders(); c.send(body) if body else None
                r = c.getresponse(); data = r.read()
                self.send_response(r.status)
                for k, v in r.getheaders():
                    if k.lower() not in ("transfer-encoding", "content-length", "connection"): self.send_header(k, v)
                self.send_header("Content-Length", str(len(data))); self.end_headers()
                if self.command != "HEAD": self.wfile.write(data)
                c.close()
            do_GET = do_PUT = do_HEAD = do_DELETE = do_POST = handle_one
        class S(socketserver.ThreadingMixIn, http.server.HTTPServer):
            daemon_threads = True
        self.srv = S(("127.0.0.1", 0), H); self.port = self.srv.server_address[1]
        threading.Thread(target=self.srv.serve_forever, daemon=True).start()
    def close(self):
        self.srv.shutdown(); self.srv.server_close()


def s3_object_store(chk, gwbin):
    """accounts kept as one object in an S3 bucket (--s3-iam-*), cache switched off: an account change made while the object store
    is briefly unavailable is refused or takes effect, and never costs the accounts created before"""
    with gw.Site({"iam": False}, name="c17e") as se:
        ge = se.gateway(gwbin)
        E = s3c.Client(ge.port, "root", "rootsecret")
        chk.require(E.req("PUT", "/iambkt").status == 200, "c17:setup", "creating the bucket that holds the accounts failed")
        relay = Relay(ge.port)
        try:
            with gw.Site({"iam": False}, name="c17g") as sg:
                g = sg.gateway(gwbin, global_args=["--s3-iam-access", "root", "--s3-iam-secret", "rootsecret", "--s3-iam-region", "us-east-1", "--s3-iam-bucket", "iambkt",
                                                   "--s3-iam-endpoint", "http://127.0.0.1:%d" % relay.port, "--s3-iam-noverify", "--iam-cache-disable"])
                R = s3c.Client(g.port, "root", "rootsecret")
                def users():
                    r = R.req("PATCH", "/list-users")
                    return sorted(a.findtext("Access") for a in r.xml().iter("Accounts")) if r.status == 200 and r.xml() is not None else ("error", r.status, r.code)
                def create(a): return R.req("PATCH", "/create-user", body=admin_xml(a, a + "-secret", "userplus", 0, 0))
                ok = create("u1").status in (200, 201) and create("u2").status in (200, 201)
                chk.require(ok and users() == ["u1", "u2"], "c17:setup", "creating accounts in the S3 object store failed: %s" % (users(),))
                R.req("PUT", "/bk1"); U1 = s3c.Client(g.port, "u1", "u1-secret")
                chk.require(U1.req("PUT", "/u1bucket").status == 200, "c17:setup", "an account of the S3 object store cannot create a bucket")
                expect = ["u1", "u2"]
                for status, opname in ((503, "create"), (500, "create"), (503, "update"), (500, "delete"), (403, "create")):
                    relay.fail = status
                    if opname == "create":
                        nm = "n%d" % len(expect); r = create(nm)
                        if r.status in (200, 201): expect = sorted(expect + [nm])
                    elif opname == "update":
                        r = R.req("PATCH", "/update-user", query={"access": "u2"}, body=b"<MutableProps><Secret>u2-new</Secret></MutableProps>")
                    else:
                        r = R.req("PATCH", "/delete-user", query={"access": "u2"})
                        if r.status == 200: expect = [x for x in expect if x != "u2"]
                    relay.fail = None
                    got = users(); still = U1.req("GET", "/u1bucket", query={"list-type": "2"}).status
                    chk.case(("s3-iam-store", opname, status), True); chk.traces += 1
                    chk.count("s3-iam-store:%s-while-%d:%d" % (opname, status, r.status))
                    if got != expect or still != 200:
                        chk.fail("c17:accounts-lost:s3-object-store", "accounts kept in an S3 object: while GETs of the accounts object were answered %d, %s-user answered %d %s; afterwards list-users shows %s (acknowledged so far: %s) and a request by u1 answers %d"
                                 % (status, opname, r.status, r.code, got, expect, still), {"injected_status": status, "operation": opname, "answer": r.status, "list_users": got, "acknowledged": expect, "request_by_u1": still})
                        break
                chk.tie("gateway with the S3 object IAM store still running (%d injected failures)" % relay.failed, g.alive(), g.log_tail())
        finally:
            relay.close()

def replay(chk, data):
    print(json.dumps(data.get("replay"), indent=1, default=str))
    return 0
