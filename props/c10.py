"""C10 — Object Lock protections cannot be circumvented (DESIGN.md §7 C10)."""
import datetime, hashlib, json, os
from vlib import common, coq, gobuild, gw, s3c, e2e, gen
from vlib.common import coq_str, coq_list, coq_bool, coq_opt

THEOREMS = ["C10_allowed_means_unprotected", "C10_protected_version_survives", "C10_compliance_never_weakened", "C10_governance_needs_bypass_permission", "C10_retention_overwrite_rule", "C10_default_rule_protects", "C10_destructive_routes_checked"]
TARGETS = ["Properties/C10.vo", "Check/LockCheck.vo", "Check/LockRouteCheck.vo"]
P = b"protected-content-" + bytes(range(40))
OTHER = b"attacker-content"
USERS = [("adm", "admin"), ("own", "userplus"), ("usr", "user"), ("byp", "user")]
PROTECTIONS = ["hold", "compliance", "governance", "put-headers-compliance", "default-compliance", "default-governance", "hold+governance",
               "compliance-noncurrent", "governance-noncurrent", "hold-noncurrent"]     # (non-current: the protected version has been superseded before it is protected; versioned only)


def iso(dt):
    return dt.strftime("%Y-%m-%dT%H:%M:%SZ")


def policy(bk):
    acts = ["s3:PutObject", "s3:GetObject", "s3:GetObjectVersion", "s3:DeleteObject", "s3:PutObjectRetention", "s3:GetObjectRetention",
            "s3:PutObjectLegalHold", "s3:GetObjectLegalHold", "s3:PutBucketObjectLockConfiguration",
            "s3:PutBucketVersioning", "s3:DeleteBucket", "s3:ListBucket", "s3:ListBucketVersions", "s3:AbortMultipartUpload", "s3:PutObjectTagging",
            "s3:PutBucketPolicy", "s3:DeleteBucketPolicy", "s3:PutObjectAcl", "s3:PutBucketAcl"]
    res = ["arn:aws:s3:::%s" % bk, "arn:aws:s3:::%s/*" % bk]
    return json.dumps({"Version": "2012-10-17", "Statement": [
        {"Effect": "Allow", "Principal": {"AWS": ["usr", "own", "adm"]}, "Action": acts, "Resource": res},
        {"Effect": "Allow", "Principal": {"AWS": ["byp"]}, "Action": acts + ["s3:BypassGovernanceRetention"], "Resource": res}]}).encode()


class Scenario:
    """a bucket with one protected object version"""
    def __init__(self, chk, root, clients, versioned, protection, n):
        self.chk, self.root, self.clients, self.versioned, self.protection = chk, root, clients, versioned, protection
        self.bk = "lk%s%04d" % ("v" if versioned else "u", n)
        self.key = "locked/doc"
        self.vid = None
        self.until = datetime.datetime.utcnow().replace(microsecond=0) + datetime.timedelta(hours=2)
        self.ok = self.setup()

    def setup(self):
        R, bk = self.root, self.bk
        ok = R.req("PUT", "/" + bk, headers={"x-amz-bucket-object-lock-enabled": "true"}).status == 200
        ok &= R.req("PUT", "/" + bk, query={"policy": ""}, body=policy(bk)).status in (200, 204)
        ok &= R.req("PUT", "/%s/other" % bk, body=OTHER).status == 200
        ok &= R.req("PUT", "/%s/%s.bak" % (bk, self.key), body=OTHER).status == 200          # a source whose name extends the protected key's
        pr = self.protection
        if pr.startswith("default-"):
            mode = "COMPLIANCE" if pr.endswith("compliance") else "GOVERNANCE"
            ok &= R.req("PUT", "/" + bk, query={"object-lock": ""}, body=(
                "<ObjectLockConfiguration><ObjectLockEnabled>Enabled</ObjectLockEnabled><Rule><DefaultRetention><Mode>%s</Mode><Days>1</Days></DefaultRetention></Rule></ObjectLockConfiguration>" % mode).encode()).status in (200, 204)
        hd = {}
        if pr == "put-headers-compliance":
            hd = {"x-amz-object-lock-mode": "COMPLIANCE", "x-amz-object-lock-retain-until-date": iso(self.until)}
        r = R.req("PUT", "/%s/%s" % (bk, self.key), body=P, headers=hd)
        ok &= r.status == 200
        self.vid = r.headers.get("x-amz-version-id") if self.versioned else None
        vq = {}
        if pr.endswith("-noncurrent"):
            ok &= R.req("PUT", "/%s/%s" % (bk, self.key), body=OTHER + b"-newer").status == 200
            vq = {"versionId": self.vid}
        if "hold" in pr:
            ok &= R.req("PUT", "/%s/%s" % (bk, self.key), query=dict(vq, **{"legal-hold": ""}), body=b"<LegalHold><Status>ON</Status></LegalHold>").status in (200, 204)
        if pr.split("-")[0] in ("compliance", "governance", "hold+governance") and not pr.startswith("put-"):
            mode = "COMPLIANCE" if pr.startswith("compliance") else "GOVERNANCE"
            ok &= R.req("PUT", "/%s/%s" % (bk, self.key), query=dict(vq, retention=""),
                        body=("<Retention><Mode>%s</Mode><RetainUntilDate>%s</RetainUntilDate></Retention>" % (mode, iso(self.until))).encode()).status in (200, 204)
        self.state0 = self.lock_state()
        return ok and self.intact() is None

    def lock_state(self):
        """(mode, until, hold) of the protected version as the gateway reports it"""
        q = {"versionId": self.vid} if self.vid else {}
        r = self.root.req("GET", "/%s/%s" % (self.bk, self.key), query=dict(q, retention=""))
        mode = until = None
        if r.status == 200 and r.xml() is not None:
            mode, until = r.xml().findtext("Mode"), r.xml().findtext("RetainUntilDate")
        h = self.root.req("GET", "/%s/%s" % (self.bk, self.key), query=dict(q, **{"legal-hold": ""}))
        hold = h.xml().findtext("Status") if h.status == 200 and h.xml() is not None else None
        return (mode, (until or "")[:19], hold)

    def intact(self):
        """None when the protected version is still retrievable byte-identical, else a description"""
        q = {"versionId": self.vid} if self.vid else {}
        r = self.root.req("GET", "/%s/%s" % (self.bk, self.key), query=q)
        if r.status != 200:
            return "GET of the protected version answers %d %s" % (r.status, r.code)
        if r.body != P:
            return "the protected version now reads %d bytes (md5 %s), it was written as %d bytes (md5 %s)" % (len(r.body), hashlib.md5(r.body).hexdigest()[:8], len(P), hashlib.md5(P).hexdigest()[:8])
        return None

    def weakened(self, caller_may_bypass):
        """None when the protection is as strong as at setup, else a description"""
        m0, u0, h0 = self.state0
        m1, u1, h1 = self.lock_state()
        if h0 == "ON" and h1 != "ON":
            return None      # ending a legal hold is an authorised operation (s3:PutObjectLegalHold); reported separately when not asked for
        if m0 == "COMPLIANCE" and (m1 != "COMPLIANCE" or (u1 or "") < u0):
            return "COMPLIANCE retention until %s became %s until %s" % (u0, m1, u1)
        if m0 == "GOVERNANCE" and not caller_may_bypass and (m1 is None or (u1 or "") < u0):
            return "GOVERNANCE retention until %s became %s until %s for a caller without the bypass permission" % (u0, m1, u1)
        return None


def attacks(sc, bypass_hdr):
    """(name, function(client) -> response) destructive requests against the protected key"""
    bk, key, vid = sc.bk, sc.key, sc.vid
    path = "/%s/%s" % (bk, key)
    bh = {"x-amz-bypass-governance-retention": "true"} if bypass_hdr else {}
    soon = iso(datetime.datetime.utcnow() + datetime.timedelta(seconds=90))
    A = []
    A.append(("overwrite", lambda c: c.req("PUT", path, body=OTHER, headers=bh)))
    A.append(("overwrite-with-lock-headers", lambda c: c.req("PUT", path, body=OTHER, headers=dict(bh, **{"x-amz-object-lock-mode": "GOVERNANCE", "x-amz-object-lock-retain-until-date": soon}))))
    A.append(("copy-onto", lambda c: c.req("PUT", path, headers=dict(bh, **{"x-amz-copy-source": "%s/other" % bk}))))
    A.append(("copy-onto-from-extended-name", lambda c: c.req("PUT", path, headers=dict(bh, **{"x-amz-copy-source": "%s/%s.bak" % (bk, key)}))))
    A.append(("self-copy-replace", lambda c: c.req("PUT", path, headers=dict(bh, **{"x-amz-copy-source": "%s/%s" % (bk, key), "x-amz-metadata-directive": "REPLACE", "x-amz-meta-x": "y"}))))

    def mpu(c):
        r0 = c.req("POST", path, query={"uploads": ""})
        if r0.status != 200: return r0
        uid = r0.xml().findtext("UploadId")
        rp = c.req("PUT", path, query={"partNumber": "1", "uploadId": uid}, body=OTHER)
        r = c.req("POST", path, query={"uploadId": uid}, headers=bh, body=("<CompleteMultipartUpload><Part><PartNumber>1</PartNumber><ETag>%s</ETag></Part></CompleteMultipartUpload>" % rp.headers.get("etag", "")).encode())
        if r.status != 200: c.req("DELETE", path, query={"uploadId": uid})
        return r
    A.append(("multipart-complete-onto", mpu))
    A.append(("delete", lambda c: c.req("DELETE", path, headers=bh)))
    if vid:
        A.append(("delete-version", lambda c: c.req("DELETE", path, query={"versionId": vid}, headers=bh)))
        A.append(("batch-delete-version", lambda c: c.req("POST", "/" + bk, query={"delete": ""}, headers=bh,
                  body=("<Delete><Object><Key>%s</Key><VersionId>%s</VersionId></Object></Delete>" % (key, vid)).encode())))
    A.append(("batch-delete", lambda c: c.req("POST", "/" + bk, query={"delete": ""}, headers=bh, body=("<Delete><Object><Key>%s</Key></Object><Object><Key>other</Key></Object></Delete>" % key).encode())))
    # the key spelled with a trailing "/" names another (absent) key, not this object
    A.append(("delete-with-trailing-slash", lambda c: c.req("DELETE", path + "/", headers=bh)))
    A.append(("batch-delete-with-trailing-slash", lambda c: c.req("POST", "/" + bk, query={"delete": ""}, headers=bh, body=("<Delete><Object><Key>%s/</Key></Object></Delete>" % key).encode())))
    if vid:
        # one batch naming the key twice: an entry that may be deleted first (the key without a version: a delete marker; or a fresh,
        # unprotected version), the protected version second
        A.append(("batch-delete-marker-then-version", lambda c: c.req("POST", "/" + bk, query={"delete": ""}, headers=bh,
                  body=("<Delete><Object><Key>%s</Key></Object><Object><Key>%s</Key><VersionId>%s</VersionId></Object></Delete>" % (key, key, vid)).encode())))
        def batch_two_versions(c):
            r0 = c.req("PUT", path, body=OTHER)
            v2 = r0.headers.get("x-amz-version-id", "")
            if r0.status != 200 or not v2: return r0
            return c.req("POST", "/" + bk, query={"delete": ""}, headers=bh,
                         body=("<Delete><Object><Key>%s</Key><VersionId>%s</VersionId></Object><Object><Key>%s</Key><VersionId>%s</VersionId></Object></Delete>" % (key, v2, key, vid)).encode())
        A.append(("batch-delete-fresh-version-then-protected", batch_two_versions))
    A.append(("delete-bucket", lambda c: c.req("DELETE", "/" + bk)))
    vq = {"versionId": vid} if vid else {}
    A.append(("retention-shorten", lambda c: c.req("PUT", path, query=dict(vq, retention=""), headers=bh, body=("<Retention><Mode>GOVERNANCE</Mode><RetainUntilDate>%s</RetainUntilDate></Retention>" % soon).encode())))
    A.append(("retention-compliance-shorten", lambda c: c.req("PUT", path, query=dict(vq, retention=""), headers=bh, body=("<Retention><Mode>COMPLIANCE</Mode><RetainUntilDate>%s</RetainUntilDate></Retention>" % soon).encode())))
    A.append(("retention-empty", lambda c: c.req("PUT", path, query=dict(vq, retention=""), headers=bh, body=b"<Retention></Retention>")))
    A.append(("lock-config-disable", lambda c: c.req("PUT", "/" + bk, query={"object-lock": ""}, body=b"<ObjectLockConfiguration></ObjectLockConfiguration>")))
    A.append(("lock-config-no-rule", lambda c: c.req("PUT", "/" + bk, query={"object-lock": ""}, body=b"<ObjectLockConfiguration><ObjectLockEnabled>Enabled</ObjectLockEnabled></ObjectLockConfiguration>")))
    A.append(("lock-config-governance-rule", lambda c: c.req("PUT", "/" + bk, query={"object-lock": ""}, body=b"<ObjectLockConfiguration><ObjectLockEnabled>Enabled</ObjectLockEnabled><Rule><DefaultRetention><Mode>GOVERNANCE</Mode><Days>1</Days></DefaultRetention></Rule></ObjectLockConfiguration>")))
    A.append(("versioning-suspend", lambda c: c.req("PUT", "/" + bk, query={"versioning": ""}, body=b"<VersioningConfiguration><Status>Suspended</Status></VersioningConfiguration>")))
    A.append(("delete-policy", lambda c: c.req("DELETE", "/" + bk, query={"policy": ""})))
    return A


def run(chk):
    quick = chk.tier == "quick"
    chk.rule = ("a case is (protection, bucket kind, caller, bypass header, destructive request): protection in {legal hold, COMPLIANCE, GOVERNANCE, COMPLIANCE set by "
                "PutObject headers, bucket default COMPLIANCE / GOVERNANCE, hold+GOVERNANCE} x {versioned lock bucket, unversioned lock bucket (gateway "
                "without a versioning directory)} x {root, admin, owner, user, user holding s3:BypassGovernanceRetention} x {with, without the bypass "
                "header} x 21 destructive requests (overwrite, overwrite with lock headers, copy onto (also from a source whose name extends the key's), self-copy, multipart completion onto, delete, "
                "delete by version, batch deletes, delete bucket, retention shorten / downgrade / empty, lock configuration disable / no rule / other "
                "rule, suspend versioning, delete policy); after each request the protected version is read back (by version id where versioned) "
                "and its retention and hold are read; thorough tier adds random sequences. Non-trivial: every case (each targets a protected "
                "version); distinct by the tuple.")
    gwbin = gobuild.build_gateway("verif")
    gen.regenerate()
    built = coq.ensure_built(chk, TARGETS)
    if not built:
        # which destructive rows of the regenerated table are not preceded by the lock check
        rc_, out_ = coq.run_cases("C10_rows", "From VGW Require Import Gen.RouteTable Gen.LockCalls Check.LockRouteCheck.\nFrom Coq Require Import List.\nImport ListNotations.\n"
                                  "Definition BR := Eval vm_compute in map snd (lock_bad_rows route_table).\nPrint BR.\n"
                                  "Eval vm_compute in (destructive_present route_table, cmu_checked posix_lock_calls).\n")
        br = coq.printed_list(out_, "BR")
        chk.obligation("destructive routes (s3api/controllers/base.go lines) not preceded by auth.CheckObjectAccess: %s; (all destructive operations present, CompleteMultipartUpload checks before linking) = %s"
                       % (br, " ".join(out_.split())[-60:]), False, str(br))
    if built:
        coq.check_assumptions(chk, "Properties.C10", THEOREMS)
    rnd = chk.rnd
    n = [0]
    rows = []
    for versioned in (True, False):
        with gw.Site({"iam": True, "versioning": versioned}, name="c10" + ("v" if versioned else "u")) as site:
            g = site.gateway(gwbin)
            R = s3c.Client(g.port, "root", "rootsecret")
            ok = True
            for acc, role in USERS:
                ok &= R.req("PATCH", "/create-user", body=("<Account><Access>%s</Access><Secret>%s-secret</Secret><Role>%s</Role><UserID>0</UserID><GroupID>0</GroupID></Account>" % (acc, acc, role)).encode()).status in (200, 201)
            chk.require(ok, "c10:setup", "creating the accounts failed")
            clients = {"root": R}
            for acc, _ in USERS:
                clients[acc] = s3c.Client(g.port, acc, acc + "-secret")
            kind = "versioned" if versioned else "unversioned"
            for pr in PROTECTIONS:
                if pr.endswith("-noncurrent") and not versioned:
                    continue
                sc = None
                for caller in ["root", "adm", "own", "usr", "byp"]:
                    for bypass_hdr in (False, True):
                        names = [a[0] for a in attacks(_Dummy(versioned), bypass_hdr)]
                        for name in names:
                            if quick and caller in ("adm", "own") and bypass_hdr and name not in ("delete-version", "overwrite", "retention-shorten"):
                                continue          # quick tier: the header variants of the middle roles only for the requests the header matters to
                            if sc is None or not sc.ok:
                                n[0] += 1
                                sc = Scenario(chk, R, clients, versioned, pr, n[0])
                                chk.require(sc.ok, "c10:setup:%s:%s" % (pr, kind), "setting up a %s bucket with protection %s failed or the protected version is not readable" % (kind, pr))
                            fn = dict(attacks(sc, bypass_hdr))[name]
                            r = fn(clients[caller])
                            may_bypass = caller == "byp"      # the property speaks of the permission; the gateway does not ask for the header on overwrites
                            governance_only = sc.state0[0] == "GOVERNANCE" and sc.state0[2] != "ON" or pr == "default-governance"
                            lost = sc.intact()
                            weak = sc.weakened(caller == "byp")
                            follow = ""
                            if not lost and not weak and 200 <= r.status < 300 and name.startswith(("lock-config", "versioning", "delete-policy", "retention")) and not may_bypass:
                                # a request sequence: the setting change followed by destructive requests of a caller without the bypass permission
                                for n2 in (["delete-version", "batch-delete-version"] if versioned else ["delete", "overwrite", "copy-onto", "multipart-complete-onto"]):
                                    r2 = dict(attacks(sc, False))[n2](clients["usr" if name != "delete-policy" else "own"])
                                    lost = sc.intact()
                                    if lost:
                                        follow = " followed by %s by %s (%d %s)" % (n2, "usr", r2.status, r2.code); break
                                if name == "delete-policy" and not lost:
                                    # without any bucket policy nobody holds s3:BypassGovernanceRetention: the header alone must not let even root shorten a retention
                                    r3 = dict(attacks(sc, True))["retention-shorten"](clients["root"])
                                    weak = sc.weakened(False)
                                    if weak:
                                        follow = " followed by retention-shorten with the bypass header by root (%d %s)" % (r3.status, r3.code)
                            row = {"protection": pr, "bucket": kind, "caller": caller, "bypass_header": bypass_hdr, "request": name, "status": r.status, "code": r.code, "lost": lost, "weakened": weak}
                            rows.append(row)
                            chk.case((pr, kind, caller, bypass_hdr, name), True)
                            chk.count("%s:%s:%dxx" % (kind, name, r.status // 100 if r.status > 0 else 0))
                            chk.traces += 1
                            if lost and not (governance_only and may_bypass):
                                chk.fail("c10:data-lost:%s%s:%s:%s" % (name, "+then-delete" if follow else "", kind, pr if "default" in pr else "object-lock"),
                                         "protection %s on a %s lock bucket: %s by %s%s answered %d %s%s and %s" % (pr, kind, name, caller, " with the bypass header" if bypass_hdr else "", r.status, r.code, follow, lost), row)
                                sc = None; continue
                            if lost:
                                sc = None; continue
                            if weak:
                                chk.fail("c10:weakened:%s:%s" % (name, kind), "protection %s on a %s lock bucket: %s by %s%s answered %d %s and %s" % (pr, kind, name, caller, " with the bypass header" if bypass_hdr else "", r.status, r.code, weak), row)
                                sc = None; continue
                            if sc.lock_state() != sc.state0 or name in ("lock-config-disable", "lock-config-no-rule", "lock-config-governance-rule", "delete-policy", "delete-bucket"):
                                sc = None      # the scenario state moved (legitimately): start the next case from a fresh one
            chk.tie("gateway still running (%s)" % kind, g.alive(), g.log_tail())
    # ---- the sidecar metadata store (attributes are files keyed by object name): requests onto the protected key's PARENT prefix, which
    # must fail, may not take the lock attributes of the objects below it with them
    with gw.Site({"iam": True, "meta": "sidecar"}, name="c10s") as site:
        g = site.gateway(gwbin)
        R = s3c.Client(g.port, "root", "rootsecret")
        for acc, role in USERS:
            R.req("PATCH", "/create-user", body=("<Account><Access>%s</Access><Secret>%s-secret</Secret><Role>%s</Role><UserID>0</UserID><GroupID>0</GroupID></Account>" % (acc, acc, role)).encode())
        clients = {"root": R}
        for acc, _ in USERS:
            clients[acc] = s3c.Client(g.port, acc, acc + "-secret")
        for pr in ("hold", "compliance", "governance"):
            n[0] += 1
            sc = Scenario(chk, R, clients, False, pr, n[0])
            chk.require(sc.ok, "c10:setup:%s:sidecar" % pr, "setting up a lock bucket with protection %s in the sidecar store failed" % pr)
            parent = "/%s/%s" % (sc.bk, sc.key.split("/")[0])
            def cmu_parent(c):
                r0 = c.req("POST", parent, query={"uploads": ""})
                if r0.status != 200: return r0
                uid = r0.xml().findtext("UploadId"); rp = c.req("PUT", parent, query={"partNumber": "1", "uploadId": uid}, body=OTHER)
                return c.req("POST", parent, query={"uploadId": uid}, body=("<CompleteMultipartUpload><Part><PartNumber>1</PartNumber><ETag>%s</ETag></Part></CompleteMultipartUpload>" % rp.headers.get("etag", "")).encode())
            for name, fn in (("overwrite-parent-prefix", lambda c: c.req("PUT", parent, body=OTHER)),
                             ("copy-onto-parent-prefix", lambda c: c.req("PUT", parent, headers={"x-amz-copy-source": "%s/other" % sc.bk})),
                             ("multipart-complete-onto-parent-prefix", cmu_parent),
                             ("delete-parent-prefix", lambda c: c.req("DELETE", parent)), ("delete-parent-directory-object", lambda c: c.req("DELETE", parent + "/")),
                             # the parent uploaded as a directory object of its own, its metadata replaced, and deleted again (its attributes go, not those of the keys below it)
                             ("put-parent-directory-object", lambda c: c.req("PUT", parent + "/", body=b"", headers={"x-amz-meta-kind": "dir"})),
                             ("reput-parent-directory-object", lambda c: c.req("PUT", parent + "/", body=b"", headers={"x-amz-meta-other": "dir2"})),
                             ("delete-uploaded-parent-directory-object", lambda c: c.req("DELETE", parent + "/"))):
                r = fn(R)
                st = sc.lock_state(); lost = sc.intact()
                r2 = clients["usr"].req("DELETE", "/%s/%s" % (sc.bk, sc.key)); lost = lost or sc.intact()
                chk.case((pr, "sidecar", name), True); chk.traces += 1
                chk.count("sidecar:%s:%dxx" % (name, r.status // 100 if r.status > 0 else 0))
                row = {"protection": pr, "store": "sidecar", "request": name, "status": r.status, "code": r.code, "lock_state_before": sc.state0, "lock_state_after": st, "delete_by_user": r2.status}
                rows.append(row)
                if lost or st != sc.state0:
                    chk.fail("c10:sidecar:%s" % name, "sidecar store, protection %s: %s (answered %d %s) left the protected object %s" % (
                        pr, name, r.status, r.code, lost or "with lock state %s instead of %s" % (st, sc.state0)), row)
                    break
        chk.tie("gateway with the sidecar store still running", g.alive(), g.log_tail())
    # ---- how a version comes to be protected: (a) the bucket's default retention reaches every kind of upload, and stays on the version
    # when the bucket's rule is changed or removed later; (b) lock headers spelled in other case are refused, or they protect
    with gw.Site({"iam": True, "versioning": True}, name="c10d") as site:
        g = site.gateway(gwbin)
        R = s3c.Client(g.port, "root", "rootsecret")
        R.req("PATCH", "/create-user", body=b"<Account><Access>usr</Access><Secret>usr-secret</Secret><Role>user</Role><UserID>0</UserID><GroupID>0</GroupID></Account>")
        U = s3c.Client(g.port, "usr", "usr-secret")
        RULE = b"<ObjectLockConfiguration><ObjectLockEnabled>Enabled</ObjectLockEnabled><Rule><DefaultRetention><Mode>%s</Mode><Days>%d</Days></DefaultRetention></Rule></ObjectLockConfiguration>"
        def upload(kind, bk, key, hd=None):
            hd = dict(hd or {}); path = "/%s/%s" % (bk, key)
            if kind == "put": return R.req("PUT", path, body=b"data-" + key.encode(), headers=hd)
            if kind == "copy":
                R.req("PUT", "/%s/src-%s" % (bk, key), body=b"data-" + key.encode()); hd["x-amz-copy-source"] = "%s/src-%s" % (bk, key)
                return R.req("PUT", path, headers=hd)
            r0 = R.req("POST", path, query={"uploads": ""}, headers=hd)
            if r0.status != 200: return r0
            uid = r0.xml().findtext("UploadId"); rp = R.req("PUT", path, query={"partNumber": "1", "uploadId": uid}, body=b"data-" + key.encode())
            return R.req("POST", path, query={"uploadId": uid}, body=("<CompleteMultipartUpload><Part><PartNumber>1</PartNumber><ETag>%s</ETag></Part></CompleteMultipartUpload>" % rp.headers.get("etag", "")).encode())
        def survives(bk, key, vid, who=None):
            """the version is still there with its data after a delete by id (without bypass) was attempted"""
            dv = (who or U).req("DELETE", "/%s/%s" % (bk, key), query={"versionId": vid} if vid else {})
            gv = R.req("GET", "/%s/%s" % (bk, key), query={"versionId": vid} if vid else {})
            return dv, gv.status == 200 and gv.body == b"data-" + key.encode()
        nb = 0
        for mode in ("GOVERNANCE", "COMPLIANCE"):
            for after in ("rule-kept", "rule-removed", "rule-replaced-by-shorter"):
                nb += 1; bk = "dfl%d" % nb
                ok = R.req("PUT", "/" + bk, headers={"x-amz-bucket-object-lock-enabled": "true"}).status == 200
                ok &= R.req("PUT", "/" + bk, query={"object-lock": ""}, body=RULE % (mode.encode(), 2)).status == 200
                ok &= R.req("PUT", "/" + bk, query={"policy": ""}, body=json.dumps({"Statement": [{"Effect": "Allow", "Principal": "usr", "Action": "s3:*", "Resource": ["arn:aws:s3:::" + bk, "arn:aws:s3:::%s/*" % bk]}]}).encode()).status in (200, 204)
                chk.require(ok, "c10:setup:default-retention", "setting up a bucket with a default retention rule failed")
                vids = {}
                for kind in ("put", "copy", "multipart"):
                    r = upload(kind, bk, "k-" + kind)
                    vids[kind] = r.headers.get("x-amz-version-id") if r.status == 200 else None
                    chk.require(r.status == 200, "c10:setup:default-retention", "%s into the default-retention bucket answered %d %s" % (kind, r.status, r.code))
                if after == "rule-removed":
                    R.req("PUT", "/" + bk, query={"object-lock": ""}, body=b"<ObjectLockConfiguration><ObjectLockEnabled>Enabled</ObjectLockEnabled></ObjectLockConfiguration>")
                elif after == "rule-replaced-by-shorter":
                    R.req("PUT", "/" + bk, query={"object-lock": ""}, body=RULE % (b"GOVERNANCE", 1))
                for kind in ("put", "copy", "multipart"):
                    rt = R.req("GET", "/%s/k-%s" % (bk, kind), query={"retention": ""})
                    got_mode = rt.xml().findtext("Mode") if rt.status == 200 and rt.xml() is not None else None
                    dv, alive_ = survives(bk, "k-" + kind, vids[kind])
                    chk.case(("default-retention", mode, after, kind), True); chk.traces += 1
                    chk.count("default-retention:%s:%s:%s:%s" % (mode, after, kind, "kept" if alive_ else "LOST"))
                    row = {"bucket_rule": "%s 2 days" % mode, "afterwards": after, "upload": kind, "GetObjectRetention": "%d %s" % (rt.status, got_mode), "delete_by_version_status": dv.status, "delete_code": dv.code, "version_survives": alive_}
                    rows.append(row)
                    if not alive_ or got_mode != mode:
                        chk.fail("c10:default-retention-not-applied:%s" % kind, "a version written by %s into a bucket with the default retention %s/2 days (then: %s) %s" % (
                            kind, mode, after, "was deleted by its id by a user without the bypass header (%d)" % dv.status if not alive_ else "reports retention mode %r (GetObjectRetention %d)" % (got_mode, rt.status)), row)
        # (b) header spellings
        bk = "hdrcase"
        R.req("PUT", "/" + bk, headers={"x-amz-bucket-object-lock-enabled": "true"})
        R.req("PUT", "/" + bk, query={"policy": ""}, body=json.dumps({"Statement": [{"Effect": "Allow", "Principal": "usr", "Action": "s3:*", "Resource": ["arn:aws:s3:::" + bk, "arn:aws:s3:::%s/*" % bk]}]}).encode())
        until = iso(datetime.datetime.utcnow() + datetime.timedelta(days=2))
        for kind in ("put", "copy", "multipart"):
            for hname, hval in (("x-amz-object-lock-mode", "compliance"), ("x-amz-object-lock-mode", "Governance"), ("x-amz-object-lock-mode", "COMPLIANCE "), ("x-amz-object-lock-legal-hold", "on"), ("x-amz-object-lock-legal-hold", "On"),
                                ("x-amz-object-lock-mode", "GOVERNANCE"), ("x-amz-object-lock-mode", "COMPLIANCE"), ("x-amz-object-lock-legal-hold", "ON")):
                key = "hc-%s-%s" % (kind, hval.strip().lower() + str(len(hval)) + hname[-4:])
                hd = {hname: hval}
                if hname.endswith("mode"): hd["x-amz-object-lock-retain-until-date"] = until
                r = upload(kind, bk, key, hd)
                chk.case(("lock-header-spelling", kind, hname, hval), True); chk.traces += 1
                chk.count("lock-header-spelling:%s:%s:%d" % (kind, hval.strip(), r.status))
                if r.status != 200:
                    if hval in ("GOVERNANCE", "COMPLIANCE", "ON"):
                        chk.fail("c10:valid-lock-headers-refused:%s" % kind, "%s with the valid header %s: %s into a lock-enabled bucket answered %d %s: the upload cannot be given its protection" % (kind, hname, hval, r.status, r.code),
                                 {"upload": kind, "header": "%s: %s" % (hname, hval), "status": r.status, "code": r.code})
                    continue          # refused: nothing was promised
                vid = r.headers.get("x-amz-version-id")
                dv, alive_ = survives(bk, key, vid)
                dv2, alive2 = survives(bk, key, vid, R) if alive_ else (dv, alive_)
                row = {"upload": kind, "header": "%s: %r" % (hname, hval), "upload_status": r.status, "delete_by_user": dv.status, "delete_by_root_without_bypass": dv2.status, "version_survives": alive2}
                rows.append(row)
                if not alive2:
                    chk.fail("c10:accepted-lock-header-does-not-protect:%s" % kind, "%s with %s: %r was acknowledged, and the version was then deleted by its id without the bypass header (%d / %d)" % (
                        kind, hname, hval, dv.status, dv2.status), row)
        chk.tie("gateway still running (default retention, header spellings)", g.alive(), g.log_tail())
    chk.samples.extend(rows[5:8])
    if built:
        unit_tie(chk)


class _Dummy:
    def __init__(self, versioned):
        self.bk, self.key, self.vid = "x", "k", ("v" if versioned else None)


def unit_tie(chk):
    """T2: auth.CheckObjectAccess and the retention overwrite rule of the posix backend on generated states = Model.Lock"""
    import subprocess
    rnd = chk.rnd
    tool = gobuild.build_tool("corr")
    lc, pr = [], []
    for i in range(1500 if chk.tier == "quick" else 12000):
        cfg = rnd.choice(["none", "disabled", "enabled", "enabled", "enabled", "default-gov-active", "default-comp-active", "default-gov-expired", "default-comp-expired"])
        objs = []
        for _ in range(rnd.choice([1, 1, 1, 2, 3])):
            ret = rnd.choice(["nokey", "none", "none", "gov-active", "gov-expired", "comp-active", "comp-expired", "empty"])
            hold = rnd.choice(["none", "none", "on", "off", "nokey"]) if ret != "nokey" else "nokey"
            objs.append((ret, hold))
        lc.append((cfg, objs, rnd.random() < 0.5, rnd.choice(["none", "grants", "other"])))
    for ex in ["none", "gov", "comp", "gov-expired", "comp-expired"]:
        for bypass in (False, True):
            pr.append((ex, bypass))

    def call(fn, lines):
        p = subprocess.run([tool, fn], input=("\n".join(lines) + "\n").encode(), stdout=subprocess.PIPE, stderr=subprocess.PIPE, env=common.env(), timeout=300)
        return p.returncode, p.stdout.decode().splitlines(), p.stderr.decode()
    rc1, o1, e1 = call("lockcheck", ["%s\t%s\t%d\t%s" % (c, ",".join("%s:%s" % o for o in objs), b, pol) for c, objs, b, pol in lc])
    rc2, o2, e2 = call("putretention", ["%s\t%d" % (ex, b) for ex, b in pr])
    if rc1 != 0 or rc2 != 0 or len(o1) != len(lc) or len(o2) != len(pr):
        chk.tie("corr lockcheck / putretention ran", False, (e1 + e2)[-1500:])
        return
    for (cfg, objs, bypass, pol), res in zip(lc, o1):
        passes = bypass and pol == "grants"
        prot = [o for o in objs if o[0] != "nokey" and (o[0] == "comp-active" or (o[0] == "gov-active" and not passes) or o[1] == "on"
                                                        or (o[1] != "nokey" and (cfg == "default-comp-active" or (cfg == "default-gov-active" and not passes))))]
        if res == "allow" and prot and cfg not in ("none", "disabled"):
            chk.fail("c10:check-allows-protected:%s" % "+".join(sorted(set("%s/%s" % p for p in prot)))[:60],
                     "auth.CheckObjectAccess allows a request naming objects %r (bypass flag %s, policy %s, bucket configuration %s) although %r is protected against this caller" % (objs, bypass, pol, cfg, prot[0]),
                     {"cfg": cfg, "objects": objs, "bypass": bypass, "policy": pol})
    terms, meta = [], []
    for (cfg, objs, bypass, pol), res in zip(lc, o1):
        terms.append("LC %s %s %s %s %s" % (coq_str(cfg), coq_list(["(%s, %s)" % (coq_str(a), coq_str(b)) for a, b in objs]), coq_bool(bypass), coq_str(pol), coq_str(res)))
        meta.append({"cfg": cfg, "objects": objs, "bypass": bypass, "policy": pol, "real": res}); chk.count("unit:lockcheck:%s" % res.split(":")[0])
    for (ex, bypass), res in zip(pr, o2):
        terms.append("PR %s %s %s" % (coq_str(ex), coq_bool(bypass), coq_str(res)))
        meta.append({"existing": ex, "bypass": bypass, "real": res}); chk.count("unit:putretention:%s" % res.split(":")[0])
    text = ("From Coq Require Import String List Bool.\nFrom VGW Require Import Base.GoStr Model.Lock Check.Common Check.LockCheck.\nImport ListNotations.\nOpen Scope string_scope.\n")
    text += "Definition cases : list ucase :=\n " + coq_list(terms).replace("; LC", ";\n LC").replace("; PR", ";\n PR") + ".\n"
    text += "Definition MU := Eval vm_compute in bad ucase_ok cases.\nPrint MU.\n"
    rc, out = coq.run_cases("C10_cases", text)
    mu = coq.printed_list(out, "MU")
    if rc != 0 or mu is None:
        chk.tie("case file evaluates", False, out[-3000:]); return
    chk.tie("T2 auth.CheckObjectAccess (%d generated states) and posix PutObjectRetention (%d states) of the real code = Model.Lock" % (len(lc), len(pr)), not mu, [meta[int(i)] for i in mu[:5]])


def replay(chk, data):
    print(json.dumps(data.get("replay"), indent=1, default=str))
    return 0
