"""C03 — Access decisions are enforced on every operation (DESIGN.md §7 C03)."""
import hashlib, json, subprocess
from vlib import common, coq, gobuild, gen, gw, s3c, e2e
from vlib.common import coq_str, coq_list, coq_bool

THEOREMS = ["C03_decision", "C03_copy_needs_both", "C03_routes"]
TARGETS = ["Properties/C03.vo", "Check/AclCheck.vo"]

TAGGING = b"<Tagging><TagSet><Tag><Key>k</Key><Value>v</Value></Tag></TagSet></Tagging>"
VERSIONING = b"<VersioningConfiguration><Status>Suspended</Status></VersioningConfiguration>"
OWNERSHIP = b"<OwnershipControls><Rule><ObjectOwnership>BucketOwnerPreferred</ObjectOwnership></Rule></OwnershipControls>"
LEGALHOLD = b"<LegalHold><Status>OFF</Status></LegalHold>"


def endpoints(uid, vid=""):
    """(name, method, path, query, body, headers, action, resource kind, acl permission, mutating)"""
    E = []
    def add(name, method, path, query, body, headers, action, obj, perm, mut, sibling=None):
        E.append(dict(name=name, method=method, path=path, query=query or {}, body=body, headers=headers or {}, action=action, obj=obj, perm=perm, mut=mut, sibling=sibling))
    o, b = True, False
    add("HeadBucket", "HEAD", "/bk1", None, b"", None, "s3:ListBucket", b, "READ", False)
    add("ListObjects", "GET", "/bk1", None, b"", None, "s3:ListBucket", b, "READ", False)
    add("ListObjectsV2", "GET", "/bk1", {"list-type": "2"}, b"", None, "s3:ListBucket", b, "READ", False)
    add("ListMultipartUploads", "GET", "/bk1", {"uploads": ""}, b"", None, "s3:ListBucketMultipartUploads", b, "READ", False)
    add("GetBucketTagging", "GET", "/bk1", {"tagging": ""}, b"", None, "s3:GetBucketTagging", b, "READ", False)
    add("GetBucketVersioning", "GET", "/bk1", {"versioning": ""}, b"", None, "s3:GetBucketVersioning", b, "READ", False)
    add("GetBucketPolicy", "GET", "/bk1", {"policy": ""}, b"", None, "s3:GetBucketPolicy", b, "READ", False)
    add("GetBucketAcl", "GET", "/bk1", {"acl": ""}, b"", None, "s3:GetBucketAcl", b, "READ_ACP", False)
    add("GetBucketOwnershipControls", "GET", "/bk1", {"ownershipControls": ""}, b"", None, "s3:GetBucketOwnershipControls", b, "READ", False)
    add("PutBucketTagging", "PUT", "/bk1", {"tagging": ""}, TAGGING, None, "s3:PutBucketTagging", b, "WRITE", True)
    add("DeleteBucketTagging", "DELETE", "/bk1", {"tagging": ""}, b"", None, "s3:PutBucketTagging", b, "WRITE", True)
    add("PutBucketVersioning", "PUT", "/bk1", {"versioning": ""}, VERSIONING, None, "s3:PutBucketVersioning", b, "WRITE", True)
    add("HeadObject", "HEAD", "/bk1/priv/o1", None, b"", None, "s3:GetObject", o, "READ", False)
    add("GetObject", "GET", "/bk1/priv/o1", None, b"", None, "s3:GetObject", o, "READ", False)
    add("GetObjectTagging", "GET", "/bk1/priv/o1", {"tagging": ""}, b"", None, "s3:GetObjectTagging", o, "READ", False)
    add("GetObjectAttributes", "GET", "/bk1/priv/o1", {"attributes": ""}, b"", {"x-amz-object-attributes": "ETag"}, "s3:GetObjectAttributes", o, "READ", False)
    add("GetObjectAcl", "GET", "/bk1/priv/o1", {"acl": ""}, b"", None, "s3:GetObjectAcl", o, "READ_ACP", False)
    add("ListParts", "GET", "/bk1/priv/mp", {"uploadId": uid}, b"", None, "s3:ListMultipartUploadParts", o, "READ", False)
    add("PutObject", "PUT", "/bk1/priv/new", None, b"new", None, "s3:PutObject", o, "WRITE", True)
    add("PutObjectTagging", "PUT", "/bk1/priv/o1", {"tagging": ""}, TAGGING, None, "s3:PutObjectTagging", o, "WRITE", True)
    add("DeleteObjectTagging", "DELETE", "/bk1/priv/o1", {"tagging": ""}, b"", None, "s3:DeleteObjectTagging", o, "WRITE", True)
    add("PutObjectAcl", "PUT", "/bk1/priv/o1", {"acl": ""}, b"", {"x-amz-acl": "private"}, "s3:PutObjectAcl", o, "WRITE_ACP", True)
    add("PutObjectLegalHold", "PUT", "/bk1/priv/o1", {"legal-hold": ""}, LEGALHOLD, None, "s3:PutObjectLegalHold", o, "WRITE", True)
    add("UploadPart", "PUT", "/bk1/priv/mp", {"partNumber": "2", "uploadId": uid}, b"p2", None, "s3:PutObject", o, "WRITE", True)
    add("CreateMultipartUpload", "POST", "/bk1/priv/mp2", {"uploads": ""}, b"", None, "s3:PutObject", o, "WRITE", True)
    add("DeleteObject", "DELETE", "/bk1/priv/o2", None, b"", None, "s3:DeleteObject", o, "WRITE", True)
    add("AbortMultipartUpload", "DELETE", "/bk1/priv/mp3", {"uploadId": "nosuch"}, b"", None, "s3:AbortMultipartUpload", o, "WRITE", True)
    if vid:
        # reading a version by id is its own action: the right to read the current version does not include it
        add("GetObject?versionId", "GET", "/bk1/priv/v", {"versionId": vid}, b"", None, "s3:GetObjectVersion", o, "READ", False, "s3:GetObject")
        add("GetObject?versionId=null", "GET", "/bk1/priv/v", {"versionId": "null"}, b"", None, "s3:GetObjectVersion", o, "READ", False, "s3:GetObject")
        add("ListObjectVersions", "GET", "/bk1", {"versions": ""}, b"", None, "s3:ListBucketVersions", b, "READ", False, "s3:ListBucket")
    add("GetObjectRetention", "GET", "/bk1/priv/o1", {"retention": ""}, b"", None, "s3:GetObjectRetention", o, "READ", False)
    add("GetObjectLegalHold", "GET", "/bk1/priv/o1", {"legal-hold": ""}, b"", None, "s3:GetObjectLegalHold", o, "READ", False)
    # directory objects: the key, and with it the policy resource, ends in "/"
    add("HeadObject-dirobj", "HEAD", "/bk1/priv/dir/", None, b"", None, "s3:GetObject", o, "READ", False)
    add("GetObjectTagging-dirobj", "GET", "/bk1/priv/dir/", {"tagging": ""}, b"", None, "s3:GetObjectTagging", o, "READ", False)
    add("PutObjectTagging-dirobj", "PUT", "/bk1/priv/dir/", {"tagging": ""}, TAGGING, None, "s3:PutObjectTagging", o, "WRITE", True)
    add("PutObject-dirobj", "PUT", "/bk1/priv/newdir/", None, b"", None, "s3:PutObject", o, "WRITE", True)
    add("DeleteObject-dirobj", "DELETE", "/bk1/priv/dir2/", None, b"", None, "s3:DeleteObject", o, "WRITE", True)
    add("GetBucketCors", "GET", "/bk1", {"cors": ""}, b"", None, "s3:GetBucketCORS", b, "READ", False)
    add("DeleteBucketCors", "DELETE", "/bk1", {"cors": ""}, b"", None, "s3:PutBucketCORS", b, "WRITE", True)
    add("DeleteBucketOwnershipControls", "DELETE", "/bk1", {"ownershipControls": ""}, b"", None, "s3:PutBucketOwnershipControls", b, "WRITE", True)
    return E


def policy(stmts):
    return json.dumps({"Statement": stmts}).encode()


def allow(who, action, resource):
    return {"Effect": "Allow", "Principal": who, "Action": action, "Resource": "arn:aws:s3:::" + resource}


def deny(who, action, resource):
    return {"Effect": "Deny", "Principal": who, "Action": action, "Resource": "arn:aws:s3:::" + resource}


def denied(r):
    return r.status == 403 and (r.code == "AccessDenied" or r.code == "")


def setup(site, g):
    root = s3c.Client(g.port, "root", "rootsecret")
    ok = True
    for acc, role in (("owner1", "userplus"), ("alice", "user"), ("bob", "user"), ("adm", "admin")):
        ok &= root.req("PATCH", "/create-user", body=("<Account><Access>%s</Access><Secret>%s-secret</Secret><Role>%s</Role><UserID>0</UserID><GroupID>0</GroupID></Account>" % (acc, acc, role)).encode()).status in (200, 201)
    owner = s3c.Client(g.port, "owner1", "owner1-secret")
    ok &= owner.req("PUT", "/bk1").status == 200
    ok &= s3c.Client(g.port, "adm", "adm-secret").req("PUT", "/bk2").status == 200
    for k in ("priv/o1", "priv/o2", "pub/o1", "pub/o2", "obj"):
        ok &= owner.req("PUT", "/bk1/" + k, body=b"data-" + k.encode()).status == 200
    for k in ("priv/dir/", "priv/dir2/"):
        ok &= owner.req("PUT", "/bk1/" + k, body=b"").status == 200
    ok &= root.req("PUT", "/bk2/other", body=b"other-bucket-data").status == 200
    ok &= root.req("PUT", "/bk1", query={"ownershipControls": ""}, body=OWNERSHIP).status in (200, 204)
    r = owner.req("POST", "/bk1/priv/mp", query={"uploads": ""})
    uid = r.xml().findtext("UploadId") if r.status == 200 else ""
    # versions: priv/v exists before versioning is enabled (the "null" version), then gets a second version
    ok &= owner.req("PUT", "/bk1/priv/v", body=b"draft-before-versioning").status == 200
    ok &= root.req("PUT", "/bk1", query={"versioning": ""}, body=VERSIONING.replace(b"Suspended", b"Enabled")).status == 200
    r = owner.req("PUT", "/bk1/priv/v", body=b"second-version")
    ok &= r.status == 200
    vid = r.headers.get("x-amz-version-id", "")
    ok &= bool(vid)
    return root, owner, uid, vid, ok


def run(chk):
    quick = chk.tier == "quick"
    chk.rule = ("a case is (endpoint, caller, policy or ACL on the bucket): 35 endpoints x {policy allowing exactly that action on exactly that "
                "resource, the action on another resource, a sibling action on the resource, Allow plus Deny, policy on another bucket only, "
                "ACL with / without the needed permission}, plus batch delete over mixed keys, cross-bucket copies, same-bucket copies from a policy-denied key in 10 spellings of the source (CopyObject, UploadPartCopy), and VerifyAccess called "
                "directly on generated (policy, ACL, caller, request) tuples; non-trivial when the request reaches its handler; distinct by content.")
    gen.regenerate()
    corr = gobuild.build_tool("corr")
    gwbin = gobuild.build_gateway("verif")
    built = coq.ensure_built(chk, TARGETS)
    if built:
        coq.check_assumptions(chk, "Properties.C03", THEOREMS)
    else:
        # which rows of the regenerated table fail the obligation
        rc, out = coq.run_cases("C03_rows", "From VGW Require Import Gen.RouteTable Check.RouteCheck.\nFrom Coq Require Import List.\n"
                                "Definition BR := Eval vm_compute in map snd (bad_rows route_table).\nPrint BR.\n")
        br = coq.printed_list(out, "BR")
        if br:
            chk.obligation("route table rows (s3api/controllers/base.go lines) whose backend call is not preceded by the check the Spec demands: %s" % br, False, str(br))
    rnd = chk.rnd
    rows = []
    with gw.Site({"iam": True, "versioning": True}, name="c03") as site:
        g = site.gateway(gwbin)
        root, owner, uid, vid, ok = setup(site, g)
        chk.require(ok, "c03:setup", "scenario setup with valid, authorised callers failed")
        alice = s3c.Client(g.port, "alice", "alice-secret")
        roots = (site.root,)

        def set_policy(doc):
            if doc is None:
                r = root.req("DELETE", "/bk1", query={"policy": ""})
            else:
                r = root.req("PUT", "/bk1", query={"policy": ""}, body=doc)
            return r.status in (200, 204)

        def attempt(ep, who, label, expect_allowed, cfg):
            before = e2e.snapshot(*roots) if ep["mut"] and not expect_allowed else None
            r = who.req(ep["method"], ep["path"], query=ep["query"], body=ep["body"], headers=ep["headers"])
            d = denied(r)
            row = {"endpoint": ep["name"], "config": label, "expect": "allowed" if expect_allowed else "denied", "status": r.status, "code": r.code, "cfg": cfg}
            rows.append(row)
            chk.case((ep["name"], label), True)
            chk.count("%s:%s" % (label, "denied" if d else "not-denied"))
            chk.traces += 1
            if expect_allowed and d and ep["name"] not in STRICTER:
                # the property is "succeeds only if allowed": a refusal of an allowed request is not a violation of it, but it
                # would make the "denied" expectations vacuous, so it breaks the tie instead of being reported as a failing input
                over_denied.append(row)
            if not expect_allowed:
                if not d:
                    chk.fail("c03:unauthorised-request-served:%s:%s" % (ep["name"], label),
                             "%s by alice answered %d %s although %s" % (ep["name"], r.status, r.code, label), row)
                elif before is not None:
                    ch = e2e.snap_diff(before, e2e.snapshot(*roots))
                    if ch:
                        chk.fail("c03:denied-request-changed-state:%s" % ep["name"], "a denied %s changed the storage: %s" % (ep["name"], ch[:3]), row)

        eps = endpoints(uid, vid)
        over_denied = []
        STRICTER = {"GetBucketVersioning"}      # additionally limited to admins and the bucket owner by the controller
        for ep in eps:
            res = "bk1/" + ep["path"][5:] if ep["obj"] else "bk1"
            other_res = ("bk1/pub/*" if ep["obj"] else "bk1/*")
            sibling = "s3:GetObjectAcl" if ep["action"] != "s3:GetObjectAcl" else "s3:GetObject"
            if not ep["obj"]:
                sibling = "s3:GetBucketAcl" if ep["action"] != "s3:GetBucketAcl" else "s3:ListBucket"
            sibling = ep.get("sibling") or sibling
            configs = [
                ("policy allows exactly this action on this resource", policy([allow("alice", ep["action"], res)]), True),
                ("policy allows the action on another resource only", policy([allow("alice", ep["action"], other_res)]), False),
                ("policy allows only a sibling action on the resource", policy([allow("alice", sibling, res)]), False),
                ("policy allows the action to everybody but denies alice", policy([allow("*", ep["action"], res), deny("alice", ep["action"], res)]), False),
                ("policy denies alice first and then allows the action to everybody", policy([deny("alice", ep["action"], res), allow("*", ep["action"], res)]), False),
                ("policy allows the action to bob only", policy([allow("bob", ep["action"], res)]), False),
            ]
            if ep["obj"] and ep["path"].endswith("/"):
                configs.append(("policy allows the action on the key without its trailing slash only", policy([allow("alice", ep["action"], res.rstrip("/"))]), False))
                configs.append(("policy allows the action to everybody but denies alice everything below the key's parent prefix", policy([allow("*", ep["action"], res), deny("alice", ep["action"], res.rstrip("/").rsplit("/", 1)[0] + "/*")]), False))
            for label, doc, exp in configs:
                if not ep["obj"] and "another resource" in label:
                    continue          # a bucket-level action cannot name another resource inside this bucket's policy
                if not set_policy(doc):
                    chk.tie("owner can install the policy %s" % doc, False, label)
                    continue
                attempt(ep, alice, label, exp, doc.decode())
            # a statement whose Effect is not spelled as the policy language spells it: refused by PutBucketPolicy, or, when it is
            # accepted, enforced (an accepted and then ignored Deny lets the denied account in)
            for eff in ("deny", "DENY"):
                dn = deny("alice", ep["action"], res); dn["Effect"] = eff
                doc = policy([allow("*", ep["action"], res), dn])
                if set_policy(doc):
                    attempt(ep, alice, "policy allows the action to everybody and has a statement with Effect %r that names alice (PutBucketPolicy accepted it)" % eff, False, doc.decode())
                else:
                    chk.count("policy-refused:effect-%s" % eff)
        # ACL, no policy
        set_policy(None)
        for grant, perms in (("", set()), ("x-amz-grant-read", {"READ"}), ("x-amz-grant-write", {"WRITE"}), ("x-amz-grant-read-acp", {"READ_ACP"}),
                             ("x-amz-grant-write-acp", {"WRITE_ACP"}), ("x-amz-grant-full-control", {"READ", "WRITE", "READ_ACP", "WRITE_ACP"})):
            hd = {grant: "alice"} if grant else {"x-amz-acl": "private"}
            r = root.req("PUT", "/bk1", query={"acl": ""}, headers=hd)
            if r.status not in (200, 204):
                chk.tie("owner can set the bucket ACL (%s)" % (grant or "private"), False, str(r))
                continue
            for ep in eps:
                attempt(ep, alice, "no policy, ACL grants alice %s" % (sorted(perms) or "nothing"), ep["perm"] in perms, grant)
        # bucket isolation: everything on bk2, nothing on bk1
        root.req("PUT", "/bk1", query={"acl": ""}, headers={"x-amz-acl": "private"})
        root.req("PUT", "/bk2", query={"policy": ""}, body=json.dumps({"Statement": [{"Effect": "Allow", "Principal": "alice", "Action": "s3:*", "Resource": ["arn:aws:s3:::bk2", "arn:aws:s3:::bk2/*"]}]}).encode())
        for ep in eps:
            attempt(ep, alice, "alice has full access to bk2 only", False, "policy on bk2")
        # batch delete: allowed on pub/* only
        set_policy(policy([allow("alice", "s3:DeleteObject", "bk1/pub/*")]))
        body = b"<Delete><Object><Key>pub/o1</Key></Object><Object><Key>priv/o1</Key></Object></Delete>"
        r = alice.req("POST", "/bk1", query={"delete": ""}, body=body)
        still = root.req("HEAD", "/bk1/priv/o1").status
        row = {"endpoint": "DeleteObjects", "config": "policy allows s3:DeleteObject on bk1/pub/* only; batch names pub/o1 and priv/o1", "status": r.status, "code": r.code, "priv_o1_after": still}
        rows.append(row); chk.case(("DeleteObjects", "mixed"), True); chk.traces += 1
        if still != 200:
            chk.fail("c03:batch-delete-ignores-per-key-policy", "a batch delete removed priv/o1 although the policy allows s3:DeleteObject on bk1/pub/* only (status %d)" % r.status, row)
        r2 = alice.req("POST", "/bk1", query={"delete": ""}, body=b"<Delete><Object><Key>pub/o2</Key></Object></Delete>")
        gone = root.req("HEAD", "/bk1/pub/o2").status
        row = {"endpoint": "DeleteObjects", "config": "policy allows s3:DeleteObject on bk1/pub/*; batch names pub/o2 only", "status": r2.status, "code": r2.code, "pub_o2_after": gone}
        rows.append(row); chk.case(("DeleteObjects", "allowed"), True); chk.traces += 1
        if denied(r2) or gone == 200:
            over_denied.append(row)
        # copies: destination allowed, source in a bucket alice cannot read
        root.req("DELETE", "/bk2", query={"policy": ""})
        set_policy(policy([allow("alice", "s3:PutObject", "bk1/*"), allow("alice", "s3:GetObject", "bk1/*")]))
        r = alice.req("PUT", "/bk1/pub/stolen", headers={"x-amz-copy-source": "bk2/other"})
        got = root.req("GET", "/bk1/pub/stolen")
        row = {"endpoint": "CopyObject", "config": "destination bk1 allowed by policy, source bk2 private", "status": r.status, "code": r.code}
        rows.append(row); chk.case(("CopyObject", "cross"), True); chk.traces += 1
        if not denied(r) or got.status == 200:
            chk.fail("c03:copy-from-unreadable-bucket", "alice copied bk2/other (no access) into bk1 (status %d)" % r.status, row)
        r = alice.req("PUT", "/bk1/pub/copied", headers={"x-amz-copy-source": "bk1/obj"})
        row = {"endpoint": "CopyObject", "config": "source and destination allowed", "status": r.status, "code": r.code}
        rows.append(row); chk.case(("CopyObject", "ok"), True); chk.traces += 1
        if denied(r):
            over_denied.append(row)
        # copies whose source is a key of the same bucket the policy does not let alice read, in every spelling of the source,
        # through CopyObject and UploadPartCopy (the access check must look at the key the backend will read)
        set_policy(policy([allow("alice", "s3:PutObject", "bk1/*"), allow("alice", "s3:GetObject", "bk1/*"),
                           allow("alice", "s3:GetObjectVersion", "bk1/*"), deny("alice", "s3:GetObject", "bk1/priv/*"),
                           deny("alice", "s3:GetObjectVersion", "bk1/priv/*")]))
        r = alice.req("POST", "/bk1/pub/mpcopy", query={"uploads": ""})
        cuid = r.xml().findtext("UploadId") if r.status == 200 and r.xml() is not None else ""
        chk.tie("alice can start a multipart upload under pub/ (copy scenario)", bool(cuid), str(r))
        for spelling in ("bk1/priv/o1", "/bk1/priv/o1", "bk1/priv%2Fo1", "/bk1/priv%2Fo1", "bk1/priv%2fo1", "bk1/%70riv/o1", "bk1/priv/%6F1",
                         "bk1/priv/v?versionId=null", "bk1/priv%2Fv?versionId=null", "bk1/priv/v?versionId=" + vid):
            for kind in ("CopyObject", "UploadPartCopy"):
                if kind == "CopyObject":
                    r = alice.req("PUT", "/bk1/pub/stolen2", headers={"x-amz-copy-source": spelling})
                    got = root.req("GET", "/bk1/pub/stolen2")
                    leaked = got.status == 200
                    root.req("DELETE", "/bk1/pub/stolen2")
                else:
                    r = alice.req("PUT", "/bk1/pub/mpcopy", query={"partNumber": "1", "uploadId": cuid}, headers={"x-amz-copy-source": spelling})
                    lp = root.req("GET", "/bk1/pub/mpcopy", query={"uploadId": cuid})
                    leaked = lp.status == 200 and b"<PartNumber>" in (lp.body or b"")
                row = {"endpoint": kind, "config": "policy: alice may write and read bk1/*, Deny read on bk1/priv/*; source " + spelling,
                       "status": r.status, "code": r.code, "data_copied": leaked}
                rows.append(row); chk.case((kind, "same-bucket-denied-source", spelling), True); chk.traces += 1
                if leaked or (200 <= r.status < 300):
                    chk.fail("c03:copy-from-denied-key:%s" % kind, "alice %s from %s (a key the policy denies her) answered %d and %s"
                             % (kind, spelling, r.status, "copied the data" if leaked else "reported success"), row)
                    if kind == "UploadPartCopy":      # start over with a clean upload
                        root.req("DELETE", "/bk1/pub/mpcopy", query={"uploadId": cuid})
                        r0 = alice.req("POST", "/bk1/pub/mpcopy", query={"uploads": ""})
                        cuid = r0.xml().findtext("UploadId") if r0.status == 200 and r0.xml() is not None else ""
        # the same with Deny statements that name one key exactly (no wildcard): the resource the policy is asked about is the key, not
        # the key followed by the ?versionId=... of the copy source
        root.req("PUT", "/bk1", query={"versioning": ""}, body=VERSIONING.replace(b"Suspended", b"Enabled"))
        rx = root.req("PUT", "/bk1/exact", body=b"EXACT-SECRET"); xvid = rx.headers.get("x-amz-version-id", "")
        chk.tie("the versioned bucket bk1 hands out a version id for bk1/exact", rx.status == 200 and xvid not in ("", "null"), str(rx))
        set_policy(policy([allow("alice", "s3:PutObject", "bk1/*"), allow("alice", "s3:GetObject", "bk1/*"), allow("alice", "s3:GetObjectVersion", "bk1/*"),
                           deny("alice", "s3:GetObject", "bk1/exact"), deny("alice", "s3:GetObjectVersion", "bk1/exact")]))
        for spelling in ("bk1/exact", "bk1/exact?versionId=" + xvid, "/bk1/exact?versionId=" + xvid, "bk1/%65xact?versionId=" + xvid):
            for kind in ("CopyObject", "UploadPartCopy"):
                if kind == "CopyObject":
                    r = alice.req("PUT", "/bk1/pub/stolen3", headers={"x-amz-copy-source": spelling})
                    leaked = root.req("GET", "/bk1/pub/stolen3").status == 200
                    root.req("DELETE", "/bk1/pub/stolen3")
                else:
                    root.req("DELETE", "/bk1/pub/mpcopy", query={"uploadId": cuid})
                    r0 = alice.req("POST", "/bk1/pub/mpcopy", query={"uploads": ""})
                    cuid = r0.xml().findtext("UploadId") if r0.status == 200 and r0.xml() is not None else ""
                    r = alice.req("PUT", "/bk1/pub/mpcopy", query={"partNumber": "1", "uploadId": cuid}, headers={"x-amz-copy-source": spelling})
                    lp = root.req("GET", "/bk1/pub/mpcopy", query={"uploadId": cuid})
                    leaked = lp.status == 200 and b"<PartNumber>" in (lp.body or b"")
                row = {"endpoint": kind, "config": "policy: alice may write and read bk1/*, Deny s3:GetObject and s3:GetObjectVersion on exactly bk1/exact; source " + spelling,
                       "status": r.status, "code": r.code, "data_copied": leaked}
                rows.append(row); chk.case((kind, "exact-key-denied-source", spelling.replace(xvid, "<id>")), True); chk.traces += 1
                if leaked or (200 <= r.status < 300):
                    chk.fail("c03:copy-from-denied-key:%s" % kind, "alice %s from %s (a key the policy denies her by name) answered %d and %s"
                             % (kind, spelling, r.status, "copied the data" if leaked else "reported success"), row)
        set_policy(policy([allow("alice", "s3:PutObject", "bk1/*"), allow("alice", "s3:GetObject", "bk1/*"),
                           allow("alice", "s3:GetObjectVersion", "bk1/*"), deny("alice", "s3:GetObject", "bk1/priv/*"),
                           deny("alice", "s3:GetObjectVersion", "bk1/priv/*")]))
        for kind, src in (("CopyObject", "bk1/pub/o1"), ("UploadPartCopy", "bk1/pub%2Fo1")):
            if kind == "CopyObject":
                r = alice.req("PUT", "/bk1/pub/copied2", headers={"x-amz-copy-source": src})
            else:
                r = alice.req("PUT", "/bk1/pub/mpcopy", query={"partNumber": "2", "uploadId": cuid}, headers={"x-amz-copy-source": src})
            row = {"endpoint": kind, "config": "readable source " + src, "status": r.status, "code": r.code}
            rows.append(row); chk.case((kind, "same-bucket-allowed-source"), True); chk.traces += 1
            if denied(r):
                over_denied.append(row)
        # non-admin ListBuckets shows only owned buckets
        lb = alice.req("GET", "/")
        names = [b.findtext("Name") for b in lb.xml().iter("Bucket")] if lb.status == 200 and lb.xml() is not None else None
        if names:
            chk.fail("c03:listbuckets-shows-foreign-buckets", "alice (owns nothing) sees buckets %s" % names, {"names": names})
        chk.tie("requests the configuration allows are served (the denied expectations are not vacuous)", not over_denied, over_denied[:5])
        chk.tie("gateway still running", g.alive(), g.log_tail())
    chk.samples.extend(rows[5:8])

    # ---- T2: VerifyAccess / verifyACL directly, with a stub backend
    cases = gen_access_cases(rnd, 600 if quick else 6000)
    lines = ["\t".join(c["line"]) for c in cases]
    obs = subprocess.run([corr, "verifyaccess"], input=("\n".join(lines) + "\n").encode(), stdout=subprocess.PIPE, timeout=300,
                         env=common.env()).stdout.decode().split("\n")[:len(cases)]
    terms = []
    for c, o in zip(cases, obs):
        chk.case(("va", tuple(c["line"])), True)
        chk.count("verifyaccess:" + o)
        if o == "PANIC":
            chk.fail("c03:verifyaccess-panic", "VerifyAccess panics", {"case": c["line"]})
            continue
        terms.append("(%s, %s)" % (c["coq"], "true" if o == "ALLOW" else "false"))
    if not built:
        return
    text = ("From Coq Require Import String List Bool.\nFrom VGW Require Import Base.GoStr Model.Json Model.Policy Model.Acl Check.Common Check.AclCheck.\n"
            "Import ListNotations.\nOpen Scope string_scope.\n")
    text += "Definition vcases : list (pol_state * access_opts * bool) :=\n " + coq_list(terms).replace("; (", ";\n (") + ".\n"
    text += "Definition MV := Eval vm_compute in bad access_ok vcases.\nPrint MV.\n"
    rc, out = coq.run_cases("C03_cases", text)
    mv = coq.printed_list(out, "MV")
    if rc != 0 or mv is None:
        chk.tie("case file evaluates", False, out[-3000:])
        return
    chk.tie("T2 auth.VerifyAccess (stub backend) = Model.Acl.verify_access on %d generated (policy, ACL, caller, request) tuples" % len(terms), not mv,
            [cases[int(i)]["line"] for i in mv[:4]])
    # the model is proved equal to the decision rule of the Spec (C03_decision): a disagreement on a concrete tuple is a
    # request on which the implementation decides differently from the rule
    for i in mv[:6]:
        c = cases[int(i)]
        chk.fail("c03:decision-differs-from-rule:policy=%s" % c["line"][0],
                 "VerifyAccess answers %s where the access rule (C03_decision) says the opposite: policy state %s, caller %s role %s, permission %s" % (
                     obs[int(i)], c["line"][0], bytes.fromhex(c["line"][3]).decode(), c["line"][4], c["line"][7]), {"case": c["line"], "observed": obs[int(i)]})


def gen_access_cases(rnd, n):
    from props.c14 import gen_valid_doc, gen_doc, ser, coq_json, ACTIONS
    out = []
    perms = ["READ", "WRITE", "READ_ACP", "WRITE_ACP", "FULL_CONTROL"]
    cperm = {"READ": "PRead", "WRITE": "PWrite", "READ_ACP": "PReadAcp", "WRITE_ACP": "PWriteAcp", "FULL_CONTROL": "PFullControl"}
    hx = lambda s: s.encode().hex() or "-"
    for _ in range(n):
        r = rnd.random()
        if r < 0.45:
            doc = gen_valid_doc(rnd); pol = ("DOC", ser(doc)); cpol = "(PolicyDoc %s)" % coq_json(doc)
        elif r < 0.55:
            doc = gen_doc(rnd); pol = ("DOC", ser(doc)); cpol = "(PolicyDoc %s)" % coq_json(doc)
        elif r < 0.9:
            pol = ("NONE", ""); cpol = "NoPolicy"
        else:
            pol = ("ERR", ""); cpol = "PolicyReadError"
        grants = []
        for _ in range(rnd.randrange(0, 4)):
            grants.append((rnd.choice(["u1", "u2", "all-users", "zz"]), rnd.choice(perms), rnd.choice(["CanonicalUser", "CanonicalUser", "Group"])))
        who = rnd.choice(["u1", "u2", "zz"])
        role = rnd.choice(["user", "user", "userplus", "admin"])
        isroot = rnd.random() < 0.1
        readonly = rnd.random() < 0.2
        perm = rnd.choice(perms[:4])
        action = rnd.choice(ACTIONS)
        obj = rnd.choice(["", "x", "pub/a", "*xsecret", "abc"])
        line = [pol[0], hx(pol[1]), ",".join("%s:%s:%s" % (hx(a), p, t) for a, p, t in grants) or "-", hx(who), role, "1" if isroot else "0",
                "1" if readonly else "0", perm, hx(action), hx("bk"), hx(obj)]
        cg = coq_list(["{| g_access := %s; g_perm := %s; g_type := %s |}" % (coq_str(a), cperm[p], "TCanonicalUser" if t == "CanonicalUser" else "TGroup") for a, p, t in grants])
        coq = "%s, {| o_readonly := %s; o_is_root := %s; o_role := %s; o_who := %s; o_grants := %s; o_perm := %s; o_bucket := \"bk\"; o_object := %s; o_action := %s |}" % (
            cpol, coq_bool(readonly), coq_bool(isroot), coq_str(role), coq_str(who), cg, cperm[perm], coq_str(obj), coq_str(action))
        out.append({"line": line, "coq": coq})
    return out


def replay(chk, data):
    print(json.dumps(data.get("replay"), indent=1, default=str))
    return 0
