"""C08 — Multipart uploads assemble exactly the chosen parts and stay isolated (DESIGN.md §7 C08)."""
import hashlib, json, random, urllib.parse, uuid
from vlib import chunkenc, common, coq, gobuild, gw, s3c, e2e
from vlib.common import coq_str, coq_list

THEOREMS = ["C08_complete_assembles_listed_parts", "C08_complete_uses_latest_uploads", "C08_part_is_latest_upload", "C08_failed_complete_changes_nothing",
            "C08_only_put_and_complete_touch_objects", "C08_uploads_are_isolated", "C08_abort_removes", "C08_finished_upload_is_gone",
            "C08_copy_range_exact", "C08_copy_range_window", "C08_copy_range_complete", "C08_slice_length", "C08_list_uploads_page", "C08_list_uploads_pages_complete", "C08_old_page_selection_refuted"]
TARGETS = ["Properties/C08.vo", "Check/MultipartCheck.vo"]
MIN = 5 * 1024 * 1024
KEYS = ["mp/a", "b c+d", "ü/deep/er/key", "plain"]
SRCS = ["src/big", "src/small", "src/empty"]
METAS = [({}, {}), ({"content-type": "text/plain; charset=utf-8"}, {"alpha": "1"}), ({"content-type": "application/x-c08", "cache-control": "no-store"}, {"k1": "v 1", "k2": "v=2"})]
ERR = {1: "NoSuchUpload", 2: "InvalidPart", 3: "InvalidPartOrder", 4: "EntityTooSmall", 5: "InvalidArgument", 6: "InvalidRequest", 7: "NoSuchKey"}
RANGES = ["", "bytes=0-15", "bytes=16-99", "bytes=0-", "bytes=17-", "bytes=5-5", "bytes=0-5242879", "bytes=100-5242979", "bytes=5242880-", "bytes=99999999-", "bytes=0-99999999", "bytes=10-5",
          "bytes=-5", "bytes=a-b", "bytes=1", "byte=0-5", "bytes=0-5,7-9", "bytes= 0-5", "bytes=+1-20", "0-5", "bytes=0x10-20", "bytes=16-16",
          # the last position equal to the source's size (one past its last byte), and its last byte
          "bytes=0-100", "bytes=50-100", "bytes=0-99", "bytes=99-99", "bytes=100-100", "bytes=0-5246976", "bytes=5246975-5246976", "bytes=0-5246975"]

_blobs = {}


def base_blob(c, size):
    k = (c, size)
    if k not in _blobs:
        _blobs[k] = random.Random(c * 7919 + 13).randbytes(size)
    return _blobs[k]


class World:
    """what the harness itself knows: the size of each base blob; materialises symbolic contents"""
    def __init__(self):
        self.sizes = {}
    def new_base(self, size):
        c = len(self.sizes) + 1
        self.sizes[c] = size
        return c
    def mat(self, pieces):
        return b"".join(base_blob(c, self.sizes[c])[o:o + l] for c, o, l in pieces)


def coq_data(pieces):
    return "[" + "; ".join("(%d%%nat, %d, %d)" % p for p in pieces) + "]"


def dslice(pieces, off, ln):
    out = []
    for c, o, l in pieces:
        if ln <= 0: break
        if l <= off: off -= l; continue
        take = min(l - off, ln)
        out.append((c, o + off, take)); ln -= take; off = 0
    return out


def spec_range(size, r):
    """the harness's own reading of x-amz-copy-source-range: (start, length) or None when it must be refused"""
    if r == "": return (0, size)
    import re
    m = re.fullmatch(r"bytes=([+-]?\d+)-([+-]?\d*)", r)
    if not m: return None
    try: a = int(m.group(1))
    except ValueError: return None
    if a < 0 or a >= size: return None
    if m.group(2) == "": return (a, size - a)
    b = int(m.group(2))
    if b < a or b >= size: return None
    return (a, b - a + 1)


def decode(enc, w):
    """numeric model answer -> comparable Python value"""
    def data(i):
        n = enc[i]; ps = [(enc[i + 1 + 3 * j], enc[i + 2 + 3 * j], enc[i + 3 + 3 * j]) for j in range(n)]
        return ps, i + 1 + 3 * n
    t = enc[0]
    if t == 0: return ("err", ERR[enc[1]])
    if t == 1: return ("ok",)
    if t == 2:
        d, _ = data(1); b = w.mat(d); return ("part", hashlib.md5(b).hexdigest(), len(b))
    if t == 5:
        trunc, nxt, n = enc[1], enc[2], enc[3]; i = 4; page = []
        for _ in range(n):
            num = enc[i]; d, i = data(i + 1); b = w.mat(d); page.append((num, len(b), hashlib.md5(b).hexdigest()))
        return ("parts", page, bool(trunc), nxt)
    if t == 6:
        n = enc[1]; return ("uploads", sorted((enc[2 + 2 * j], enc[3 + 2 * j]) for j in range(n)))
    if t == 3:
        n = enc[1]; i = 2; bs = []
        for _ in range(n):
            d, i = data(i); bs.append(w.mat(d))
        return ("complete", e2e.multipart_etag(bs))
    if t == 4:
        m = enc[1]; d, i = data(2); body = w.mat(d)
        if enc[i] == 0: et = hashlib.md5(body).hexdigest()
        else:
            n = enc[i + 1]; i += 2; bs = []
            for _ in range(n):
                dd, i = data(i); bs.append(w.mat(dd))
            et = e2e.multipart_etag(bs)
        return ("get", hashlib.md5(body).hexdigest(), len(body), et, m)
    if t == 7: return ("keys", sorted(enc[1:]))
    return ("?", enc)


def history(chk, cl, bk, w, rnd, n_ops):
    """one random multipart program against bucket bk; returns (coq ops, observations, readable ops); evaluates the Spec as it goes"""
    ops, obs, text = [], [], []
    allkeys = SRCS + KEYS
    kidx = {k: i for i, k in enumerate(allkeys)}
    path = lambda k: "/%s/%s" % (bk, k)
    uids = []                 # (uid string) by model uid number
    keyof = {}                # uid number -> key it was issued for
    live = {}                 # uid number -> {"key", "meta", "parts": {n: (pieces, etag string)}, "hist": {n: [(pieces, etag)]}}
    objects = {}              # key -> (bytes md5, length, etag, meta index)   (Spec tracker: what an acknowledged write put there)
    big = w.new_base(MIN + 4096)

    def viol(kind, what, extra=None):
        chk.fail("c08:%s" % kind, what + " [history: %s]" % "; ".join(text[-8:]), {"bucket": bk, "history": list(text), "detail": extra})

    def observe_get(k):
        r = cl.req("GET", path(k))
        if r.status == 200:
            return ("get", hashlib.md5(r.body).hexdigest(), len(r.body), e2e.etag_clean(r.headers.get("etag")), r)
        return ("err", r.code)

    def record(coqop, readable, o):
        ops.append(coqop); text.append(readable); obs.append(o)

    # sources
    for k, pieces in ((SRCS[0], [(big, 0, MIN + 4096)]), (SRCS[1], [(w.new_base(100), 0, 100)]), (SRCS[2], [])):
        body = w.mat(pieces)
        r = cl.req("PUT", path(k), body=body)
        chk.require(r.status == 200, "c08:setup", "PUT of a source object failed: %d %s" % (r.status, r.code))
        objects[k] = (hashlib.md5(body).hexdigest(), len(body), hashlib.md5(body).hexdigest(), 0, pieces)
        record("Put %d %s 0" % (kidx[k], coq_data(pieces)), "put %s (%d bytes)" % (k, len(body)), ("ok",))

    def pick_uid(want_parts=False):
        """(model uid number, uid string, key to present it with)"""
        x = rnd.random()
        withp = sorted(u for u in live if len(live[u]["parts"]) >= 2) or sorted(u for u in live if live[u]["parts"])
        if want_parts and withp and x < 0.8:
            u = rnd.choice(withp); return u, uids[u], live[u]["key"]
        if live and x < 0.82:
            u = rnd.choice(sorted(live)); return u, uids[u], live[u]["key"]
        if live and x < 0.87:        # a real id presented with another key
            u = rnd.choice(sorted(live)); return u, uids[u], rnd.choice([k for k in KEYS if k != live[u]["key"]])
        if uids and x < 0.96:        # an id that is finished (or live), mostly with the key it was issued for
            dead = [i for i in range(len(uids)) if i not in live]
            u = rnd.choice(dead) if dead and rnd.random() < 0.7 else rnd.randrange(len(uids))
            return u, uids[u], (keyof.get(u) if rnd.random() < 0.7 and u in keyof else rnd.choice(KEYS))
        return 9999, str(uuid.UUID(int=rnd.getrandbits(128))), rnd.choice(KEYS)

    def new_part_data():
        x = rnd.random()
        if x < 0.5:
            off = rnd.choice([0, 1, 17, 4095]); return [(big, off, MIN + rnd.choice([0, 0, 1]))]
        if x < 0.57:
            return [(big, rnd.choice([0, 5]), MIN - 1)]
        n = rnd.choice([16, 17, 100, 1000, 70000]); return [(w.new_base(n), 0, n)]

    for _ in range(n_ops):
        x = rnd.random()
        if x < 0.16 or not uids:
            k = rnd.choice(KEYS); m = rnd.randrange(len(METAS))
            hd = dict(METAS[m][0]); hd.update({"x-amz-meta-" + a: b for a, b in METAS[m][1].items()})
            if live and rnd.random() < 0.25:
                # a create the gateway must refuse, for a key that has uploads in progress: not an operation of the model
                # (nothing may change: the uploads in progress stay usable)
                k2 = live[rnd.choice(sorted(live))]["key"]
                bad = rnd.choice([{"x-amz-object-lock-legal-hold": "ON"}, {"x-amz-object-lock-mode": "GOVERNANCE", "x-amz-object-lock-retain-until-date": "2035-01-01T00:00:00Z"},
                                  {"x-amz-tagging": "a=b&a=c"}, {"x-amz-checksum-algorithm": "NOPE"}])
                h2 = dict(hd); h2.update(bad)
                rr = cl.req("POST", path(k2), query={"uploads": ""}, headers=h2)
                chk.count("refused-create:%s:%d" % (sorted(bad)[0], rr.status))
                if rr.status == 200 and rr.xml() is not None:
                    cl.req("DELETE", path(k2), query={"uploadId": rr.xml().findtext("UploadId")})     # accepted after all: undo
                if text: text[-1] += " ; then a create for %s refused with %d %s (%s)" % (k2, rr.status, rr.code, sorted(bad)[0])
            r = cl.req("POST", path(k), query={"uploads": ""}, headers=hd)
            if r.status != 200 or r.xml() is None:
                viol("create-failed", "CreateMultipartUpload of %r answered %d %s" % (k, r.status, r.code)); continue
            u = len(uids); uids.append(r.xml().findtext("UploadId")); keyof[u] = k; live[u] = {"key": k, "meta": m, "parts": {}, "hist": {}}
            record("Create %d %d %d" % (kidx[k], m, u), "create %s -> upload#%d" % (k, u), ("ok",))
        elif x < 0.42:
            u, us, k = pick_uid(); n = rnd.choice([1, 1, 1, 2, 2, 2, 3, 3, 5, 10000, 0, 10001, -1]); pieces = new_part_data(); body = w.mat(pieces)
            if u in live and live[u]["key"] == k and live[u]["parts"] and rnd.random() < 0.3:
                # a re-upload of an existing part that the gateway must refuse (the body is shorter than declared / its checksum is wrong):
                # not an operation of the model, the part keeps its bytes and its ETag
                n0 = rnd.choice(sorted(live[u]["parts"])); junk = b"refused-part-" + bytes([65 + len(text) % 26]) * 40
                if rnd.random() < 0.5:
                    hd_ = {"x-amz-decoded-content-length": str(len(junk) + 7), "content-encoding": "aws-chunked", "x-amz-trailer": "x-amz-checksum-crc32"}
                    rr, _ = cl.req_streaming("PUT", path(k), lambda *a_: chunkenc.encode_unsigned([junk], "crc32"), query={"partNumber": str(n0), "uploadId": us}, headers=hd_,
                                             payload_type="STREAMING-UNSIGNED-PAYLOAD-TRAILER")
                    how_ = "short body"
                else:
                    rr = cl.req("PUT", path(k), query={"partNumber": str(n0), "uploadId": us}, body=junk, headers={"x-amz-checksum-crc32": "AAAAAA=="}); how_ = "wrong checksum"
                chk.count("refused-part:%s:%d" % (how_.replace(" ", "-"), rr.status))
                if rr.status == 200:
                    viol("bad-part-accepted", "a re-upload of part %d with a %s is acknowledged" % (n0, how_))
                if text: text[-1] += " ; then a re-upload of part %d of upload#%d refused with %d %s (%s)" % (n0, u, rr.status, rr.code, how_)
                if rr.status != 200:
                    lp_ = cl.req("GET", path(k), query={"uploadId": us})
                    now_ = {int(p_.findtext("PartNumber")): (e2e.etag_clean(p_.findtext("ETag")), int(p_.findtext("Size"))) for p_ in lp_.xml().findall("Part")} if lp_.status == 200 and lp_.xml() is not None else {}
                    want_ = (e2e.etag_clean(live[u]["parts"][n0][1]), len(w.mat(live[u]["parts"][n0][0])))
                    if now_.get(n0) != want_:
                        viol("refused-part-changed-part", "after a refused re-upload (%s, %d %s) part %d of the upload reads (ETag, size) %s; it was uploaded as %s" % (how_, rr.status, rr.code, n0, now_.get(n0), want_))
            r = cl.req("PUT", path(k), query={"partNumber": str(n), "uploadId": us}, body=body)
            o = ("part", e2e.etag_clean(r.headers.get("etag")), len(body)) if r.status == 200 else ("err", r.code)
            if r.status == 200 and not (u in live and live[u]["key"] == k):
                viol("part-accepted-for-dead-upload", "UploadPart naming upload id %s (%s) for key %r is acknowledged" % (
                    us, "finished or aborted" if u < len(uids) and u not in live else "in progress for another key" if u in live else "never issued", k))
            record("UploadPart %d %d (%d) %s" % (kidx[k], u, n, coq_data(pieces)), "upload-part %s upload#%d n=%d (%d bytes) -> %s" % (k, u, n, len(body), o[:2]), o)
            if r.status == 200 and u in live and live[u]["key"] == k:
                live[u]["parts"][n] = (pieces, r.headers.get("etag", "")); live[u]["hist"].setdefault(n, []).append((pieces, r.headers.get("etag", "")))
        elif x < 0.56:
            u, us, k = pick_uid(); n = rnd.choice([1, 2, 3, 4]); src = rnd.choice(SRCS + [kk for kk in KEYS if kk in objects][:2]); rg = rnd.choice(RANGES)
            hd = {"x-amz-copy-source": urllib.parse.quote("%s/%s" % (bk, src))}
            if rg: hd["x-amz-copy-source-range"] = rg
            r = cl.req("PUT", path(k), query={"partNumber": str(n), "uploadId": us}, headers=hd)
            et = r.xml().findtext("ETag") if r.status == 200 and r.xml() is not None else None
            srcp = objects[src][4] if src in objects else None
            win = spec_range(objects[src][1], rg) if src in objects else None
            if r.status == 200:
                o = ("part", e2e.etag_clean(et), None)
                if not (u in live and live[u]["key"] == k):
                    viol("part-accepted-for-dead-upload", "UploadPartCopy naming upload id %s (%s) for key %r is acknowledged" % (
                        us, "finished or aborted" if u < len(uids) and u not in live else "in progress for another key" if u in live else "never issued", k))
                # Spec: the part is exactly the requested window of the source
                if win is None:
                    viol("copy-range-accepted", "UploadPartCopy from %r (%d bytes) with range %r is acknowledged although the range does not denote bytes of the source" % (src, objects.get(src, (0, 0))[1], rg))
                else:
                    pieces = dslice(srcp, *win)
                    if u in live and live[u]["key"] == k:
                        live[u]["parts"][n] = (pieces, et or ""); live[u]["hist"].setdefault(n, []).append((pieces, et or ""))
                    if hashlib.md5(w.mat(pieces)).hexdigest() != e2e.etag_clean(et):
                        viol("copy-part-content", "UploadPartCopy from %r (%d bytes) range %r: the part's ETag %s is not the digest of bytes [%d, %d) of the source" % (
                            src, objects[src][1], rg, et, win[0], win[0] + win[1]), {"range": rg, "source_size": objects[src][1]})
            else:
                o = ("err", r.code)
            record("UploadPartCopy %d %d (%d) %d %s" % (kidx[k], u, n, kidx[src], coq_str(rg)), "upload-part-copy %s upload#%d n=%d from %s range %r -> %s" % (k, u, n, src, rg, o[:2]), o)
        elif x < 0.66:
            u, us, k = pick_uid(); marker = rnd.choice([0, 0, 1, 2, 5]); mx = rnd.choice([1, 2, 1000])
            r = cl.req("GET", path(k), query={"uploadId": us, "part-number-marker": str(marker), "max-parts": str(mx)})
            if r.status == 200 and r.xml() is not None:
                xx = r.xml()
                page = [(int(p.findtext("PartNumber")), int(p.findtext("Size")), e2e.etag_clean(p.findtext("ETag"))) for p in xx.findall("Part")]
                o = ("parts", page, xx.findtext("IsTruncated") == "true", int(xx.findtext("NextPartNumberMarker") or 0))
            else: o = ("err", r.code)
            record("ListParts %d %d %d %d" % (kidx[k], u, marker, mx), "list-parts %s upload#%d marker=%d max=%d" % (k, u, marker, mx), o)
        elif x < 0.70:
            r = cl.req("GET", "/" + bk, query={"uploads": ""})
            lst = sorted((kidx.get(uu.findtext("Key"), -1), uids.index(uu.findtext("UploadId")) if uu.findtext("UploadId") in uids else -1) for uu in r.xml().findall("Upload")) if r.status == 200 else None
            record("ListUploads", "list-uploads", ("uploads", lst) if lst is not None else ("err", r.code))
        elif x < 0.86:
            u, us, k = pick_uid(want_parts=True)
            have = live[u]["parts"] if u in live else {}
            nums = sorted(have)
            mode = rnd.choice(["all", "all", "all", "subset", "stale-etag", "junk-etag", "other-etag", "unordered", "missing-number", "duplicate", "zero", "wrong-size"])
            listed = []
            if mode in ("all", "wrong-size") or not nums: listed = [(n, have[n]) for n in nums]
            elif mode == "subset": listed = [(n, have[n]) for n in nums if rnd.random() < 0.6] or [(nums[0], have[nums[0]])]
            elif mode == "stale-etag":
                listed = [(n, have[n]) for n in nums]
                cands = [n for n in nums if len(live[u]["hist"].get(n, [])) > 1]
                if cands:
                    n = rnd.choice(cands); listed = [(m_, live[u]["hist"][n][0] if m_ == n else v) for m_, v in listed]
            elif mode == "junk-etag": listed = [(n, (None, rnd.choice(["deadbeef", "", '"x"', "0" * 32]))) if i == len(nums) - 1 else (n, have[n]) for i, n in enumerate(nums)]
            elif mode == "other-etag": listed = [(n, have[nums[(i + 1) % len(nums)]]) for i, n in enumerate(nums)]
            elif mode == "unordered": listed = [(n, have[n]) for n in reversed(nums)]
            elif mode == "missing-number": listed = [(n, have[n]) for n in nums] + [(nums[-1] + 1, (None, "0" * 32))]
            elif mode == "duplicate": listed = [(n, have[n]) for n in nums] + [(nums[-1], have[nums[-1]])]
            elif mode == "zero": listed = [(0, have[nums[0]])] + [(n, have[n]) for n in nums[1:]]
            if not listed and rnd.random() < 0.7: listed = [(1, (None, "0" * 32))]
            total = sum(len(w.mat(p)) for _, (p, _e) in listed if p is not None)
            osz = None
            if mode == "wrong-size": osz = total + rnd.choice([0, 1, -1]) if total > 0 else 0
            xml = "<CompleteMultipartUpload>" + "".join("<Part><PartNumber>%d</PartNumber><ETag>%s</ETag></Part>" % (n, (e or "").replace('"', "&quot;")) for n, (_p, e) in listed) + "</CompleteMultipartUpload>"
            before = observe_get(k)
            r = cl.req("POST", path(k), query={"uploadId": us}, body=xml.encode(), headers={"x-amz-mp-object-size": str(osz)} if osz is not None else {})
            after = observe_get(k)
            ok = r.status == 200 and r.xml() is not None and r.xml().tag != "Error" and r.xml().findtext("ETag") is not None
            claims = coq_list(["(%d, %s)" % (n, "Some " + coq_data(p) if p is not None else "None") for n, (p, _e) in listed])
            desc = "complete %s upload#%d [%s] parts=%s%s" % (k, u, mode, [n for n, _ in listed], " size=%s" % osz if osz is not None else "")
            if ok:
                o = ("complete", e2e.etag_clean(r.xml().findtext("ETag")))
                # ---- Spec (R3): the object is the concatenation of the latest acknowledged upload of each listed part
                if u not in live or live[u]["key"] != k:
                    viol("complete-unknown-upload", "%s is acknowledged although upload#%d is not an in-progress upload of %r" % (desc, u, k))
                else:
                    nums_l = [n for n, _ in listed]
                    if nums_l != sorted(set(nums_l)) or any(n not in have for n in nums_l):
                        viol("complete-invalid-list", "%s is acknowledged although the part list is not a strictly ascending list of uploaded parts" % desc)
                    else:
                        bs = [w.mat(have[n][0]) for n in nums_l]
                        if any(e2e.etag_clean(e) != hashlib.md5(b).hexdigest() for (n, (_p, e)), b in zip(listed, bs)):
                            viol("complete-wrong-etag", "%s is acknowledged although a listed ETag is not the ETag of the latest upload of that part" % desc)
                        elif any(len(b) < MIN for b in bs[:-1]):
                            viol("complete-small-part", "%s is acknowledged although a part other than the last is smaller than 5 MiB" % desc)
                        want = b"".join(bs)
                        if after[0] != "get" or after[1] != hashlib.md5(want).hexdigest() or after[2] != len(want):
                            viol("complete-content", "after %s the object is not the concatenation of the listed parts (%s bytes read, %d expected)" % (desc, after[2] if after[0] == "get" else after, len(want)))
                        elif after[3] != e2e.multipart_etag(bs) or o[1] != after[3]:
                            viol("complete-etag", "after %s the ETag is %s / %s, the S3 multipart ETag of the parts is %s" % (desc, o[1], after[3], e2e.multipart_etag(bs)))
                        else:
                            g = after[4]; mh, mm = METAS[live[u]["meta"]]
                            if any(g.headers.get(a) != b for a, b in mh.items()) or e2e.meta_of(g.headers) != {a.lower(): b for a, b in mm.items()}:
                                viol("complete-metadata", "after %s the object does not carry the metadata given at initiation: %r %r" % (desc, {a: g.headers.get(a) for a in mh}, e2e.meta_of(g.headers)))
                        objects[k] = (hashlib.md5(want).hexdigest(), len(want), e2e.multipart_etag(bs), live[u]["meta"], [p for n in nums_l for p in have[n][0]])
                    del live[u]
                # the upload id and its parts are gone
                r2 = cl.req("GET", path(k), query={"uploadId": us})
                if r2.status != 404 or r2.code != "NoSuchUpload":
                    viol("upload-survives-complete", "after %s ListParts of the upload answers %d %s" % (desc, r2.status, r2.code))
            else:
                o = ("err", r.code)
                if r.status >= 500 or r.status < 0:
                    viol("complete-5xx", "%s answered %d %s" % (desc, r.status, r.code))
                if before[:4] != after[:4]:
                    viol("failed-complete-changed-object", "%s failed with %s but the object changed from %s to %s" % (desc, r.code, before[:4], after[:4]))
            record("Complete %d %d %s %s" % (kidx[k], u, claims, "None" if osz is None else "(Some (%d))" % osz), desc + " -> " + str(o), o)
            chk.count("complete:%s:%s" % (mode, "ok" if ok else r.code))
        elif x < 0.91:
            u, us, k = pick_uid()
            r = cl.req("DELETE", path(k), query={"uploadId": us})
            o = ("ok",) if r.status == 204 else ("err", r.code)
            record("Abort %d %d" % (kidx[k], u), "abort %s upload#%d -> %s" % (k, u, o), o)
            if r.status == 204:
                if u in live and live[u]["key"] == k: del live[u]
                else: viol("abort-unknown-upload", "abort of upload#%d presented with key %r is acknowledged" % (u, k))
                r2 = cl.req("GET", path(k), query={"uploadId": us})
                if r2.status != 404:
                    viol("upload-survives-abort", "after abort ListParts of the upload answers %d %s" % (r2.status, r2.code))
        elif x < 0.96:
            k = rnd.choice(KEYS + SRCS[:1]); g = observe_get(k)
            if g[0] == "get":
                r = g[4]; mi = [i for i, (mh, mm) in enumerate(METAS) if e2e.meta_of(r.headers) == {a.lower(): b for a, b in mm.items()} and all(r.headers.get(a) == b for a, b in mh.items())]
                o = ("get", g[1], g[2], g[3], objects[k][3] if k in objects and objects[k][3] in mi else (mi[0] if mi else -1))
                if k not in objects or objects[k][:3] != g[1:4]:
                    viol("object-not-from-acknowledged-write", "GET %r returns %s, the last acknowledged write put %s" % (k, g[1:4], objects.get(k, (None,))[:3]))
            else:
                o = g
                if k in objects: viol("object-lost", "GET %r answers %s although a write of it was acknowledged" % (k, g[1]))
            record("Get %d" % kidx[k], "get %s" % k, o)
        else:
            r = cl.req("GET", "/" + bk, query={"list-type": "2"})
            keys = [c.findtext("Key") for c in r.xml().findall("Contents")] if r.status == 200 else []
            stray = [kk for kk in keys if kk not in objects]
            if stray: viol("parts-visible", "ListObjectsV2 shows %r while uploads are in progress; the acknowledged objects are %r" % (stray[:3], sorted(objects)))
            record("ListObjects", "list-objects", ("keys", sorted(kidx.get(kk, -1) for kk in keys)))
        chk.traces += 1
    # at the end: uploads listing = live uploads; nothing else visible
    r = cl.req("GET", "/" + bk, query={"uploads": ""})
    if r.status == 200:
        got = sorted(uu.findtext("UploadId") for uu in r.xml().findall("Upload"))
        if got != sorted(uids[u] for u in live):
            viol("uploads-listing", "ListMultipartUploads shows %d uploads, %d are in progress" % (len(got), len(live)))
    return ops, obs, text



def uploads_paging(chk, gwbin):
    """ListMultipartUploads followed page by page (key-marker / upload-id-marker from the previous page) with several uploads of one
    key: every upload in progress exactly once, in (key, upload id) order, for every page size (C08_list_uploads_pages_complete)"""
    with gw.Site({"iam": False}, name="c08p") as site:
        g = site.gateway(gwbin)
        cl = s3c.Client(g.port, "root", "rootsecret")
        chk.require(cl.req("PUT", "/bkp").status == 200, "c08:setup", "CreateBucket failed")
        ups = []
        for k, n in (("a", 3), ("b", 1), ("c/d", 2), ("c", 2), ("zz/y/x", 3)):
            for _ in range(n):
                r = cl.req("POST", "/bkp/" + k, query={"uploads": ""})
                if r.status == 200: ups.append((k, r.xml().findtext("UploadId")))
        want = sorted(ups)
        for mx in (1, 2, 3, 4, 1000):
            seen, km, im, pages, ended = [], "", "", 0, False
            while pages < 40:
                q = {"uploads": "", "max-uploads": str(mx)}
                if km: q["key-marker"] = km
                if im: q["upload-id-marker"] = im
                r = cl.req("GET", "/bkp", query=q); x = r.xml(); pages += 1
                if r.status != 200 or x is None: break
                page = [(u.findtext("Key"), u.findtext("UploadId")) for u in x.findall("Upload")]
                seen += page
                if x.findtext("IsTruncated") != "true": ended = True; break
                km, im = x.findtext("NextKeyMarker") or "", x.findtext("NextUploadIdMarker") or ""
            chk.case(("uploads-paging", mx), True); chk.traces += 1; chk.count("uploads-paging:max=%d:%s" % (mx, "complete" if seen == want and ended else "differs"))
            if seen != want or not ended:
                chk.fail("c08:list-uploads-paging", "ListMultipartUploads followed with max-uploads=%d over %d uploads (several per key): %s after %d pages; %d uploads seen, %d distinct, %d never shown" % (
                    mx, len(want), "ended" if ended else "did not end", pages, len(seen), len(set(seen)), len(set(want) - set(seen))),
                    {"max_uploads": mx, "uploads": want, "seen": seen[:30], "pages": pages, "ended": ended})
        # an upload in progress is not an object, whatever the request form: HEAD / GET with partNumber on a key that has an upload in
        # progress and no object, and on a key that has both (the object's own size, not a part of the unrelated upload)
        r0 = cl.req("POST", "/bkp/only-upload", query={"uploads": ""}); u0 = r0.xml().findtext("UploadId") if r0.status == 200 else ""
        cl.req("PUT", "/bkp/only-upload", query={"partNumber": "1", "uploadId": u0}, body=b"sixteen byte part")
        cl.req("PUT", "/bkp/both", body=b"the object")
        r1 = cl.req("POST", "/bkp/both", query={"uploads": ""}); u1 = r1.xml().findtext("UploadId") if r1.status == 200 else ""
        cl.req("PUT", "/bkp/both", query={"partNumber": "1", "uploadId": u1}, body=b"a part of another length")
        for meth in ("HEAD", "GET"):
            ra = cl.req(meth, "/bkp/only-upload", query={"partNumber": "1"})
            rb = cl.req(meth, "/bkp/both", query={"partNumber": "1"})
            chk.case(("in-progress-as-object", meth), True); chk.traces += 1; chk.count("in-progress-as-object:%s:%d/%d" % (meth, ra.status, rb.status))
            if ra.status == 200 or (rb.status == 200 and rb.headers.get("content-length") != "10"):
                chk.fail("c08:in-progress-part-served-by-head" if meth == "HEAD" else "c08:in-progress-part-served-by-get",
                         "%s ?partNumber=1 on a key with an upload in progress and no object answers %d (Content-Length %s); on a key with a 10-byte object and an unrelated upload in progress %d with Content-Length %s" % (
                             meth, ra.status, ra.headers.get("content-length"), rb.status, rb.headers.get("content-length")),
                         {"method": meth, "key_without_object": (ra.status, ra.headers.get("content-length")), "key_with_object": (rb.status, rb.headers.get("content-length"))})
        cl.req("DELETE", "/bkp/only-upload", query={"uploadId": u0}); cl.req("DELETE", "/bkp/both", query={"uploadId": u1})
        for k, u in ups: cl.req("DELETE", "/bkp/" + k, query={"uploadId": u})
        chk.tie("gateway still running after the paged upload listings", g.alive(), g.log_tail())


def checksummed_and_strays(chk, gwbin, rnd):
    """(a) a completion refused for its full-object checksum leaves the object stored under the key exactly as it was and the upload
    completable; (b) ListMultipartUploads shows the uploads in progress and nothing else, also after refused part uploads."""
    import base64, binascii, hashlib, struct
    from vlib import chunkenc, e2e
    def b64crc(kind, data):
        return base64.b64encode(struct.pack(">I", (binascii.crc32(data) & 0xFFFFFFFF) if kind == "crc32" else chunkenc.crc32c(data))).decode()
    for label, cfg in (("xattr", {"iam": False}), ("sidecar", {"iam": False, "meta": "sidecar"}), ("named-temp", {"iam": False, "otmp": False}), ("versioned", {"iam": False, "versioning": True})):
        with gw.Site(cfg, name="c08x") as site:
            g = site.gateway(gwbin)
            cl = s3c.Client(g.port, "root", "rootsecret")
            chk.require(cl.req("PUT", "/bkx").status == 200, "c08:setup", "CreateBucket failed")
            if label == "versioned":
                cl.req("PUT", "/bkx", query={"versioning": ""}, body=b"<VersioningConfiguration><Status>Enabled</Status></VersioningConfiguration>")
            n = 0
            for kind in ("crc32", "crc32c"):
                for ctype in ("FULL_OBJECT",):
                    n += 1; key = "ck%d" % n; path = "/bkx/" + key
                    old = b"stored-before-%d" % n
                    chk.require(cl.req("PUT", path, body=old, headers={"content-type": "old/type", "x-amz-meta-old": "1", "x-amz-tagging": "old=1"}).status == 200, "c08:setup", "initial PUT failed")
                    def state():
                        gr = cl.req("GET", path); tg = cl.req("GET", path, query={"tagging": ""})
                        lv = cl.req("GET", "/bkx", query={"versions": "", "prefix": key}) if label == "versioned" else None
                        nver = len(lv.xml().findall("Version")) if lv is not None and lv.status == 200 and lv.xml() is not None else None
                        return (gr.status, gr.body, (gr.headers.get("etag") or "").strip('"'), gr.headers.get("content-type"), tuple(sorted(e2e.meta_of(gr.headers).items())),
                                tuple(sorted((t.findtext("Key"), t.findtext("Value")) for t in tg.xml().iter("Tag"))) if tg.status == 200 and tg.xml() is not None else None, nver)
                    before = state()
                    r0 = cl.req("POST", path, query={"uploads": ""}, headers={"x-amz-checksum-algorithm": kind.upper(), "x-amz-checksum-type": ctype, "content-type": "new/type", "x-amz-meta-new": "2"})
                    if r0.status != 200:
                        chk.count("checksummed-create-refused:%s:%s:%d" % (kind, ctype, r0.status)); continue
                    uid = r0.xml().findtext("UploadId"); part = b"part-of-" + key.encode() * 50
                    psum = b64crc(kind, part)
                    rp = cl.req("PUT", path, query={"partNumber": "1", "uploadId": uid}, body=part, headers={"x-amz-checksum-" + kind: psum})
                    full = psum if ctype == "FULL_OBJECT" else base64.b64encode(struct.pack(">I", (binascii.crc32(base64.b64decode(psum)) & 0xFFFFFFFF) if kind == "crc32" else chunkenc.crc32c(base64.b64decode(psum)))).decode() + "-1"
                    wrongv = b64crc(kind, part + b"x") + ("" if ctype == "FULL_OBJECT" else "-1")
                    xml = ("<CompleteMultipartUpload><Part><PartNumber>1</PartNumber><ETag>%s</ETag><Checksum%s>%s</Checksum%s></Part></CompleteMultipartUpload>" % (rp.headers.get("etag", ""), kind.upper(), psum, kind.upper())).encode()
                    rc = cl.req("POST", path, query={"uploadId": uid}, body=xml, headers={"x-amz-checksum-" + kind: wrongv, "x-amz-checksum-type": ctype})
                    after = state()
                    chk.case(("refused-checksummed-completion", label, kind, ctype), True); chk.traces += 1
                    chk.count("checksummed-completion:%s:%s:%s:%d" % (label, kind, ctype, rc.status))
                    row = {"config": label, "algorithm": kind, "checksum_type": ctype, "upload_part": rp.status, "completion_status": rc.status, "completion_code": rc.code,
                           "object_before": (before[0], len(before[1])) + before[2:], "object_after": (after[0], len(after[1])) + after[2:]}
                    if rc.status == 200:
                        chk.fail("c08:completion-with-wrong-checksum-accepted:%s" % kind, "[%s] CompleteMultipartUpload with an x-amz-checksum-%s that does not match the assembled object (%s) was acknowledged" % (label, kind, ctype), row)
                    elif after != before:
                        chk.fail("c08:failed-completion-changed-object:%s" % label, "[%s] a CompleteMultipartUpload refused with %d %s (wrong x-amz-checksum-%s, %s) changed the object stored under the key: before %s, after %s" % (
                            label, rc.status, rc.code, kind, ctype, row["object_before"], row["object_after"]), row)
                    # the upload is still there and completes with the right checksum
                    rok = cl.req("POST", path, query={"uploadId": uid}, body=xml, headers={"x-amz-checksum-" + kind: full, "x-amz-checksum-type": ctype})
                    gr2 = cl.req("GET", path)
                    chk.count("checksummed-completion-right:%s:%s:%s:%d:%s" % (label, kind, ctype, rok.status, rc.code))
                    if rc.status != 200 and (rok.status != 200 or gr2.body != part):
                        chk.fail("c08:upload-lost-after-failed-completion:%s" % label, "[%s] after the refused completion (%d %s) the same upload completed with the right x-amz-checksum-%s answers %d %s; the key then holds %d bytes" % (
                            label, rc.status, rc.code, kind, rok.status, rok.code, len(gr2.body)), dict(row, second_completion=rok.status, second_code=rok.code))
                    cl.req("DELETE", path, query={"uploadId": uid})
            # (b) strays
            ids = set()
            for i in range(3):
                r0 = cl.req("POST", "/bkx/stray%d" % (i % 2), query={"uploads": ""}); ids.add(("stray%d" % (i % 2), r0.xml().findtext("UploadId")))
            k0, u0 = sorted(ids)[0]
            cl.req("PUT", "/bkx/" + k0, query={"partNumber": "1", "uploadId": u0}, body=b"good-part")
            refused = [cl.req("PUT", "/bkx/" + k0, query={"partNumber": "2", "uploadId": u0}, body=b"bad", headers={"Content-MD5": "AAAAAAAAAAAAAAAAAAAAAA=="}).status,
                       cl.req("PUT", "/bkx/" + k0, query={"partNumber": "3", "uploadId": u0}, body=b"declared-longer", send_body=b"decl", content_length=15, timeout=3).status,
                       cl.req("PUT", "/bkx/" + k0, query={"partNumber": "4", "uploadId": u0}, body=b"bad", headers={"x-amz-checksum-crc32": "AAAAAA=="}).status]
            # part numbers beyond 32 bits and the empty upload id name no part of any upload
            def parts_of(k_, u_):
                lp = cl.req("GET", "/bkx/" + k_, query={"uploadId": u_})
                return sorted((p_.findtext("PartNumber"), (p_.findtext("ETag") or "").strip('"'), p_.findtext("Size")) for p_ in lp.xml().findall("Part")) if lp.status == 200 and lp.xml() is not None else None
            before_parts = parts_of(k0, u0)
            for pn in ("4294967297", "8589934593", "-4294967295", "18446744073709551617", "0", "10001", "1e0", "0x1", " 1"):
                r = cl.req("PUT", "/bkx/" + k0, query={"partNumber": pn, "uploadId": u0}, body=b"overflowing-part-number")
                now = parts_of(k0, u0)
                chk.case(("part-number", label, pn), True); chk.traces += 1; chk.count("odd-part-number:%s:%d" % (pn.strip(), r.status))
                if now != before_parts:
                    chk.fail("c08:part-number-aliases-another-part", "[%s] UploadPart with partNumber=%s answered %d %s and changed the upload's parts from %s to %s" % (label, pn, r.status, r.code, before_parts, now),
                             {"config": label, "part_number": pn, "status": r.status, "parts_before": before_parts, "parts_after": now}); break
            for what, rq in (("UploadPart", lambda: cl.req("PUT", "/bkx/" + k0, query={"partNumber": "7", "uploadId": ""}, body=b"no-upload-id")),
                             ("ListParts", lambda: cl.req("GET", "/bkx/" + k0, query={"uploadId": ""})),
                             ("CompleteMultipartUpload", lambda: cl.req("POST", "/bkx/" + k0, query={"uploadId": ""}, body=b"<CompleteMultipartUpload></CompleteMultipartUpload>")),
                             ("AbortMultipartUpload", lambda: cl.req("DELETE", "/bkx/" + k0, query={"uploadId": ""}))):
                r = rq()
                chk.case(("empty-upload-id", label, what), True); chk.traces += 1; chk.count("empty-upload-id:%s:%d" % (what, r.status))
                if 200 <= r.status < 300 and what != "ListParts" or (what == "ListParts" and r.status == 200 and r.xml() is not None and r.xml().tag == "ListPartsResult" and False):
                    chk.fail("c08:empty-upload-id-accepted:%s" % what, "[%s] %s with an empty uploadId (no such upload) answered %d" % (label, what, r.status), {"config": label, "request": what, "status": r.status})
            def listed():
                lu = cl.req("GET", "/bkx", query={"uploads": ""})
                return set((u.findtext("Key"), u.findtext("UploadId")) for u in lu.xml().findall("Upload")) if lu.status == 200 and lu.xml() is not None else None
            l1 = listed()
            chk.case(("stray-uploads", label, "in-progress"), True); chk.traces += 1
            if l1 != ids:
                chk.fail("c08:list-uploads-differs:%s" % label, "[%s] after refused part uploads (%s) ListMultipartUploads shows %s; the uploads in progress are %s" % (label, refused, sorted(l1 or []), sorted(ids)),
                         {"config": label, "refused_part_uploads": refused, "listed": sorted(l1 or []), "in_progress": sorted(ids)})
            for k_, u_ in sorted(ids):
                cl.req("DELETE", "/bkx/" + k_, query={"uploadId": u_})
            l2 = listed()
            chk.case(("stray-uploads", label, "all-aborted"), True); chk.traces += 1
            if l2:
                chk.fail("c08:list-uploads-differs:%s" % label, "[%s] after every upload was aborted ListMultipartUploads still shows %s" % (label, sorted(l2)), {"config": label, "listed": sorted(l2)})
            chk.tie("gateway still running (%s, checksummed completions)" % label, g.alive(), g.log_tail())

def canon_obs(o):
    if o[0] == "get": return ("get", o[1], o[2], o[3], o[4])
    if o[0] == "part": return ("part", o[1])
    return tuple(o)


def canon_model(m):
    if m[0] == "part": return ("part", m[1])
    return tuple(m)


def run(chk):
    quick = chk.tier == "quick"
    chk.rule = ("a case is one random program (8-30 steps) of create / upload-part (incl. re-upload, out-of-range numbers) / upload-part-copy "
                "(22 range forms incl. open-ended, single byte, exceeding, malformed; sources of 5 MiB+, 100 and 0 bytes and completed objects) / "
                "list-parts (markers, page sizes) / list-uploads / complete (all, subset, stale / junk / swapped ETags, unordered, duplicate, missing, "
                "zero part number, x-amz-mp-object-size right and wrong) / abort / get / list-objects over up to five uploads on four keys "
                "(several per key, ids presented with the wrong key, finished and unknown ids), run against the real gateway (xattr and sidecar metadata stores) and the model; "
                "every answer is compared with the model's and the Spec is evaluated after each completion. Non-trivial: at least one "
                "completion attempt; distinct by program text.")
    gwbin = gobuild.build_gateway("verif")
    built = coq.ensure_built(chk, TARGETS)
    if built:
        coq.check_assumptions(chk, "Properties.C08", THEOREMS)
    rnd = chk.rnd
    w = World()
    hists = []
    n_hist = 40 if quick else 400
    for label, cfg, nh in (("xattr", {"iam": False}, n_hist), ("sidecar", {"iam": False, "meta": "sidecar"}, max(n_hist // 3, 10))):
        with gw.Site(cfg, name="c08") as site:
            g = site.gateway(gwbin)
            cl = s3c.Client(g.port, "root", "rootsecret")
            for h in range(nh):
                bk = "mp%s%04d" % (label[0], h)
                chk.require(cl.req("PUT", "/" + bk).status == 200, "c08:setup", "CreateBucket failed")
                ops, obs, text = history(chk, cl, bk, w, rnd, rnd.randint(12, 40))
                hists.append((ops, obs, text))
                chk.case(("hist", tuple(ops)), any(o.startswith("Complete") for o in ops))
                cl.req("DELETE", "/" + bk)      # (not empty: refused; the site is removed at the end)
                import shutil, os
                shutil.rmtree(os.path.join(site.root, bk), ignore_errors=True)
            chk.tie("gateway still running (%s)" % label, g.alive(), g.log_tail())
    checksummed_and_strays(chk, gwbin, rnd)
    uploads_paging(chk, gwbin)
    if not built:
        return
    text = ("From Coq Require Import String List ZArith Bool.\nFrom VGW Require Import Base.GoStr Model.Multipart Check.MultipartCheck.\n"
            "Import ListNotations.\nOpen Scope string_scope.\nOpen Scope Z_scope.\n")
    text += "Definition progs : list (list op) :=\n " + coq_list([coq_list(o) for o, _, _ in hists]).replace("]; [", "];\n [") + ".\n"
    text += "Definition OUT := Eval vm_compute in map run_enc progs.\nPrint OUT.\n"
    rc, out = coq.run_cases("C08_cases", text)
    res = coq.printed_nested(out, "OUT")
    if rc != 0 or res is None or len(res) != len(hists):
        chk.tie("case file evaluates", False, out[-3000:])
        return
    bad = []
    for hi, ((ops, obs, txt), encs) in enumerate(zip(hists, res)):
        for i, (o, e) in enumerate(zip(obs, encs)):
            m = decode(e, w)
            if canon_obs(o) != canon_model(m):
                bad.append({"history": hi, "step": i, "op": txt[i], "gateway": repr(canon_obs(o))[:300], "model": repr(canon_model(m))[:300], "prefix": txt[max(0, i - 8):i]})
                break
    chk.tie("T3 multipart programs: every answer of the real gateway = Model.Multipart.run on %d programs (%d steps)" % (len(hists), sum(len(o) for o, _, _ in hists)), not bad, bad[:4])
    for b in bad[:6]:
        # a disagreement whose gateway side contradicts the Spec has been reported above; the rest are tie failures only
        pass
    chk.samples.append({"program": hists[0][2][:10]})


def replay(chk, data):
    print(json.dumps(data.get("replay"), indent=1, default=str))
    return 0
