"""C20 — No request can crash or wedge the gateway (DESIGN.md §7 C20)."""
import json, os, re, time
from vlib import common, coq, gobuild, gw, s3c, e2e, chunkenc
from vlib.common import coq_str, coq_list, coq_bool, coq_opt
from props import c02

LEVEL = "other"
THEOREMS = ["C20_list_buckets_total", "C20_list_uploads_total", "C20_parse_authorization_total"]
TARGETS = ["Properties/C20.vo", "Check/PagingCheck.vo"]

NASTY = ["", "0", "-1", "1", "2147483647", "2147483648", "-2147483649", "9223372036854775807", "9223372036854775808", "99999999999999999999",
         "abc", "1e3", "0x10", " 5", "5 ", "+5", "%00", "\x00", "\xff\xfe", "a" * 3000, "../..", "null", "true", "[]", "{}", "<x>", "&", "=", "%", "%zz", "\r\n", "ü",
         "1,2", "1;2"]
QUERY_KEYS = ["max-keys", "max-buckets", "max-uploads", "max-parts", "part-number-marker", "partNumber", "marker", "key-marker", "upload-id-marker",
              "version-id-marker", "continuation-token", "start-after", "prefix", "delimiter", "encoding-type", "list-type", "versionId", "uploadId", "fetch-owner"]
HEADER_KEYS = ["Range", "x-amz-copy-source", "x-amz-copy-source-range", "Content-MD5", "x-amz-checksum-crc32", "x-amz-checksum-sha256", "x-amz-checksum-algorithm",
               "x-amz-sdk-checksum-algorithm", "x-amz-tagging", "x-amz-meta-x", "x-amz-object-lock-mode", "x-amz-object-lock-retain-until-date",
               "x-amz-object-lock-legal-hold", "x-amz-decoded-content-length", "x-amz-trailer", "x-amz-acl", "x-amz-grant-read", "x-amz-object-attributes",
               "x-amz-mp-object-size", "x-amz-bypass-governance-retention", "x-amz-metadata-directive", "x-amz-tagging-directive", "If-Match", "x-amz-expected-bucket-owner",
               "x-amz-object-ownership", "x-amz-bucket-object-lock-enabled", "Content-Type", "Expires"]
BODIES = [b"", b"<", b"<a>", b"</a>", b"<a></b>", b"<?xml version=\"1.0\"?>", b"<Delete></Delete>", b"<Delete><Object></Object></Delete>",
          b"<Delete><Object><Key></Key></Object></Delete>", b"<CompleteMultipartUpload></CompleteMultipartUpload>",
          b"<CompleteMultipartUpload><Part><PartNumber>-1</PartNumber><ETag></ETag></Part></CompleteMultipartUpload>",
          b"<CompleteMultipartUpload><Part><PartNumber>99999999999</PartNumber><ETag>x</ETag></Part></CompleteMultipartUpload>",
          b"<Tagging><TagSet>" + b"<Tag><Key>k</Key><Value>v</Value></Tag>" * 60 + b"</TagSet></Tagging>", b"<Tagging></Tagging>", b"<Tagging><TagSet><Tag></Tag></TagSet></Tagging>",
          b"<VersioningConfiguration><Status>Bogus</Status></VersioningConfiguration>", b"<VersioningConfiguration/>", b"<LegalHold><Status>MAYBE</Status></LegalHold>", b"<LegalHold/>",
          b"<Retention><Mode>X</Mode><RetainUntilDate>never</RetainUntilDate></Retention>", b"<Retention/>",
          b"<ObjectLockConfiguration><Rule><DefaultRetention><Days>-5</Days><Mode>COMPLIANCE</Mode></DefaultRetention></Rule></ObjectLockConfiguration>",
          b"<ObjectLockConfiguration><Rule><DefaultRetention><Days>1</Days><Years>1</Years></DefaultRetention></Rule></ObjectLockConfiguration>", b"<ObjectLockConfiguration/>",
          b"<AccessControlPolicy></AccessControlPolicy>", b"<AccessControlPolicy><AccessControlList><Grant></Grant></AccessControlList></AccessControlPolicy>",
          b"<OwnershipControls></OwnershipControls>", b"<OwnershipControls><Rule></Rule></OwnershipControls>", b"<Account></Account>", b"<MutableProps><UserID>x</UserID></MutableProps>",
          b"{", b"{}", b"[]", b"null", b"{\"Statement\":null}", b"{\"Statement\":[null]}", b"{\"Statement\":[{\"Principal\":{\"AWS\":[null]}}]}", b"{\"Statement\":5}",
          b"<a>" * 3000, b"\x00" * 100, b"\xff" * 100, b"<RestoreRequest></RestoreRequest>", b"<SelectObjectContentRequest></SelectObjectContentRequest>",
          b"<CreateBucketConfiguration><LocationConstraint>x</LocationConstraint></CreateBucketConfiguration>", b"<CORSConfiguration></CORSConfiguration>"]

# request documents by endpoint: (root, children) trees; a generated body keeps a random subset of the children, each empty, filled with a
# nasty value, or recursively generated (so "present but empty" elements at every depth are reached)
L = None
SCHEMAS = {
    "DeleteObjects": ("Delete", {"Quiet": L, "Object": {"Key": L, "VersionId": L}}),
    "CompleteMultipartUpload": ("CompleteMultipartUpload", {"Part": {"PartNumber": L, "ETag": L, "ChecksumCRC32": L}}),
    "PutObjectTagging": ("Tagging", {"TagSet": {"Tag": {"Key": L, "Value": L}}}),
    "PutBucket?tagging": ("Tagging", {"TagSet": {"Tag": {"Key": L, "Value": L}}}),
    "PutBucket?versioning": ("VersioningConfiguration", {"Status": L, "MfaDelete": L}),
    "PutObjectLegalHold": ("LegalHold", {"Status": L}),
    "PutObjectRetention": ("Retention", {"Mode": L, "RetainUntilDate": L}),
    "PutBucket?object-lock": ("ObjectLockConfiguration", {"ObjectLockEnabled": L, "Rule": {"DefaultRetention": {"Days": L, "Years": L, "Mode": L}}}),
    "PutObjectAcl": ("AccessControlPolicy", {"Owner": {"ID": L, "DisplayName": L}, "AccessControlList": {"Grant": {"Grantee": {"ID": L, "Type": L, "URI": L}, "Permission": L}}}),
    "PutBucket?acl": ("AccessControlPolicy", {"Owner": {"ID": L, "DisplayName": L}, "AccessControlList": {"Grant": {"Grantee": {"ID": L, "Type": L, "URI": L}, "Permission": L}}}),
    "PutBucket?ownershipControls": ("OwnershipControls", {"Rule": {"ObjectOwnership": L}}),
    "RestoreObject": ("RestoreRequest", {"Days": L, "GlacierJobParameters": {"Tier": L}, "Type": L, "Tier": L, "Description": L, "SelectParameters": {"Expression": L},
                                         "OutputLocation": {"S3": {"BucketName": L, "Prefix": L, "Encryption": {"EncryptionType": L}, "AccessControlList": {"Grant": {"Grantee": {"ID": L}}}}}}),
    "SelectObjectContent": ("SelectObjectContentRequest", {"Expression": L, "ExpressionType": L, "RequestProgress": {"Enabled": L}, "ScanRange": {"Start": L, "End": L},
                                                            "InputSerialization": {"CompressionType": L, "CSV": {"FileHeaderInfo": L, "FieldDelimiter": L}, "JSON": {"Type": L}, "Parquet": L},
                                                            "OutputSerialization": {"CSV": {"QuoteFields": L}, "JSON": {"RecordDelimiter": L}}}),
    "CreateBucket": ("CreateBucketConfiguration", {"LocationConstraint": L, "Bucket": {"Type": L}, "Location": {"Name": L, "Type": L}}),
    "PutBucketCors": ("CORSConfiguration", {"CORSRule": {"AllowedMethod": L, "AllowedOrigin": L, "MaxAgeSeconds": L}}),
    "admin:create-user": ("Account", {"Access": L, "Secret": L, "Role": L, "UserID": L, "GroupID": L}),
    "admin:update-user": ("MutableProps", {"Secret": L, "UserID": L, "GroupID": L, "Role": L}),
}
XVALS = ["", "x", "-1", "0", "99999999999999999999", "true", "TRUE", "Enabled", "COMPLIANCE", "2030-01-01T00:00:00Z", "never", "CanonicalUser", "FULL_CONTROL", "root", "&lt;", "\u00fc"]


def gen_xml(rnd, name, children, depth=0):
    if children is None:
        return "<%s>%s</%s>" % (name, rnd.choice(XVALS), name) if rnd.random() < 0.8 else "<%s/>" % name
    r = rnd.random()
    if r < 0.25 or depth > 5:
        return "<%s></%s>" % (name, name)
    if r < 0.30:
        return "<%s>%s</%s>" % (name, rnd.choice(XVALS), name)
    kids = [k for k in children if rnd.random() < 0.6] or [rnd.choice(list(children))]
    out = ""
    for k in kids:
        for _ in range(rnd.choice([1, 1, 1, 2, 0])):
            out += gen_xml(rnd, k, children[k], depth + 1)
    return "<%s>%s</%s>" % (name, out, name)


VALID_LEAF = {"ObjectLockEnabled": "Enabled", "Days": "1", "Years": "1", "Mode": "GOVERNANCE", "Status": "Enabled", "MfaDelete": "Disabled", "Key": "k1", "Value": "v1",
              "Quiet": "true", "VersionId": "null", "PartNumber": "1", "ETag": "\"d41d8cd98f00b204e9800998ecf8427e\"", "ObjectOwnership": "BucketOwnerEnforced",
              "RetainUntilDate": "2030-01-01T00:00:00Z", "ID": "root", "DisplayName": "root", "Type": "CanonicalUser", "Permission": "FULL_CONTROL",
              "AllowedMethod": "GET", "AllowedOrigin": "*", "MaxAgeSeconds": "10", "Access": "fuzzuser", "Secret": "fuzzsecret", "Role": "user", "UserID": "0", "GroupID": "0",
              "LocationConstraint": "us-east-1", "Expression": "select * from s3object", "ExpressionType": "SQL", "Tier": "Standard"}


def partial_docs(root, children, limit=64):
    """documents in which every leaf is either absent or carries a value of its own grammar: the documents a parser accepts although a
    member its consumers dereference is missing (all subsets of the leaves, up to `limit`)"""
    leaves = []
    def walk(pfx, ch):
        for k, v in ch.items():
            if v is None: leaves.append(tuple(pfx + [k]))
            else: walk(pfx + [k], v)
    walk([], children)
    if any(l[-1] not in VALID_LEAF for l in leaves) or len(leaves) > 6:
        return []
    out = []
    for mask in range(1 << len(leaves)):
        keep = {l for i, l in enumerate(leaves) if mask >> i & 1}
        def render(pfx, name, ch):
            if ch is None:
                return "<%s>%s</%s>" % (name, VALID_LEAF[name], name) if tuple(pfx + [name]) in keep else ""
            inner = "".join(render(pfx + [name] if pfx is not None else [], k, v) for k, v in ch.items())
            return "<%s>%s</%s>" % (name, inner, name) if inner or pfx is None else ""
        inner = "".join(render([], k, v) for k, v in children.items())
        out.append('<%s xmlns="http://s3.amazonaws.com/doc/2006-03-01/">%s</%s>' % (root, inner, root))
    return out[:limit]


def path_docs(root, children):
    """systematic: for every element of the document tree, the document that reaches it and leaves it empty / self-closed / ill-typed"""
    out = []
    def walk(prefix, name, ch):
        for fill in ("<%s></%s>" % (name, name), "<%s/>" % name, "<%s>x</%s>" % (name, name), "<%s>-1</%s>" % (name, name)):
            doc = fill
            for p in reversed(prefix):
                doc = "<%s>%s</%s>" % (p, doc, p)
            out.append(doc)
        if ch:
            for k, v in ch.items():
                walk(prefix + [name], k, v)
    walk([], root, children)
    return out


def gen_json(rnd, depth=0):
    r = rnd.random()
    if depth > 3 or r < 0.3:
        return rnd.choice([None, 5, "x", "*", "", True, "arn:aws:s3:::bk1/*", "s3:GetObject", "Allow", "Deny", [], {}])
    if r < 0.5:
        return [gen_json(rnd, depth + 1) for _ in range(rnd.randrange(3))]
    return {k: gen_json(rnd, depth + 1) for k in rnd.sample(["Version", "Statement", "Effect", "Principal", "AWS", "Action", "Resource", "Sid", "Condition", "NotAction"], rnd.randrange(1, 5))}


AUTH_DATES = ["", "2", "2026", "2026100", "20261001", "20261001T", "20261001T00000", "20261001T000000", "x" * 16, "99999999T999999Z", "00000000T000000Z", "20261001T000000Zjunk", " 20261001T000000Z"]


def auth_tamper(rnd):
    """a function applied to the headers after signing: one credential-carrying field leaves its grammar"""
    kind = rnd.choice(["date", "date", "auth-part", "auth-part", "auth-whole", "sha", "host"])
    if kind == "date":
        v = rnd.choice(AUTH_DATES)
        return "x-amz-date=%r" % v, lambda h: h.__setitem__("x-amz-date", v)
    if kind == "sha":
        v = rnd.choice(["", "x", "STREAMING-AWS4-HMAC-SHA256-PAYLOAD", "STREAMING-UNSIGNED-PAYLOAD-TRAILER", "STREAMING-AWS4-ECDSA-P256-SHA256-PAYLOAD", "UNSIGNED-PAYLOAD", "E3B0C44298FC1C149AFBF4C8996FB92427AE41E4649B934CA495991B7852B855", "0" * 63])
        return "x-amz-content-sha256=%r" % v, lambda h: h.__setitem__("x-amz-content-sha256", v)
    if kind == "host":
        v = rnd.choice(["", "x", ":", "127.0.0.1:99999", "[::1", "a" * 300])
        return "host=%r" % v[:20], lambda h: h.__setitem__("host", v)
    if kind == "auth-whole":
        v = rnd.choice(["", "AWS4-HMAC-SHA256", "AWS4-HMAC-SHA256 ", "AWS root:c2ln", "Bearer x", "AWS4-HMAC-SHA256 Credential=,SignedHeaders=,Signature=", "AWS4-HMAC-SHA256 Credential=root",
                        "AWS4-HMAC-SHA256 Credential=root/20261001/us-east-1/s3/aws4_request, SignedHeaders=host, Signature=", "AWS4-HMAC-SHA256 " + ", " * 50, "AWS4-ECDSA-P256-SHA256 Credential=root/2/3/4/5, SignedHeaders=host, Signature=00",
                        "AWS4-HMAC-SHA256 Credential=root/20261001/us-east-1/s3/aws4_request,SignedHeaders=host,Signature=" + "0" * 64, "AWS4-HMAC-SHA256 Signature=00, SignedHeaders=host, Credential=root/1/2/3/4",
                        "AWS4-HMAC-SHA256 Credential=root/20261001/us-east-1/s3/aws4_request, SignedHeaders=host, Signature=" + "0" * 64 + ", Extra=1"])
        return "authorization=%r" % v[:40], lambda h: h.__setitem__("Authorization", v)
    sub = rnd.choice(["cred-short", "cred-long", "cred-empty-date", "cred-short-date", "cred-noslash", "signed-empty", "signed-unknown", "signed-dup", "sig-empty", "sig-short", "sig-nonhex", "sig-long", "no-space", "lowercase"])

    def f(h):
        a = h.get("Authorization", "")
        m = re.match(r"(\S+) Credential=([^,]*), SignedHeaders=([^,]*), Signature=(.*)", a)
        if not m:
            return
        alg, cred, sh, sig = m.groups()
        parts = cred.split("/")
        if sub == "cred-short": cred = "/".join(parts[:3])
        elif sub == "cred-long": cred = cred + "/extra/more"
        elif sub == "cred-empty-date": parts[1] = ""; cred = "/".join(parts)
        elif sub == "cred-short-date": parts[1] = parts[1][:4]; cred = "/".join(parts)
        elif sub == "cred-noslash": cred = parts[0]
        elif sub == "signed-empty": sh = ""
        elif sub == "signed-unknown": sh = sh + ";x-not-sent"
        elif sub == "signed-dup": sh = sh + ";" + sh
        elif sub == "sig-empty": sig = ""
        elif sub == "sig-short": sig = sig[:5]
        elif sub == "sig-nonhex": sig = "zz" + sig[2:]
        elif sub == "sig-long": sig = sig * 40
        elif sub == "lowercase": alg = alg.lower()
        a = "%s Credential=%s, SignedHeaders=%s, Signature=%s" % (alg, cred, sh, sig)
        if sub == "no-space": a = a.replace(", ", ",").replace(" ", "", 1)
        h["Authorization"] = a
    return "authorization:" + sub, f



def well_formed(method, r):
    if r.status == -1:
        return "no response (connection closed)"
    if not (100 <= r.status < 600):
        return "status %d" % r.status
    if r.status in (400, 413, 414, 431) and r.headers.get("content-type", "").startswith("text/plain"):
        return None        # the HTTP server itself refused a malformed / oversized request line or header block before routing
    if r.status >= 400 and method != "HEAD" and r.body:
        if b"<Error>" not in r.body or b"<Code>" not in r.body:
            return "error body is not an S3 error document: %r" % r.body[:80]
    return None


def run(chk):
    quick = chk.tier == "quick"
    n_fuzz = 1500 if quick else 12000
    chk.rule = ("a case is one request built from the C02 endpoint list with one to three fields replaced by values outside their grammar "
                "(boundary integers, non-numbers, NUL, overlong, type-confused query parameters and headers; empty, truncated, deeply nested, "
                "wrong-root XML and JSON bodies; for the small request documents every subset of well-typed members (a member consumers rely on may be absent); malformed chunk framing, negative and huge sizes and lengths), sent with valid credentials (and "
                "a tenth without); after each: the response must be well formed, arrive within 10 s, the process must be alive and answer a probe, "
                "and the gateway log must show no recovered panic; after every bucket configuration the gateway accepted, six ordinary requests that consult it (put, get, head, "
                "two listings, create-multipart) must not answer 5xx. Non-trivial: at least one field outside its grammar; distinct by content.")
    gwbin = gobuild.build_gateway("verif")
    built = coq.ensure_built(chk, TARGETS)
    if built:
        coq.check_assumptions(chk, "Properties.C20", THEOREMS)
    rnd = chk.rnd
    lbterms, lbmeta, luterms, lumeta = [], [], [], []
    with gw.Site({"iam": True, "versioning": True}, name="c20") as site:
        g = site.gateway(gwbin)
        cl, uid, ok = c02.prepare(site, g)
        chk.require(ok, "c20:setup", "scenario setup failed")
        logpath = os.path.join(site.base, "gw-%d.log" % g.port)
        panics_seen = 0
        stuck = [0]
        probes = [0]

        def after(label, method, r, dt, detail):
            nonlocal g, cl, panics_seen
            chk.traces += 1
            bad = well_formed(method, r)
            row = dict(detail, request=label, status=r.status, code=r.code, seconds=round(dt, 3))
            if not g.alive():
                chk.fail("c20:process-died:" + label.split(" ")[0], "the gateway process died on %s" % label, dict(row, log=g.log_tail(1500)))
                g = site.gateway(gwbin); cl = s3c.Client(g.port, "root", "rootsecret")
                return
            log = open(logpath, "rb").read()
            n = log.count(b"panic while handling")
            if n > panics_seen:
                panics_seen = n
                m = re.findall(rb"panic while handling [^\n]*\n(?:[^\n]*\n){0,12}", log)
                where = b""
                if m:
                    fr = re.findall(rb"versitygw/[\w/.-]+\.go:\d+", m[-1])
                    where = fr[0] if fr else b""
                chk.fail("c20:panic:" + (where.decode() or label.split(" ")[0]), "a request made a handler panic (%s): %s" % (where.decode(), label), dict(row, panic=m[-1].decode("latin1")[:600] if m else ""))
            if bad:
                chk.fail("c20:malformed-response:" + label.split(" ")[0], "%s -> %s" % (label, bad), row)
            ep = label.split(" ")[0]
            if 200 <= r.status < 300 and method in ("PUT", "DELETE", "POST") and ("Bucket?" in ep or ep.startswith("PutBucket")) and g.alive():
                # a configuration the gateway accepted must not break the requests that consult it afterwards
                probes[0] += 1
                pk = "/bk1/cfgprobe-%d" % (probes[0] % 7)
                for pm, pp, pq, pb in (("PUT", pk, {}, b"probe"), ("GET", pk, {}, b""), ("HEAD", pk, {}, b""), ("GET", "/bk1", {"list-type": "2", "max-keys": "3"}, b""),
                                       ("GET", "/bk1", {"versions": "", "max-keys": "3"}, b""), ("POST", pk + "m", {"uploads": ""}, b"")):
                    pr = cl.req(pm, pp, query=pq, body=pb, timeout=15)
                    chk.traces += 1
                    if pr.status >= 500 or pr.status == -1:
                        chk.fail("c20:5xx-after-accepted-config:" + ep, "after %s was accepted with %d, %s %s answers %d %s" % (label, r.status, pm, pp, pr.status, pr.code),
                                 dict(row, probe="%s %s" % (pm, pp), probe_status=pr.status, probe_code=pr.code, log=g.log_tail(800)))
                        break
            if dt > 10:
                chk.fail("c20:slow:" + label.split(" ")[0], "%s took %.1f s" % (label, dt), row)
                stuck[0] += 1
                # a gateway that stopped answering is reported once, not waited for on each of the remaining requests
                chk.require(stuck[0] < 6, "c20:wedged", "six requests got no answer within 10 s; the last: %s" % label, row)

        # ---- ordinary, valid requests on an object that carries every kind of attribute (user metadata, tags, content headers, a
        # checksum): none of them may be answered 5xx
        import time as _t
        rich_h = {"x-amz-meta-a": "1", "x-amz-meta-b-c": "two", "x-amz-tagging": "t=1&u=2", "Content-Type": "text/x-rich", "Content-Encoding": "identity", "Cache-Control": "no-cache",
                  "Content-Disposition": "inline", "Content-Language": "en", "Expires": "Thu, 01 Jan 2032 00:00:00 GMT",
                  "x-amz-checksum-crc32": __import__("base64").b64encode((__import__("zlib").crc32(b"rich object body") & 0xffffffff).to_bytes(4, "big")).decode()}
        cl.req("PUT", "/bk1/richdir/", body=b"", headers={"x-amz-meta-kind": "dir"})
        rr0_ = cl.req("PUT", "/bk1/rich", body=b"rich object body", headers=rich_h)
        chk.tie("the object with every kind of attribute is stored", rr0_.status == 200, "%d %s" % (rr0_.status, rr0_.code))
        r0_ = cl.req("POST", "/bk1/rich-mp", query={"uploads": ""}, headers=rich_h); ruid = r0_.xml().findtext("UploadId") if r0_.status == 200 and r0_.xml() is not None else ""
        for label_, m_, p_, q_, h_ in (("CopyObject(rich->new)", "PUT", "/bk1/rich-copy", {}, {"x-amz-copy-source": "bk1/rich"}),
                                       ("CopyObject(rich->new,REPLACE)", "PUT", "/bk1/rich-copy2", {}, {"x-amz-copy-source": "bk1/rich", "x-amz-metadata-directive": "REPLACE", "x-amz-meta-n": "v"}),
                                       ("CopyObject(rich->itself,REPLACE)", "PUT", "/bk1/rich", {}, {"x-amz-copy-source": "bk1/rich", "x-amz-metadata-directive": "REPLACE", "x-amz-meta-a": "1", "x-amz-meta-z": "9"}),
                                       ("CopyObject(rich->other-bucket)", "PUT", "/bk2/rich-copy", {}, {"x-amz-copy-source": "bk1/rich"}),
                                       ("UploadPartCopy(rich)", "PUT", "/bk1/rich-mp", {"partNumber": "1", "uploadId": ruid}, {"x-amz-copy-source": "bk1/rich"}),
                                       ("UploadPartCopy(directory object)", "PUT", "/bk1/rich-mp", {"partNumber": "2", "uploadId": ruid}, {"x-amz-copy-source": "bk1/richdir/"}),
                                       ("CopyObject(directory object->key)", "PUT", "/bk1/rich-fromdir", {}, {"x-amz-copy-source": "bk1/richdir/"}),
                                       ("ListParts(rich-mp)", "GET", "/bk1/rich-mp", {"uploadId": ruid}, {}),
                                       ("GetObjectAttributes(rich)", "GET", "/bk1/rich", {"attributes": ""}, {"x-amz-object-attributes": "ETag,Checksum,ObjectParts,StorageClass,ObjectSize"}),
                                       ("HeadObject(rich,checksum)", "HEAD", "/bk1/rich", {}, {"x-amz-checksum-mode": "ENABLED"}),
                                       ("GetObject(rich,partNumber)", "GET", "/bk1/rich", {"partNumber": "1"}, {}),
                                       ("GetObjectTagging(rich)", "GET", "/bk1/rich", {"tagging": ""}, {}),
                                       ("GetObject(rich-copy)", "GET", "/bk1/rich-copy", {}, {}),
                                       ("ListObjectsV2(fetch-owner)", "GET", "/bk1", {"list-type": "2", "fetch-owner": "true"}, {}),
                                       ("ListObjectVersions", "GET", "/bk1", {"versions": ""}, {}),
                                       ("DeleteObject(rich-copy)", "DELETE", "/bk1/rich-copy", {}, {})):
            t0_ = _t.time(); rr_ = cl.req(m_, p_, query=q_, headers=h_, timeout=15)
            chk.case(("rich", label_), True); chk.count("rich:%s:%d" % (label_, rr_.status))
            after(label_, m_, rr_, _t.time() - t0_, {"valid_request": True})
            if rr_.status >= 500 or rr_.status == -1:
                chk.fail("c20:5xx-on-valid-request:" + label_, "the valid request %s answered %d %s" % (label_, rr_.status, rr_.code), {"request": label_, "status": rr_.status, "log": g.log_tail(600)})
        cl.req("DELETE", "/bk1/rich-mp", query={"uploadId": ruid})
        # ---- corpus of former crashers and paging ties
        for i in range(5):
            cl.req("PUT", "/bkt%d" % i)
        names_all = sorted(os.listdir(site.root))
        for mx in ["0", "1", "2", "", "10000", "10001", "-1", "x"]:
            for tok in ["", "bk1", "bkt2", "zzz"]:
                for pfx in ["", "bkt", "q"]:
                    q = {k: v for k, v in (("max-buckets", mx), ("continuation-token", tok), ("prefix", pfx)) if v != ""}
                    t0 = time.time(); r = cl.req("GET", "/", query=q); dt = time.time() - t0
                    after("ListBuckets " + json.dumps(q), "GET", r, dt, {"query": q})
                    chk.case(("lb", mx, tok, pfx), True)
                    if r.status == 200 and r.xml() is not None:
                        x = r.xml()
                        got = [b.findtext("Name") for b in x.iter("Bucket")]
                        obs = "(Some (%s, %s))" % (coq_list([coq_str(n) for n in got]), coq_str(x.findtext("ContinuationToken") or ""))
                    elif r.status == 400:
                        obs = "None"
                    else:
                        continue
                    lbterms.append("{| lb_fis := %s; lb_prefix := %s; lb_token := %s; lb_owner := \"root\"; lb_admin := true; lb_max := %s; lb_obs := %s |}" % (
                        coq_list(["(%s, Some \"root\")" % coq_str(n) for n in names_all]), coq_str(pfx), coq_str(tok), coq_str(mx), obs))
                    lbmeta.append({"query": q, "status": r.status})
        ups = []
        for k in "abcde":
            r = cl.req("POST", "/bkt0/" + k, query={"uploads": ""})
            if r.status == 200: ups.append((k, r.xml().findtext("UploadId")))
        r = cl.req("POST", "/bkt0/c", query={"uploads": ""})
        if r.status == 200: ups.append(("c", r.xml().findtext("UploadId")))
        for km in ["", "a", "c", "e", "zz"]:
            for mu in ["0", "1", "2", "3", "1000", "-1", ""]:
                q = {k: v for k, v in (("uploads", ""), ("key-marker", km), ("max-uploads", mu)) if v != "" or k == "uploads"}
                t0 = time.time(); r = cl.req("GET", "/bkt0", query=q); dt = time.time() - t0
                after("ListMultipartUploads " + json.dumps(q), "GET", r, dt, {"query": q})
                chk.case(("lu", km, mu), True)
                if r.status == 200 and r.xml() is not None and mu not in ("-1",):
                    x = r.xml()
                    page = [(u.findtext("Key"), u.findtext("UploadId")) for u in x.findall("Upload")]
                    tr = x.findtext("IsTruncated") == "true"
                    nk, ni = x.findtext("NextKeyMarker") or "", x.findtext("NextUploadIdMarker") or ""
                    # directory order of the per-key hash directories is not key order: the model takes the sorted list as the backend sorts it (stable)
                    luterms.append((km, int(mu) if mu else 1000, page, tr, nk, ni, "", False))
        # the same with an upload id marker (the markers of a truncated page name an upload; several uploads of the key "c")
        for km, im in [(k_, u_) for k_, u_ in sorted(ups) if k_ in ("a", "c", "e")]:
            for mu in ["1", "2", "1000"]:
                q = {"uploads": "", "key-marker": km, "upload-id-marker": im, "max-uploads": mu}
                t0 = time.time(); r = cl.req("GET", "/bkt0", query=q); dt = time.time() - t0
                after("ListMultipartUploads " + json.dumps(q), "GET", r, dt, {"query": q})
                chk.case(("lu", km, im, mu), True)
                if r.status == 200 and r.xml() is not None:
                    x = r.xml()
                    page = [(u.findtext("Key"), u.findtext("UploadId")) for u in x.findall("Upload")]
                    luterms.append((km, int(mu), page, x.findtext("IsTruncated") == "true", x.findtext("NextKeyMarker") or "", x.findtext("NextUploadIdMarker") or "", im, True))
        # ---- grammar-based malformed requests
        eps = c02.endpoints(uid)
        eps.append(("SelectObjectContent", "POST", "/bk1/obj", {"select": "", "select-type": "2"},
                    b"<SelectObjectContentRequest><Expression>select * from s3object</Expression><ExpressionType>SQL</ExpressionType></SelectObjectContentRequest>", {}))
        with_schema = [e for e in eps if e[0] in SCHEMAS or e[0] == "PutBucket?policy"]
        for name, method, path, query, body, headers in with_schema:
            if name not in SCHEMAS:
                continue
            for doc in partial_docs(*SCHEMAS[name]):
                d = doc.encode()
                t0 = time.time(); r = cl.req(method, path, query=query, body=d, headers=headers, timeout=15); dt = time.time() - t0
                chk.case((name, d), True); chk.count("partialdoc:%s:%dxx" % (method, r.status // 100 if r.status > 0 else 0))
                after("%s body %s" % (name, d.decode()[:300]), method, r, dt, {"method": method, "path": path, "query": query, "body": d.decode()})
            for doc in path_docs(*SCHEMAS[name]):
                for extra in (b"", body[body.find(b">") + 1:body.rfind(b"<")] if body.count(b"<") > 2 else b""):
                    d = doc.encode()
                    if extra:
                        # the same element next to the endpoint's valid content
                        cut = d.find(b">") + 1 if not d.endswith(b"/>") or d.count(b"<") > 1 else None
                        if cut is None or d[:cut].endswith(b"/>"):
                            continue
                        d = d[:cut] + extra + d[cut:]
                    t0 = time.time(); r = cl.req(method, path, query=query, body=d, headers=headers, timeout=15); dt = time.time() - t0
                    label = "%s body %s" % (name, d.decode()[:300])
                    chk.case((name, d), True); chk.count("bodytree:%s:%dxx" % (method, r.status // 100 if r.status > 0 else 0))
                    after(label, method, r, dt, {"method": method, "path": path, "query": query, "body": d.decode()})
        for i in range(n_fuzz):
            name, method, path, query, body, headers = rnd.choice(with_schema) if rnd.random() < 0.25 else rnd.choice(eps)
            query, headers = dict(query), dict(headers)
            muts = []
            tamper = None
            for _ in range(rnd.choice([1, 1, 2, 3])):
                kind = rnd.random()
                if kind < 0.15:
                    what, tamper = auth_tamper(rnd); muts.append("auth " + what)
                elif kind < 0.30 and (name in SCHEMAS or name == "PutBucket?policy"):
                    if name == "PutBucket?policy":
                        body = json.dumps(gen_json(rnd)).encode()
                    else:
                        body = gen_xml(rnd, *SCHEMAS[name]).encode()
                    muts.append("generated body %r" % body[:300])
                elif kind < 0.50:
                    k = rnd.choice(QUERY_KEYS + list(query.keys())) if rnd.random() < 0.8 else rnd.choice(NASTY[10:20])
                    v = rnd.choice(NASTY); query[k] = v; muts.append("query %s=%r" % (k, v[:20]))
                elif kind < 0.75:
                    k = rnd.choice(HEADER_KEYS); v = rnd.choice(NASTY)
                    v = "".join(ch for ch in v if ch not in "\r\n\x00") or "x"
                    headers[k] = v.encode("utf-8", "replace").decode("latin1") if any(ord(c) > 255 for c in v) else v
                    muts.append("header %s=%r" % (k, v[:20]))
                elif kind < 0.92:
                    body = rnd.choice(BODIES); muts.append("body %r" % body[:20])
                else:
                    path = path + rnd.choice(["/", "//", "/%00", "/" + "k" * 300, "/" + "d/" * 600, "%", "/\xff"]); muts.append("path " + path[-12:])
            label = "%s %s" % (name, "; ".join(muts))
            unauth = rnd.random() < 0.1
            t0 = time.time()
            try:
                if rnd.random() < 0.06 and method == "PUT":
                    bad_stream = rnd.choice([b"-5\r\nabc\r\n0\r\n\r\n", b"ffffffffffffffff\r\nabc", b"5;chunk-signature=zz\r\nhello\r\n0;chunk-signature=zz\r\n\r\n", b"zz\r\n", b"0\r\n", b""])
                    hd = dict(headers); hd.update({"x-amz-decoded-content-length": rnd.choice(["5", "-1", "99999999999999", "x", "0"]), "content-encoding": "aws-chunked",
                                                   "x-amz-trailer": "x-amz-checksum-crc32"})
                    r, _ = cl.req_streaming(method, path, lambda *a: bad_stream, query=query, headers=hd,
                                            payload_type=rnd.choice(["STREAMING-UNSIGNED-PAYLOAD-TRAILER", "STREAMING-AWS4-HMAC-SHA256-PAYLOAD", "STREAMING-AWS4-HMAC-SHA256-PAYLOAD-TRAILER"]))
                    label += "; malformed chunk stream %r" % bad_stream[:16]
                else:
                    r = cl.req(method, path, query=query, body=body, headers=headers, sign=not unauth, timeout=15, tamper=None if unauth else tamper)
            except Exception as e:
                chk.count("client-refused")
                continue
            dt = time.time() - t0
            chk.case((name, tuple(muts)), True)
            chk.count("fuzz:%s:%dxx" % (method, r.status // 100 if r.status > 0 else 0))
            after(label, method, r, dt, {"method": method, "path": path, "query": query, "headers": {k: v[:60] for k, v in headers.items()}, "body": repr(body[:80])})
            if i % 50 == 49:
                p = cl.req("GET", "/")
                if p.status != 200:
                    chk.fail("c20:probe-failed", "after %s the gateway no longer answers ListBuckets (%d)" % (label, p.status), {"request": label})
        # ---- requests that carry a body in the API grammar, sent with neither Content-Length nor Transfer-Encoding (no body stream)
        for name, method, path, query in (("PutObject", "PUT", "/bk1/nolen-obj", {}), ("PutObject-dir", "PUT", "/bk1/nolen-dir/", {}), ("UploadPart", "PUT", "/bk1/mp", {"partNumber": "1", "uploadId": uid}),
                                          ("PutBucketTagging", "PUT", "/bk1", {"tagging": ""}), ("PutObjectTagging", "PUT", "/bk1/obj1", {"tagging": ""}), ("DeleteObjects", "POST", "/bk1", {"delete": ""}),
                                          ("CompleteMultipartUpload", "POST", "/bk1/mp", {"uploadId": uid}), ("PutBucketPolicy", "PUT", "/bk1", {"policy": ""}), ("CreateBucket", "PUT", "/nolen-bucket", {})):
            for ph in ("UNSIGNED-PAYLOAD", None, "STREAMING-UNSIGNED-PAYLOAD-TRAILER"):
                t0 = time.time()
                try:
                    r = cl.req(method, path, query=query, body=b"", payload_hash=ph, content_length=False, timeout=15)
                except Exception:
                    chk.count("client-refused"); continue
                chk.case(("no-length", name, ph), True); chk.count("nolength:%s:%dxx" % (name, r.status // 100 if r.status > 0 else 0))
                after("%s without Content-Length and Transfer-Encoding (payload hash %s)" % (name, ph or "of the empty body"), method, r, time.time() - t0,
                      {"method": method, "path": path, "query": query, "payload_hash": ph, "content_length_header": "absent"})
        # ---- a bucket the gateway did not create (a directory that was already in its root: no owner, no ACL recorded), reached with
        # header-signed, presigned and unsigned requests by root and by a user
        os.makedirs(os.path.join(site.root, "prebkt", "sub"), exist_ok=True)
        open(os.path.join(site.root, "prebkt", "file"), "wb").write(b"pre-existing")
        import urllib.request as _ur
        cl.req("PATCH", "/create-user", body=b"<Account><Access>alice20</Access><Secret>alice20-secret</Secret><Role>user</Role><UserID>0</UserID><GroupID>0</GroupID></Account>")
        for who, secret in (("root", "rootsecret"), ("alice20", "alice20-secret"), ("root", "wrong")):
            c3 = s3c.Client(g.port, who, secret)
            for method, path, q in (("GET", "/prebkt", {}), ("GET", "/prebkt", {"list-type": "2"}), ("GET", "/prebkt/file", {}), ("HEAD", "/prebkt/file", {}), ("PUT", "/prebkt/new-%s" % who, {}),
                                    ("GET", "/prebkt", {"acl": ""}), ("GET", "/prebkt", {"policy": ""}), ("DELETE", "/prebkt/new-%s" % who, {}), ("GET", "/prebkt/sub/", {})):
                for style in ("header", "presigned"):
                    t0 = time.time()
                    try:
                        if style == "header":
                            r = c3.req(method, path, query=q, body=b"x" if method == "PUT" else b"", timeout=15)
                        else:
                            url, hd_ = c3.presign(method, path, query=q, expires=120)
                            r = c3.raw(method, url, {"Host": hd_["host"]}, b"x" if method == "PUT" else b"", timeout=15)
                    except Exception as e:
                        chk.count("client-refused"); continue
                    chk.case(("unowned-bucket", who, secret == "wrong", method, path, tuple(q), style), True); chk.count("unowned-bucket:%s:%dxx" % (style, r.status // 100 if r.status > 0 else 0))
                    after("%s %s%s (%s, %s%s) on a bucket without a recorded owner" % (method, path, "?" + "&".join(q) if q else "", style, who, " with a wrong secret" if secret == "wrong" else ""), method, r, time.time() - t0,
                          {"method": method, "path": path, "query": q, "style": style, "caller": who})
        # ---- aws-chunked uploads whose chunk headers declare sizes at and beyond the integer boundaries (valid request signature; the
        # size is parsed before the chunk's own signature can be looked at)
        for ptype in ("STREAMING-AWS4-HMAC-SHA256-PAYLOAD", "STREAMING-UNSIGNED-PAYLOAD-TRAILER", "STREAMING-AWS4-HMAC-SHA256-PAYLOAD-TRAILER"):
            for sz in ("ffffffffffffffff", "8000000000000000", "7fffffffffffffff", "ffffffff", "80000000", "100000000", "-1", "-8000000000000000", "0x10", "1" + "0" * 40, "", " 4", "4 ", "+4", "00000000000000000004"):
                for target, q in (("/bk1/chunk-size", {}), ("/bk1/mp", {"partNumber": "3", "uploadId": uid})):
                    hd = {"x-amz-decoded-content-length": "4", "content-encoding": "aws-chunked"}
                    if "TRAILER" in ptype: hd["x-amz-trailer"] = "x-amz-checksum-crc32"
                    def mk(sig, k, amzdate, d8, region, sz=sz, ptype=ptype):
                        if "UNSIGNED" in ptype:
                            return ("%s\r\n" % sz).encode() + b"data\r\n0\r\nx-amz-checksum-crc32:AAAAAA==\r\n\r\n"
                        return ("%s;chunk-signature=%s\r\n" % (sz, "0" * 64)).encode() + b"data\r\n" + ("0;chunk-signature=%s\r\n\r\n" % ("0" * 64)).encode()
                    t0 = time.time()
                    try: r, _ = cl.req_streaming("PUT", target, mk, query=q, headers=hd, payload_type=ptype, timeout=15)
                    except Exception: chk.count("client-refused"); continue
                    chk.case(("chunk-size", ptype, sz, bool(q)), True); chk.count("chunksize:%dxx" % (r.status // 100 if r.status > 0 else 0))
                    after("aws-chunked %s with a chunk header declaring the size %r (%s)" % ("UploadPart" if q else "PutObject", sz, ptype), "PUT", r, time.time() - t0, {"payload_type": ptype, "declared_chunk_size": sz, "path": target})
        # ---- the same kinds of requests with the access log switched on (the logger runs on every response, also on those refused
        # before authentication)
        g_main, cl_main, log_main, seen_main = g, cl, logpath, panics_seen
        g = site.gateway(gwbin, global_args=["--access-log", os.path.join(site.base, "access.log")])
        cl = s3c.Client(g.port, "root", "rootsecret"); logpath = os.path.join(site.base, "gw-%d.log" % g.port); panics_seen = 0
        early = [("GET", "/%zz"), ("GET", "/bk1/%zz"), ("PUT", "/bk1/%"), ("GET", "/%00"), ("GET", "/bk1/a%2"), ("DELETE", "/bk1/obj%ZZ"), ("GET", "/bk1/../../x"),
                 ("GET", "/" + "b" * 300), ("HEAD", "/%zz"), ("POST", "/bk1/%zz?uploads"), ("GET", "/bk1/obj?versionId=../x"), ("GET", "/bk1?max-keys=x")]
        # request targets that are no path (asterisk form, a bare word): the loggers take bucket and object from the path
        early += [("GET", "*"), ("OPTIONS", "*"), ("PUT", "*"), ("GET", "bk1"), ("DELETE", "bk1/obj"), ("GET", "http://127.0.0.1/bk1")]
        # (a bare-word target signed for either reading of its canonical path)
        for method, raw, signed_as in (("GET", "bk1", "/bk1"), ("GET", "bk1", "bk1"), ("PUT", "bk1/obj-bare", "/bk1/obj-bare"), ("GET", "bk1/obj", "bk1/obj"), ("DELETE", "bk1", "/bk1")):
            t0 = time.time()
            try: r = cl.req(method, signed_as, raw_path=raw, body=b"x" if method == "PUT" else b"")
            except Exception: chk.count("client-refused"); continue
            chk.case(("bare-target", method, raw, signed_as), True); chk.count("bare-target:%dxx" % (r.status // 100 if r.status > 0 else 0))
            after("%s with the request target %r (signed for the canonical path %r)" % (method, raw, signed_as), method, r, time.time() - t0, {"method": method, "raw_target": raw, "signed_as": signed_as})
        for method, raw in early:
            for signed in (True, False):
                t0 = time.time()
                try:
                    r = cl.raw(method, raw, {"Host": "127.0.0.1:%d" % g.port}) if not signed else cl.req(method, urllib.parse.unquote(raw.split("?")[0], errors="replace") if "%zz" not in raw.lower() and not raw.endswith("%") and "%2" != raw[-2:] else "/bk1/x", raw_path=raw.split("?")[0])
                except Exception:
                    chk.count("client-refused"); continue
                dt = time.time() - t0
                chk.case(("access-log", method, raw, signed), True); chk.count("accesslog:%s:%dxx" % (method, r.status // 100 if r.status > 0 else 0))
                after("access-log on: %s %s (%s)" % (method, raw, "signed" if signed else "no credentials"), method, r, dt, {"method": method, "raw_path": raw, "signed": signed, "access_log": True})
        # short paths whose escaped form is several times longer (blanks, multi-byte characters, reserved punctuation), with and without
        # valid credentials: the canonical-request code sizes buffers from them
        for n_ in (3, 12, 20, 22, 30, 63):
            for ch_ in (" ", "\u65e5", "+", "%25", "\u00fc", "~", "'"):
                for secret in ("rootsecret", "wrong"):
                    c2 = s3c.Client(g.port, "root", secret); key_ = ch_ * n_
                    t0 = time.time()
                    try: r = c2.req("GET", "/bk1/" + key_)
                    except Exception: chk.count("client-refused"); continue
                    chk.case(("escape-growth", n_, ch_, secret), True)
                    after("GET key of %d x %r (%s secret)" % (n_, ch_, "right" if secret == "rootsecret" else "wrong"), "GET", r, time.time() - t0, {"key": key_, "secret": secret})
        for i in range(150 if quick else 1500):
            name, method, path, query, body, headers = rnd.choice(eps)
            query, headers = dict(query), dict(headers)
            k = rnd.choice(QUERY_KEYS + list(query.keys())); query[k] = rnd.choice(NASTY)
            t0 = time.time()
            try:
                r = cl.req(method, path, query=query, body=body, headers=headers, sign=rnd.random() < 0.8, timeout=15)
            except Exception:
                chk.count("client-refused"); continue
            chk.case(("access-log-fuzz", name, k, query[k]), True)
            after("access-log on: %s query %s=%r" % (name, k, query[k][:20]), method, r, time.time() - t0, {"method": method, "path": path, "query": query, "access_log": True})
        chk.tie("gateway with the access log still running", g.alive(), g.log_tail())
        # ---- the debug logger switched on (it formats every header name and value of every request into a fixed-width box)
        g = site.gateway(gwbin, global_args=["--debug"], mem_limit=6 << 30)
        cl = s3c.Client(g.port, "root", "rootsecret"); logpath = os.path.join(site.base, "gw-%d.log" % g.port); panics_seen = 0
        for n_ in sorted(set(list(range(96, 126)) + [1, 13, 14, 64, 200, 1000])):
            for vlen in (0, 5, 300):
                hname = "x-" + "a" * (n_ - 2) if n_ > 2 else "x" * n_
                t0 = time.time()
                try: r = cl.req("GET", "/bk1", query={"max-keys": "1"}, headers={hname: "v" * vlen}, sign=vlen != 5, timeout=15)
                except Exception: chk.count("client-refused"); continue
                chk.case(("debug-log", n_, vlen), True); chk.count("debuglog:%dxx" % (r.status // 100 if r.status > 0 else 0))
                after("debug log on: GET with a header name of %d bytes and a value of %d" % (n_, vlen), "GET", r, time.time() - t0, {"header_name_length": n_, "value_length": vlen, "debug": True})
        for i in range(60 if quick else 600):
            name, method, path, query, body, headers = rnd.choice(eps)
            query, headers = dict(query), dict(headers)
            headers[rnd.choice(["x-amz-meta-" + "k" * rnd.choice([1, 90, 101, 102, 103, 120]), "content-type", "x-amz-acl"])] = rnd.choice(NASTY)[:2000].replace("\n", " ").replace("\r", " ")
            t0 = time.time()
            try: r = cl.req(method, path, query=query, body=body, headers=headers, sign=rnd.random() < 0.8, timeout=15)
            except Exception: chk.count("client-refused"); continue
            chk.case(("debug-log-fuzz", name, tuple(sorted(headers))), True)
            after("debug log on: %s with headers %s" % (name, sorted(headers)[:3]), method, r, time.time() - t0, {"method": method, "path": path, "debug": True})
        chk.tie("gateway with the debug logger still running", g.alive(), g.log_tail(400))
        g.stop(kill=True)
        try: os.truncate(logpath, 0)
        except OSError: pass
        # ---- event notifications configured but the receiver is down / slow: ordinary requests must not take the process with them
        import socket as _so, threading as _th
        class Receiver:
            """answers 200 with a body while mode == 'ok'; 'hang': accepts and never answers; 'down': stops listening"""
            def __init__(self):
                self.sk = _so.socket(); self.sk.setsockopt(_so.SOL_SOCKET, _so.SO_REUSEADDR, 1); self.sk.bind(("127.0.0.1", 0)); self.sk.listen(64)
                self.port = self.sk.getsockname()[1]; self.mode = "ok"; self.keep = []
                _th.Thread(target=self.loop, daemon=True).start()
            def loop(self):
                while True:
                    try: c, _ = self.sk.accept()
                    except OSError: return
                    if self.mode == "hang": self.keep.append(c); continue
                    try:
                        c.settimeout(2); c.recv(65536); c.sendall(b"HTTP/1.1 200 OK\r\nContent-Length: 2\r\nConnection: close\r\n\r\nok"); c.close()
                    except OSError: pass
            def down(self):
                self.mode = "down"
                try: self.sk.close()
                except OSError: pass
        for what in ("the receiver went away", "the receiver stopped answering"):
            rcv = Receiver()
            url = "http://127.0.0.1:%d/hook" % rcv.port
            g = site.gateway(gwbin, global_args=["--event-webhook-url", url])
            cl = s3c.Client(g.port, "root", "rootsecret"); logpath = os.path.join(site.base, "gw-%d.log" % g.port); panics_seen = 0
            cl.req("PUT", "/bk1/ev-warm", body=b"x"); time.sleep(0.3)
            if what == "the receiver went away": rcv.down()
            else: rcv.mode = "hang"
            for j in range(6):
                t0 = time.time(); r = cl.req("PUT", "/bk1/ev-%d" % j, body=b"x"); dt = time.time() - t0
                chk.case(("webhook-down", what, j), True)
                after("event webhook configured, %s: PutObject" % what, "PUT", r, dt, {"webhook": url})
                t0 = time.time(); r = cl.req("DELETE", "/bk1/ev-%d" % j); dt = time.time() - t0
                after("event webhook configured, %s: DeleteObject" % what, "DELETE", r, dt, {"webhook": url})
            time.sleep(4.0)          # (the sender's own timeout is 3 s: what it does then happens in the background)
            t0 = time.time(); r = cl.req("GET", "/"); dt = time.time() - t0
            after("event webhook configured, %s: ListBuckets a few seconds later" % what, "GET", r, dt, {"webhook": url})
            chk.tie("gateway whose event receiver is unreachable (%s) still running" % what, g.alive(), g.log_tail())
            g.stop(); rcv.down()
        g, cl, logpath, panics_seen = g_main, cl_main, log_main, seen_main
        try:
            rss = int(re.search(r"VmHWM:\s+(\d+)", open("/proc/%d/status" % g.proc.pid).read()).group(1))
            chk.extra["gateway_peak_rss_kb"] = rss
            if rss > 1500000:
                chk.fail("c20:memory", "the gateway's peak RSS reached %d kB during the malformed requests" % rss, {"rss_kb": rss})
        except Exception:
            pass
        chk.tie("gateway still running", g.alive(), g.log_tail())
        upl_sorted = sorted(ups, key=lambda u: u[0])      # stable by key; ids within a key in directory (= readdir, sorted) order
        by_key = {}
        for k, u in ups: by_key.setdefault(k, []).append(u)
        upl_sorted = [(k, u) for k in sorted(by_key) for u in sorted(by_key[k])]
    chk.extra["explanation"] = ("proof for the modelled paging loops and parsers (no panic outcome reachable, page bounds); everything else in the request "
                                "path is explored: %d malformed requests with liveness / latency / well-formedness / recovered-panic probes. Sites that "
                                "can panic outside the modelled functions are not proved absent." % chk.evaluations)
    if not built:
        return
    for km, mu, page, tr, nk, ni, im, found in luterms:
        lumeta.append({"key_marker": km, "upload_id_marker": im, "max_uploads": mu, "page": page, "truncated": tr})
    text = ("From Coq Require Import String List ZArith Bool.\nFrom VGW Require Import Base.GoStr Model.Paging Check.Common Check.PagingCheck.\n"
            "Import ListNotations.\nOpen Scope string_scope.\n")
    text += "Definition lbcases : list lbcase :=\n " + coq_list(lbterms).replace("; {| lb_fis", ";\n {| lb_fis") + ".\n"
    pair = lambda p: "(%s, %s)" % (coq_str(p[0]), coq_str(p[1]))
    text += "Definition ups : list (string * string) := " + coq_list([pair(u) for u in upl_sorted]) + ".\n"
    text += "Definition lucases : list lucase :=\n " + coq_list([
        "{| lu_sorted := ups; lu_km := %s; lu_im := %s; lu_found := %s; lu_max := %d; lu_obs := (%s, %s, (%s, %s)) |}" % (
            coq_str(km), coq_str(im), coq_bool(found), mu, coq_list([pair(p) for p in page]), coq_bool(tr), coq_str(nk), coq_str(ni)) for km, mu, page, tr, nk, ni, im, found in luterms]) + ".\n"
    text += ("Definition MLB := Eval vm_compute in bad lb_ok lbcases.\nPrint MLB.\nDefinition MLU := Eval vm_compute in bad lu_ok lucases.\nPrint MLU.\n")
    rc, out = coq.run_cases("C20_cases", text)
    mlb, mlu = coq.printed_list(out, "MLB"), coq.printed_list(out, "MLU")
    if rc != 0 or mlb is None or mlu is None:
        chk.tie("case file evaluates", False, out[-3000:])
        return
    chk.tie("T3 ListBuckets paging of the real gateway = Model.Paging.list_buckets on %d requests" % len(lbterms), not mlb, [lbmeta[int(i)] for i in mlb[:5]])
    chk.tie("T3 ListMultipartUploads paging of the real gateway = Model.Paging.list_uploads on %d requests" % len(luterms), not mlu, [lumeta[int(i)] for i in mlu[:5]])


def replay(chk, data):
    print(json.dumps(data.get("replay"), indent=1, default=str))
    return 0
