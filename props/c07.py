"""C07 — Listings are complete, ordered, correctly grouped and paginate without loss (DESIGN.md §7 C07)."""
import subprocess, json, os, time
from vlib import common, coq, gobuild
from vlib.common import coq_str, coq_bool, coq_list

THEOREMS = ["C07_page_bound", "C07_unpaginated_complete", "C07_unpaginated_refines_partial", "C07_paginated_refines", "C07_pagination_complete", "C07_delimited_refines", "C07_delimited_pagination_complete", "C07_folder_refines", "C07_folder_refines_bucket", "C07_folder_pagination_complete", "C07_bookkeeping_prefix_empty", "C07_invalid_prefix_refines", "C07_invalid_prefix_names_no_key", "C07_order_refuted",
            "C07_pagination_cycle_refuted", "C07_keyless_directory_refuted"]
TARGETS = ["Properties/C07.vo", "Check/WalkCheck.vo", "Model/ListApi.vo"]
SEGS = ["a", "b", "a-", "a.x", "ab", "c", ".sgwtmp", "a!", "d", "b b", "A", ".sgwtmp_old"]


class Node:
    def __init__(self, isdir, obj):
        self.isdir, self.obj, self.kids = isdir, obj, {}

    def coq(self):
        if not self.isdir:
            return "F %s" % coq_bool(self.obj)
        return "D %s %s" % (coq_bool(self.obj), coq_list(["(%s, %s)" % (coq_str(n), self.kids[n].coq()) for n in sorted(self.kids)]))

    def entries(self, path=""):
        out = []
        for n in sorted(self.kids):
            k = self.kids[n]
            p = path + n
            if k.isdir:
                out.append((p, "d" if k.obj else "e"))
                out += k.entries(p + "/")
            else:
                out.append((p, "f" if k.obj else "s"))
        return out

    def keys_walk_order(self, path="", top=True):
        out = []
        for n in sorted(self.kids):
            if top and n == ".sgwtmp":
                continue
            k = self.kids[n]
            p = path + n
            if k.isdir:
                if k.obj:
                    out.append(p + "/")
                out += k.keys_walk_order(p + "/", False)
            elif k.obj:
                out.append(p)
        return out


def tree_from_keys(keys, extra_empty_dirs=(), skipped_files=()):
    root = Node(True, False)
    def place(key, leaf_kind):
        parts = key.rstrip("/").split("/")
        cur = root
        for i, seg in enumerate(parts):
            last = i == len(parts) - 1
            nxt = cur.kids.get(seg)
            if last:
                if leaf_kind == "dirobj":
                    if nxt is None:
                        cur.kids[seg] = Node(True, True)
                    elif nxt.isdir:
                        nxt.obj = True
                    else:
                        return False
                elif leaf_kind == "emptydir":
                    if nxt is None:
                        cur.kids[seg] = Node(True, False)
                else:
                    if nxt is None:
                        cur.kids[seg] = Node(False, leaf_kind == "file")
                    else:
                        return False
            else:
                if nxt is None:
                    nxt = cur.kids[seg] = Node(True, False)
                elif not nxt.isdir:
                    return False
                cur = nxt
        return True
    for k in keys:
        place(k, "dirobj" if k.endswith("/") else "file")
    for k in extra_empty_dirs:
        place(k, "emptydir")
    for k in skipped_files:
        place(k, "skip")
    return root


def gen_keys(rnd, compat):
    segs = [s for s in SEGS if compat is False or s not in ("a-", "a.x", "a!", "b b", ".sgwtmp")] if compat else SEGS
    n = rnd.choice([1, 2, 3, 4, 5, 6, 8])
    keys = []
    for _ in range(n):
        d = rnd.choice([1, 1, 2, 2, 3])
        k = "/".join(rnd.choice(segs) for _ in range(d))
        if rnd.random() < 0.15:
            k += "/"
        keys.append(k)
    return keys


def gen_params(rnd, keys):
    prefix = rnd.choice(["", "", "a", "a/", "a/b", "b/", "a-", "a/b/", "x", "c/a", "ab", "d/"])
    if keys and rnd.random() < 0.7:
        k = rnd.choice(keys)
        r = rnd.randrange(4)
        if r == 0: prefix = ""
        elif r == 1: prefix = k[:rnd.randrange(len(k) + 1)]
        elif r == 2: prefix = k[:k.rfind("/") + 1]
        else: prefix = k[:k.find("/") + 1] if "/" in k else k[:1]
    if rnd.random() < 0.07:
        # a prefix whose directory part is no path: the prefix of no key (the listing is empty, not an error)
        prefix = rnd.choice(["a//b", "../x", "a/./b", "a/../a/", "./", "a//", "//", "a/b/../", "../", "a/../../x"])
    delim = rnd.choice(["", "", "/", "/", "/", "-", "ab", ".", "a"])
    marker = ""
    r = rnd.randrange(6)
    if keys and r in (0, 1):
        marker = rnd.choice(keys)
    elif keys and r == 2:
        k = rnd.choice(keys); marker = k[:rnd.randrange(len(k) + 1)]
    elif keys and r == 3:
        k = rnd.choice(keys); marker = k + rnd.choice(["0", "-", "/", " "])
    mx = rnd.choice([0, 1, 1, 2, 2, 3, 5, 1000, 1000])
    return prefix, delim, marker, mx


def parse_page(p):
    if p == "ERR" or p == "PANIC":
        return None
    o, c, t, n = p.split(";")
    dec = lambda s: [bytes.fromhex(x).decode("latin1") for x in s.split(",")] if s else []
    return {"objs": dec(o), "cps": dec(c), "trunc": t == "true", "next": bytes.fromhex(n).decode("latin1")}


def coq_result(r):
    if r is None:
        return "None"
    return "(Some {| r_objs := %s; r_cps := %s; r_trunc := %s; r_next := %s |})" % (
        coq_list([coq_str(x) for x in r["objs"]]), coq_list([coq_str(x) for x in r["cps"]]), coq_bool(r["trunc"]), coq_str(r["next"]))


CORPUS = [
    (["a/b", "a-", "ab"], "", "", "", 1),
    (["dir/file", "dir.txt", "e"], "", "", "", 1),
    (["x/.sgwtmp/hidden", "y/a", "y/.sgwtmp", "y/z"], "", "", "", 1000),
    (["b/a/ab", "b/a/b"], "b/", "/", "b/a/ab", 1000),
    (["d/", "d/x", "e"], "", "", "", 1),
    (["d/", "e"], "", "", "", 1),
    (["a/", "a/b", "c"], "a/b", "", "", 1000),
    (["a/", "a/b"], "a/", "/", "", 1000),
    (["b/a/x", "b/a-"], "b/", "/", "b/a-", 1000),
    ([".sgwtmp/x", "a"], "", "", "", 1000),
    # a prefix that leads through a file (the file system answers "not a directory"): nothing is listed, no error
    (["a/b", "c"], "a/b/", "", "", 1000),
    (["a/b", "c"], "a/b/c/d", "/", "", 1000),
    (["top", "a/b"], "top/", "/", "", 10),
    # names that merely begin like the bookkeeping directory are ordinary keys
    ([".sgwtmp_old/report", ".sgwtmp2/x", "a"], ".sgwtmp_old/", "", "", 1000),
    ([".sgwtmp_old/sub/r", ".sgwtmp_old/t"], ".sgwtmp_old/sub/", "/", "", 1000),
    ([".sgwtmp2/x", ".sgwtmp2/y"], ".sgwtmp2/x", "", "", 1),
]


def run(chk):
    quick = chk.tier == "quick"
    n_trees = 700 if quick else 6000
    chk.rule = ("a case is (tree built from generated keys incl. directory objects, empty directories, skipped files and names that "
                "sort before '/', prefix, delimiter, marker, max) — one Walk page, plus for every tree a marker-following "
                "pagination from the start; plus put/delete histories on the real gateway (plain and versioned: delete, delete by version id, markers) after which "
                "neither the listing nor the bucket directory may hold anything but the remaining keys; non-trivial when the page is non-empty or truncated; distinct by content.")
    corr = gobuild.build_tool("corr")
    built = coq.ensure_built(chk, TARGETS)
    if built:
        coq.check_assumptions(chk, "Properties.C07", THEOREMS)
    rnd = chk.rnd
    hx = lambda s: s.encode("latin1").hex()

    cases = []      # (keys, tree, prefix, delim, marker, max, maxpages, kind)
    for keys, pre, dl, mk, mx in CORPUS:
        t = tree_from_keys(keys)
        cases.append((keys, t, pre, dl, mk, mx, 1, "page"))
        cases.append((keys, t, pre, dl, "", max(mx, 1) if mx != 1000 else 2, 2 * len(keys) + 6, "pages"))
    while len(cases) < 2 * n_trees:
        compat = rnd.random() < 0.6
        keys = gen_keys(rnd, compat)
        empties = [rnd.choice(["e1", "a/e2", "b/e3"])] if rnd.random() < 0.15 else []
        skips = [rnd.choice(["s1", "a/s2"])] if rnd.random() < 0.1 else []
        t = tree_from_keys(keys, empties, skips)
        pre, dl, mk, mx = gen_params(rnd, t.keys_walk_order())
        cases.append((keys, t, pre, dl, mk, mx, 1, "page"))
        pmx = rnd.choice([1, 1, 2, 3])
        ppre, pdl = (pre, dl) if rnd.random() < 0.5 else ("", rnd.choice(["", "/"]))
        cases.append((keys, t, ppre, pdl, "", pmx, 2 * len(t.keys_walk_order()) + 6, "pages"))
    lines = []
    for keys, t, pre, dl, mk, mx, mp, kind in cases:
        ents = ",".join("%s:%s" % (hx(p), k) for p, k in t.entries())
        lines.append("\t".join([ents, hx(pre), hx(dl), hx(mk), str(mx), str(mp)]))
    p = subprocess.run([corr, "walk"], input=("\n".join(lines) + "\n").encode(), stdout=subprocess.PIPE, timeout=300, env=common.env())
    outs = p.stdout.decode().split("\n")[:len(cases)]

    wterms, wmeta, pterms, pmeta = [], [], [], []
    treedefs, treeidx = [], {}
    def tref(t):
        c = t.coq()
        if c not in treeidx:
            treeidx[c] = len(treedefs)
            treedefs.append("Definition t%d : tree := %s." % (len(treedefs), c))
        return "t%d" % treeidx[c]
    for (keys, t, pre, dl, mk, mx, mp, kind), o in zip(cases, outs):
        if o == "PANIC":
            chk.fail("c07:panic", "backend.Walk panics", {"keys": keys, "prefix": pre, "delimiter": dl, "marker": mk, "max": mx})
            continue
        pages = [parse_page(x) for x in o.split("|")]
        wo = t.keys_walk_order()
        compat = wo == sorted(wo)
        marker = mk
        for pg in pages:
            wterms.append("{| w_tree := %s; w_prefix := %s; w_delim := %s; w_marker := %s; w_max := %d; w_obs := %s |}" % (
                tref(t), coq_str(pre), coq_str(dl), coq_str(marker), mx, coq_result(pg)))
            wmeta.append({"keys": wo, "entries": t.entries(), "prefix": pre, "delimiter": dl, "marker": marker, "max": mx, "observed": pg,
                          "order_compatible": compat})
            nt = pg is not None and (pg["objs"] or pg["cps"] or pg["trunc"])
            chk.case(("w", tuple(t.entries()), pre, dl, marker, mx), bool(nt))
            chk.count("page:%s:%s:%s" % ("compat" if compat else "incompat", "delim" if dl else "nodelim",
                                         "empty" if not nt else "trunc" if pg["trunc"] else "full"))
            if pg is None:
                break
            marker = pg["next"]
        if kind == "pages":
            finished = pages[-1] is not None and not pages[-1]["trunc"]
            pterms.append("{| p_tree := %s; p_prefix := %s; p_delim := %s; p_max := %d; p_pages := %s; p_finished := %s |}" % (
                tref(t), coq_str(pre), coq_str(dl), mx,
                coq_list([coq_result(x)[6:-1] for x in pages if x is not None]), coq_bool(finished)))
            pmeta.append({"keys": wo, "entries": t.entries(), "prefix": pre, "delimiter": dl, "max": mx, "pages": pages, "finished": finished,
                          "order_compatible": compat})
            chk.count("pagination:%s:%s" % ("compat" if compat else "incompat", "finished" if finished else "did-not-terminate"))
    chk.samples.append(wmeta[len(CORPUS) * 3 + 2])
    chk.samples.append({k: v for k, v in pmeta[len(CORPUS) + 2].items()})

    lterms, lmeta = run_http(chk, built, tref, treedefs)
    if not built:
        return
    text = ("From Coq Require Import String List Bool.\nFrom VGW Require Import Base.GoStr Model.Walk Model.ListApi Spec.ListSpec "
            "Check.Common Check.WalkCheck.\nImport ListNotations.\nOpen Scope string_scope.\n")
    text += "\n".join(treedefs) + "\n"
    text += "Definition wcases : list wcase :=\n " + coq_list(wterms).replace("; {| w_tree", ";\n {| w_tree") + ".\n"
    text += "Definition pcases : list pcase :=\n " + coq_list(pterms).replace("; {| p_tree", ";\n {| p_tree") + ".\n"
    text += "Definition lcases : list lcase :=\n " + coq_list(lterms).replace("; {| l_tree", ";\n {| l_tree") + ".\n"
    text += "Definition ML := Eval vm_compute in bad list_ok lcases.\nPrint ML.\n"
    text += "Definition VL := Eval vm_compute in bad list_spec_ok lcases.\nPrint VL.\n"
    text += ("Definition MW := Eval vm_compute in bad walk_ok wcases.\nPrint MW.\n"
             "Definition VW := Eval vm_compute in bad page_spec_ok wcases.\nPrint VW.\n"
             "Definition VP := Eval vm_compute in bad pages_spec_ok pcases.\nPrint VP.\n")
    rc, out = coq.run_cases("C07_cases", text)
    mw, vw, vp = coq.printed_list(out, "MW"), coq.printed_list(out, "VW"), coq.printed_list(out, "VP")
    ml = coq.printed_list(out, "ML")
    if rc != 0 or mw is None or vw is None or vp is None or ml is None:
        chk.tie("case file evaluates", False, out[-3000:])
        return
    chk.tie("T3 ListObjects / ListObjectsV2 of the real gateway = Model.ListApi over Model.Walk on %d requests" % len(lterms), not ml,
            [lmeta[int(i)] for i in ml[:4]])
    chk.tie("T2 backend.Walk = Model.Walk.walk on %d pages of %d (tree, parameters) cases" % (len(wterms), len(cases)), not mw,
            [wmeta[int(i)] for i in mw[:4]])

    def keyless_dir(entries):
        """a directory with no key beneath it and that is not itself an object (empty, or holding only skipped files)"""
        kinds = dict(entries)
        for p, k in entries:
            if k == "e" and not (p.split("/")[0] == ".sgwtmp"):
                below = [q for q, kk in entries if q.startswith(p + "/") and kk in ("f", "d")]
                if not below:
                    return True
        return False

    def nonempty_dirobj(entries):
        return any(k == "d" and any(q.startswith(p + "/") for q, _ in entries) for p, k in entries)

    def classify(m):
        if not m["order_compatible"]:
            return "c07:order-incompatible-tree"
        dl = m["delimiter"]
        if dl and keyless_dir(m["entries"]):
            return "c07:keyless-directory-with-delimiter"
        if dl and nonempty_dirobj(m["entries"]):
            return "c07:nonempty-directory-object-with-delimiter"
        return "c07:listing-differs" + (":delim=%s" % dl if dl else "")
    for i in vw:
        m = wmeta[int(i)]
        chk.fail(classify(m), "Walk page differs from the S3 listing rule: keys %s prefix %r delimiter %r marker %r max %d -> %s" % (
            m["keys"], m["prefix"], m["delimiter"], m["marker"], m["max"], m["observed"]), m)
    for i in coq.printed_list(out, "VL") or []:
        m = lmeta[int(i)]
        t_entries = m["entries"]
        mm = {"order_compatible": m["bucket_keys"] == sorted(m["bucket_keys"]), "delimiter": m["delimiter"], "entries": t_entries}
        chk.fail(classify(mm), "ListObjects%s of the gateway differs from the S3 listing rule: %s" % ("V2" if m["v2"] else "", m), m)
    for i in vp:
        m = pmeta[int(i)]
        key = classify(m)
        chk.fail(key, "following the markers %s: keys %s prefix %r delimiter %r max %d" % (
            "loses or repeats entries" if m["finished"] else "does not terminate", m["keys"], m["prefix"], m["delimiter"], m["max"]), m)


def blob(n, salt):
    return bytes((i * 7 + salt * 31 + 1) % 251 for i in range(n))


def run_http(chk, built, tref, treedefs):
    """T3: real gateway, real directory tree: PUT the keys, then ListObjects V1/V2."""
    import hashlib, os
    from vlib import gw, s3c
    quick = chk.tier == "quick"
    n_buckets = 40 if quick else 300
    rnd = chk.rnd
    gwbin = gobuild.build_gateway("verif")
    lterms, lmeta = [], []
    with gw.Site({"iam": False}, name="c07") as site:
        g = site.gateway(gwbin)
        cl = s3c.Client(g.port, "root", "rootsecret")
        for b in range(n_buckets):
            bucket = "bk%03d" % b
            assert cl.req("PUT", "/" + bucket).status == 200
            keys = CORPUS[b][0] if b < len(CORPUS) else gen_keys(rnd, rnd.random() < 0.6)
            keys = [k for k in keys if ".sgwtmp" not in k.split("/")[:1]]
            stored, sizes = [], {}
            for i, k in enumerate(keys):
                body = b"" if k.endswith("/") else blob(rnd.choice([0, 1, 5, 100, 3000]), i)
                r = cl.req("PUT", "/%s/%s" % (bucket, k), body=body)
                if r.status == 200:
                    if k in stored:
                        stored.remove(k)
                    stored.append(k)
                    sizes[k] = (len(body), hashlib.md5(body).hexdigest())
            t = tree_from_keys(stored)
            t.kids[".sgwtmp"] = Node(True, False)
            wo = t.keys_walk_order()
            if sorted(wo) != sorted(set(stored)):
                chk.tie("T3 keys acknowledged by PUT are the keys of the model tree", False, {"stored": stored, "tree": wo})
                continue
            for _ in range(8):
                pre, dl, mk, mx = gen_params(rnd, wo) if b >= len(CORPUS) else (CORPUS[b][1], CORPUS[b][2], CORPUS[b][3], CORPUS[b][4])
                v2 = rnd.random() < 0.6
                sa = ""
                if v2 and rnd.random() < 0.4:
                    sa = rnd.choice(wo) if wo and rnd.random() < 0.7 else "a"
                mxs = str(mx)
                r = rnd.random()
                if r < 0.06: mxs = ""
                elif r < 0.14: mxs = rnd.choice(["-1", "abc", "1001", "2147483648", "+3", "1.5", "00", "99999999999999999999"])
                q = {"prefix": pre, "delimiter": dl, "max-keys": mxs}
                if v2:
                    q.update({"list-type": "2", "continuation-token": mk, "start-after": sa})
                else:
                    q["marker"] = mk
                q = {k: v for k, v in q.items() if v != "" or rnd.random() < 0.3}
                if v2: q["list-type"] = "2"
                resp = cl.req("GET", "/" + bucket, query=q)
                meta = {"bucket_keys": wo, "entries": t.entries(), "v2": v2, "prefix": pre, "delimiter": dl, "marker_or_token": mk, "start_after": sa,
                        "max_keys": mxs, "status": resp.status, "code": resp.code}
                if resp.status == 200:
                    x = resp.xml()
                    objs = [(c.findtext("Key"), int(c.findtext("Size")), c.findtext("ETag")) for c in x.findall("Contents")]
                    cps = [c.findtext("Prefix") for c in x.findall("CommonPrefixes")]
                    trunc = x.findtext("IsTruncated") == "true"
                    nxt = (x.findtext("NextContinuationToken") if v2 else x.findtext("NextMarker")) or ""
                    obs = "(LOk {| r_objs := %s; r_cps := %s; r_trunc := %s; r_next := %s |})" % (
                        coq_list([coq_str(k) for k, _, _ in objs]), coq_list([coq_str(c) for c in cps]), coq_bool(trunc), coq_str(nxt))
                    meta.update({"objects": [k for k, _, _ in objs], "common_prefixes": cps, "truncated": trunc, "next": nxt})
                    for k, sz, et in objs:
                        if k in sizes and (sz, (et or '').strip('"')) != sizes[k]:   # ETag quoting is not compared (directory objects are unquoted everywhere)
                            chk.fail("c07:size-etag", "listing reports size %d etag %s for key %r uploaded with %s" % (sz, et, k, sizes[k]), meta)
                elif resp.status == 400 and resp.code in ("InvalidArgument", "InvalidMaxKeys"):
                    obs = "LBadMax"
                elif resp.status == 500:
                    obs = "LErr"
                else:
                    obs = "LErr"
                    chk.fail("c07:list-status-%d" % resp.status, "ListObjects answered %d %s" % (resp.status, resp.code), meta)
                lterms.append("{| l_tree := %s; l_v2 := %s; l_prefix := %s; l_delim := %s; l_marker := %s; l_start_after := %s; "
                              "l_maxkeys := %s; l_obs := %s |}" % (tref(t), coq_bool(v2), coq_str(pre), coq_str(dl), coq_str(mk), coq_str(sa),
                                                                   coq_str(mxs), obs))
                lmeta.append(meta)
                chk.case(("l", bucket, tuple(sorted(q.items()))), resp.status == 200 and bool(meta.get("objects") or meta.get("common_prefixes")))
                chk.count("http-list:%s:%s" % ("v2" if v2 else "v1", resp.status))
                chk.traces += 1
        chk.tie("gateway still running after the listing requests", g.alive(), g.log_tail())
    # ---- keys that were deleted again must not leave anything a listing can see (the gateway removes the directories it made)
    for label, cfg in (("plain", {"iam": False}), ("versioned", {"iam": False, "versioning": True})):
        with gw.Site(cfg, name="c07d") as site:
            g = site.gateway(gwbin)
            cl = s3c.Client(g.port, "root", "rootsecret")
            for hidx in range(6 if quick else 40):
                bucket = "del%03d" % hidx
                assert cl.req("PUT", "/" + bucket).status == 200
                venabled = label == "versioned" and hidx % 3 != 2
                if venabled:
                    cl.req("PUT", "/" + bucket, query={"versioning": ""}, body=b"<VersioningConfiguration><Status>Enabled</Status></VersioningConfiguration>")
                keys = rnd.sample(["docs/2024/q1/report.txt", "docs/2024/q2.txt", "docs/readme", "a/b/c/d/e", "a/b/x", "top", "dir/", "dir/sub/", "z/y/"], rnd.randrange(3, 8))
                if hidx == 0:
                    # (fixed) explicit directory objects that become empty again: they are keys and stay listed
                    keys = ["photos/", "photos/a.jpg", "x/y/", "x/y/z/file", "top"]
                if hidx % 2 == 0:
                    # a key in the gateway's bookkeeping namespace: refused, or listed like any other acknowledged key
                    keys.insert(rnd.randrange(len(keys) + 1), rnd.choice([".sgwtmp/x", ".sgwtmp/multipart/y", ".sgwtmp/"]))
                hist, vids = [], {}
                for k in keys:
                    for _ in range(rnd.choice([1, 1, 2])):
                        r = cl.req("PUT", "/%s/%s" % (bucket, k), body=b"" if k.endswith("/") else b"x" * rnd.randrange(1, 50))
                        if r.status == 200: vids.setdefault(k, []).append(r.headers.get("x-amz-version-id"))
                        hist.append("put %s -> %d" % (k, r.status))
                # uploads the gateway refuses (a digest that does not match, a body shorter than declared) into prefixes that do not exist yet
                for k in rnd.sample(["ghost/a/b", "docs/ghost/x", "gh/o/s/t", "top-ghost"], 2):
                    how = rnd.choice(["md5", "crc32", "short"])
                    if how == "md5": r = cl.req("PUT", "/%s/%s" % (bucket, k), body=b"refused", headers={"Content-MD5": "AAAAAAAAAAAAAAAAAAAAAA=="})
                    elif how == "crc32": r = cl.req("PUT", "/%s/%s" % (bucket, k), body=b"refused", headers={"x-amz-checksum-crc32": "AAAAAA=="})
                    else: r = cl.req("PUT", "/%s/%s" % (bucket, k), body=b"refused-and-short", send_body=b"refu", content_length=17, timeout=3)
                    hist.append("refused put (%s) %s -> %d" % (how, k, r.status))
                    if r.status == 200: vids.setdefault(k, []).append(r.headers.get("x-amz-version-id"))
                gone = rnd.sample(sorted(vids), rnd.randrange(1, len(vids) + 1))
                if hidx == 0: gone = [k for k in ("photos/a.jpg", "x/y/z/file") if k in vids]
                for k in gone:
                    how = rnd.choice(["by-version", "marker-then-versions", "versions-then-plain"]) if venabled else "plain"
                    if how == "plain":
                        hist.append("delete %s -> %d" % (k, cl.req("DELETE", "/%s/%s" % (bucket, k)).status))
                    else:
                        if how == "marker-then-versions":
                            r = cl.req("DELETE", "/%s/%s" % (bucket, k)); hist.append("delete %s -> %d (marker %s)" % (k, r.status, r.headers.get("x-amz-version-id")))
                        for _ in range(3):
                            lv = cl.req("GET", "/" + bucket, query={"versions": "", "prefix": k})
                            ents = [x for x in list(lv.xml().findall("Version")) + list(lv.xml().findall("DeleteMarker")) if x.findtext("Key") == k] if lv.status == 200 and lv.xml() is not None else []
                            for x in (ents if how != "by-version" else list(reversed(ents))):
                                r = cl.req("DELETE", "/%s/%s" % (bucket, k), query={"versionId": x.findtext("VersionId")})
                                hist.append("delete %s version %s -> %d" % (k, x.findtext("VersionId"), r.status))
                            if not ents: break
                        if how == "versions-then-plain":
                            hist.append("delete %s -> %d" % (k, cl.req("DELETE", "/%s/%s" % (bucket, k)).status))
                left = [k for k in vids if k not in gone]
                ls = cl.req("GET", "/" + bucket, query={"list-type": "2"})
                listed = sorted(c.findtext("Key") for c in ls.xml().findall("Contents")) if ls.status == 200 and ls.xml() is not None else None
                ld = cl.req("GET", "/" + bucket, query={"list-type": "2", "delimiter": "/"})
                cps = sorted(c.findtext("Prefix") for c in ld.xml().findall("CommonPrefixes")) if ld.status == 200 and ld.xml() is not None else None
                want_cps = sorted({k.split("/")[0] + "/" for k in left if "/" in k})
                onfs = []
                for _attempt in range(5):
                  # (an upload whose client went away is cleaned up by its handler a moment after the next request was answered)
                  onfs = []
                  for dp, dn, fn in os.walk(os.path.join(site.root, bucket)):
                      rel = os.path.relpath(dp, os.path.join(site.root, bucket))
                      if rel == "." or rel.split(os.sep)[0] == ".sgwtmp": continue
                      if not any(True for _d, _dn, f2 in os.walk(dp) if f2) and not any((rel + "/") == k or k.startswith(rel + "/") for k in left):
                          onfs.append(rel + "/")
                  if not onfs: break
                  time.sleep(0.4)
                meta = {"config": label, "versioning_enabled": venabled, "history": hist, "remaining_keys": sorted(left), "listed": listed, "common_prefixes": cps,
                        "directories_without_keys": sorted(onfs)}
                chk.case(("putdel", label, tuple(hist)), True); chk.traces += 1
                chk.count("putdel:%s:%s" % (label, "clean" if not onfs and cps == want_cps else "residue"))
                if listed != sorted(left):
                    chk.fail("c07:listing-after-deletes", "[%s] after %s the listing shows %r, the keys that remain are %r" % (label, "; ".join(hist[-6:]), listed, sorted(left)), meta)
                elif cps != want_cps or onfs:
                    chk.fail("c07:gateway-left-keyless-directory:%s" % label, "[%s] after its own deletes the gateway leaves directories that hold no key (%s); the delimited listing shows common prefixes %r, the remaining keys have %r"
                             % (label, sorted(onfs), cps, want_cps), meta)
            chk.tie("gateway still running after the put/delete histories (%s)" % label, g.alive(), g.log_tail())
    # ---- an upload in flight: a listing taken while a PUT is parked between naming its temporary file and the rename shows the keys
    # that were acknowledged and nothing else (no bookkeeping name, not the unfinished key unless it existed)
    from vlib import hooks
    for label, cfg in (("otmpfile", {"iam": False}), ("named-temp", {"iam": False, "otmp": False})):
        with gw.Site(cfg, name="c07h") as site:
            hk = hooks.Hooks(site.base)
            g = site.gateway(gwbin, extra_env=hk.env())
            A, B = s3c.Client(g.port, "root", "rootsecret"), s3c.Client(g.port, "root", "rootsecret")
            assert A.req("PUT", "/inflight").status == 200
            for k in ("top", "dir/kept", "dir/sub/kept2"):
                A.req("PUT", "/inflight/" + k, body=b"x")
            for at in ("posix.putobject.bodywritten", "posix.putobject.beforelink", "posix.link.enter", "posix.link.named", "posix.link.beforerename"):
                for target, before in (("dir/new-object", ["dir/kept", "dir/sub/kept2", "top"]), ("newtop", ["dir/kept", "dir/sub/kept2", "top"]), ("dir/kept", ["dir/kept", "dir/sub/kept2", "top"])):
                    def lists():
                        out = []
                        for q in ({"list-type": "2"}, {"list-type": "2", "prefix": "dir/", "delimiter": "/"}, {}):
                            r = B.req("GET", "/inflight", query=q)
                            out.append((q, sorted(c.findtext("Key") for c in r.xml().findall("Contents")) if r.status == 200 and r.xml() is not None else None))
                        return out
                    w, ls, parked = hooks.held(hk, at, lambda: A.req("PUT", "/inflight/" + target, body=b"in-flight"), lists)
                    hk.clear()
                    chk.case(("inflight", label, at, target), True); chk.traces += 1
                    if not parked or ls is None:
                        chk.count("inflight:not-reached"); A.req("DELETE", "/inflight/" + target) if target not in before else None; continue
                    for q, keys in ls:
                        allowed = set(before) | {target}
                        want_min = [k for k in before if not q.get("prefix") or (k.startswith(q["prefix"]) and "/" not in k[len(q["prefix"]):])]
                        stray = [k for k in (keys or []) if k not in allowed]
                        missing = [k for k in want_min if k not in (keys or [])]
                        if keys is None or stray or missing:
                            chk.fail("c07:listing-during-upload", "[%s] a listing %s taken while PUT %s is parked at %s shows %r (stray %r, missing %r)" % (label, q, target, at, keys, stray, missing),
                                     {"config": label, "parked_at": at, "put": target, "query": q, "keys": keys, "stray": stray, "missing": missing})
                            break
                    if target not in before: A.req("DELETE", "/inflight/" + target)
            # a multipart upload with staged parts: no prefix makes its bookkeeping files appear in a listing
            r0 = A.req("POST", "/inflight/dir/big", query={"uploads": ""}); uid = r0.xml().findtext("UploadId") if r0.status == 200 and r0.xml() is not None else ""
            A.req("PUT", "/inflight/dir/big", query={"partNumber": "1", "uploadId": uid}, body=b"staged-part-data")
            staged = []
            for dp, dn, fn in os.walk(os.path.join(site.root, "inflight", ".sgwtmp")):
                staged += [os.path.relpath(os.path.join(dp, x), os.path.join(site.root, "inflight")) for x in fn + dn]
            pres = sorted({".sgwtmp/", ".sgwtmp/multipart/", ".sgwtmp/m"} | {os.path.dirname(x) + "/" for x in staged} | set(staged))
            for pre in pres:
                for q in ({"prefix": pre}, {"list-type": "2", "prefix": pre}, {"list-type": "2", "prefix": pre, "delimiter": "/"}, {"versions": "", "prefix": pre}):
                    r = B.req("GET", "/inflight", query=q)
                    x = r.xml() if r.status == 200 else None
                    names = None if x is None else sorted([c.findtext("Key") for c in x.findall("Contents")] + [c.findtext("Prefix") for c in x.findall("CommonPrefixes")] +
                                                          [c.findtext("Key") for c in x.findall("Version")])
                    chk.case(("bookkeeping-prefix", label, pre, tuple(sorted(q))), True); chk.traces += 1
                    chk.count("bookkeeping-prefix:%s" % ("empty" if names == [] else "status-%d" % r.status if names is None else "listed"))
                    if names is None or names:
                        chk.fail("c07:bookkeeping-names-listed", "[%s] with a part of an upload staged, the listing %s shows %r: internal bookkeeping names" % (label, q, names),
                                 {"config": label, "query": q, "listed": names, "staged_files": staged[:6]})
                        break
            A.req("DELETE", "/inflight/dir/big", query={"uploadId": uid})
            chk.tie("gateway still running after the in-flight listings (%s)" % label, g.alive(), g.log_tail())
    chk.samples.append(lmeta[len(lmeta) // 2])
    return lterms, lmeta


def replay(chk, data):
    print(json.dumps(data.get("replay"), indent=1))
    return 0
