"""C15 — Read-only mode admits no mutation (DESIGN.md §7 C15)."""
import json, os
from vlib import common, coq, gobuild, gen, gw, s3c, e2e
from props import c02

THEOREMS = ["C15_readonly_denies_writes", "C15_readonly_denies_copy", "C15_routes"]
TARGETS = ["Properties/C15.vo"]
READS = {"ListBuckets", "HeadBucket", "ListObjects", "ListObjectsV2", "HeadObject", "GetObject", "GetObject-range", "ListParts"}


def run(chk):
    chk.rule = ("a case is (endpoint, caller role) on a gateway started with --readonly over a pre-populated root: every route and "
                "subresource of the S3 API (the C02 endpoint list: bucket and object PUT/POST/DELETE incl. copy, multipart, tagging, ACL, "
                "policy, versioning, lock, trailing-slash shapes) x {root, admin, userplus owner, user with FULL_CONTROL}; each request is "
                "followed by a byte-exact snapshot comparison; read endpoints must keep answering. Non-trivial for every mutating endpoint; "
                "distinct by (endpoint, role).")
    gen.regenerate()
    gwbin = gobuild.build_gateway("verif")
    built = coq.ensure_built(chk, TARGETS)
    if built:
        coq.check_assumptions(chk, "Properties.C15", THEOREMS)
    rows = []
    with gw.Site({"iam": True, "versioning": True}, name="c15") as site:
        # populate with a normal gateway, then restart read-only on the same directories
        g = site.gateway(gwbin)
        cl, uid, ok = c02.prepare(site, g)
        for acc, role in (("adm", "admin"), ("own", "userplus"), ("usr", "user")):
            ok &= cl.req("PATCH", "/create-user", body=("<Account><Access>%s</Access><Secret>%s-secret</Secret><Role>%s</Role><UserID>0</UserID><GroupID>0</GroupID></Account>" % (acc, acc, role)).encode()).status in (200, 201)
        ok &= cl.req("DELETE", "/bk1", query={"policy": ""}).status in (200, 204)
        ok &= cl.req("PUT", "/bk1", query={"ownershipControls": ""}, body=c02.OWNERSHIP).status in (200, 204)
        ok &= cl.req("PUT", "/bk1", query={"acl": ""}, headers={"x-amz-grant-full-control": "usr,own"}).status in (200, 204)
        ok &= cl.req("PUT", "/bk2", query={"ownershipControls": ""}, body=c02.OWNERSHIP).status in (200, 204)
        ok &= cl.req("PUT", "/bk2", query={"acl": ""}, headers={"x-amz-grant-full-control": "usr,own"}).status in (200, 204)
        ok &= cl.req("PUT", "/bk1/obj", query={"tagging": ""}, body=c02.TAGGING).status in (200, 204)
        vid1 = cl.req("HEAD", "/bk1/obj").headers.get("x-amz-version-id", "null")
        chk.require(ok, "c15:setup", "populating the site with a read-write gateway failed")
        # request forms of the mutating endpoints that take a path of their own through the handlers
        more = [("DeleteObject?versionId", "DELETE", "/bk1/obj", {"versionId": vid1}, b"", {}),
                ("DeleteObject?versionId=null", "DELETE", "/bk2/other", {"versionId": "null"}, b"", {}),
                ("DeleteObjects(version)", "POST", "/bk1", {"delete": ""}, ("<Delete><Object><Key>obj</Key><VersionId>%s</VersionId></Object></Delete>" % vid1).encode(), {}),
                ("PutObjectTagging(empty TagSet)", "PUT", "/bk1/obj", {"tagging": ""}, b"<Tagging><TagSet></TagSet></Tagging>", {}),
                ("PutObjectTagging(<TagSet/>)", "PUT", "/bk1/obj", {"tagging": ""}, b"<Tagging><TagSet/></Tagging>", {}),
                ("PutBucketTagging(empty TagSet)", "PUT", "/bk1", {"tagging": ""}, b"<Tagging><TagSet></TagSet></Tagging>", {}),
                ("PutObject(empty, no length)", "PUT", "/bk1/obj", {}, b"", {}),
                ("CopyObject(onto itself, REPLACE)", "PUT", "/bk1/obj", {}, b"", {"x-amz-copy-source": "bk1/obj", "x-amz-metadata-directive": "REPLACE", "x-amz-meta-n": "v"}),
                ("PutObjectLegalHold(OFF)", "PUT", "/bk1/obj", {"legal-hold": ""}, b"<LegalHold><Status>OFF</Status></LegalHold>", {}),
                ("PutBucketVersioning(Suspended)", "PUT", "/bk1", {"versioning": ""}, b"<VersioningConfiguration><Status>Suspended</Status></VersioningConfiguration>", {})]
        g.stop()
        site.cfg["readonly"] = True
        g = site.gateway(gwbin)
        roots = (site.root, site.verdir)
        callers = {"root": s3c.Client(g.port, "root", "rootsecret"), "admin": s3c.Client(g.port, "adm", "adm-secret"),
                   "userplus": s3c.Client(g.port, "own", "own-secret"), "user+FULL_CONTROL": s3c.Client(g.port, "usr", "usr-secret")}
        before = e2e.snapshot(*roots)
        for ep in c02.endpoints(uid) + more:
            if ep[0].startswith("admin:"):
                continue          # the admin API is not the S3 API (DESIGN §9.7)
            for role, c in callers.items():
                r = c02.send(c, ep, "none", g.port)
                after = e2e.snapshot(*roots)
                ch = e2e.snap_diff(before, after)
                row = {"endpoint": ep[0], "method": ep[1], "path": ep[2], "query": ep[3], "caller": role, "status": r.status, "code": r.code, "changed": ch}
                rows.append(row)
                mutating = ep[0] not in READS and not ep[0].startswith("Get")
                chk.case((ep[0], role), mutating)
                chk.count("%s:%s" % ("mutating" if mutating else "read", r.status))
                chk.traces += 1
                if ch:
                    chk.fail("c15:mutation-in-readonly:%s:%s" % (ep[0], role), "%s %s by %s on a --readonly gateway answered %d and changed the storage: %s" % (
                        ep[1], ep[2], role, r.status, ch[:3]), row)
                    before = after
                elif mutating and 200 <= r.status < 300:
                    chk.fail("c15:mutation-acknowledged-in-readonly:%s:%s" % (ep[0], role), "%s by %s is acknowledged with %d on a --readonly gateway" % (ep[0], role, r.status), row)
                elif not mutating and role in ("root", "admin") and r.status in (403,):
                    chk.fail("c15:read-refused-in-readonly:%s:%s" % (ep[0], role), "read %s by %s is refused (%d %s) in read-only mode" % (ep[0], role, r.status, r.code), row)
        chk.tie("gateway still running", g.alive(), g.log_tail())
    chk.samples.extend(rows[40:43])


def replay(chk, data):
    print(json.dumps(data.get("replay"), indent=1, default=str))
    return 0
