"""C09 — Version history is preserved exactly in versioned buckets (DESIGN.md §7 C09)."""
import hashlib, json, os, random, shutil, urllib.parse
from vlib import common, coq, gobuild, gw, s3c, e2e, hooks
from vlib.common import coq_list

THEOREMS = ["C09_new_ids_are_fresh", "C09_handed_out_ids_distinct", "C09_reachable_states_satisfy_inv", "C09_ids_unique_per_key",
            "C09_versions_stay_until_deleted_by_id", "C09_delete_adds_marker_and_hides_key", "C09_deleting_newest_reexposes_previous",
            "C09_listing_is_exact", "C09_listing_shape", "C09_listing_one_group_per_key"]
TARGETS = ["Properties/C09.vo", "Check/VersionsCheck.vo"]
KEYS = ["doc", "dir/file b", "ü-key", "a/b/c/deep", "y/.sgwtmp", "y/z", "x/.sgwtmp/h"]      # (the last three: names of the bookkeeping directory below the top level are ordinary keys)
METAS = [({}, {}), ({"content-type": "text/x-c09"}, {"who": "me"}), ({"content-type": "application/json", "cache-control": "no-cache"}, {"a": "1", "b": "two words"})]
ERR = {1: "NoSuchKey", 2: "NoSuchVersion", 3: "MethodNotAllowed"}
ERRMAP = {"NoSuchKey": "NoSuchKey", "NoSuchVersion": "NoSuchVersion", "InvalidVersionId": "NoSuchVersion", "InvalidArgument": "NoSuchVersion", "MethodNotAllowed": "MethodNotAllowed"}
VCFG = "<VersioningConfiguration><Status>%s</Status></VersioningConfiguration>"


def blob(i):
    return random.Random(1000 + i).randbytes(20 + (i * 37) % 900)


def cvid(i):
    return "None" if i is None else "(Some %d)" % i


class Shadow:
    """the harness's own bookkeeping, used to generate meaningful requests (existing ids, sweeps)"""
    def __init__(self):
        self.status, self.stacks = "Off", {}
    def ids(self, k):
        return [v for v, _m in self.stacks.get(k, [])]


# fixed programs that run before the random ones: (operation, key index or status)
SCRIPTS = [
    # the oldest entry of a key is a null delete marker (written while versioning was suspended, over an object that predates versioning)
    [("put", 0), ("status", "Enabled"), ("status", "Suspended"), ("delete", 0), ("status", "Enabled"), ("put", 0), ("put", 0), ("list",), ("put", 1), ("delete", 1), ("list",)],
    # a null version under versions with ids, a delete marker on top, removed again by id
    [("put", 0), ("status", "Enabled"), ("put", 0), ("put", 0), ("delete", 0), ("list",), ("delete-current", 0), ("list",), ("status", "Suspended"), ("put", 0), ("list",)],
    # the null version is newer than a version with an id (a suspension in the middle): removing the current version re-exposes it
    [("status", "Enabled"), ("put", 0), ("status", "Suspended"), ("put", 0), ("status", "Enabled"), ("put", 0), ("list",), ("delete-current", 0), ("get", 0), ("list",),
     ("delete-current", 0), ("get", 0), ("list",)],
    # a key copied onto itself with new metadata is a new version; the version it came from keeps its metadata (read by id in the sweep)
    [("status", "Enabled"), ("put", 0), ("self-copy", 0), ("list",), ("self-copy", 0), ("status", "Suspended"), ("self-copy", 0), ("list",)],
    # keys with an element named like the bookkeeping directory, deeper than the top level
    [("status", "Enabled"), ("put", 4), ("put", 5), ("put", 6), ("put", 0), ("list",), ("delete", 5), ("put", 4), ("list",), ("delete-current", 4), ("list",)],
]


def history(chk, cl, bk, rnd, n_ops, idmap, interrupt=None, script=None):
    ops, obs, text = [], [], []
    sh = Shadow()
    path = lambda k: "/%s/%s" % (bk, k)
    blobs = {}            # md5 -> index
    nblob = [0]
    maxid = [""]

    def viol(kind, what, extra=None):
        chk.fail("c09:%s" % kind, what + " [history: %s]" % "; ".join(text[-10:]), {"bucket": bk, "history": list(text), "detail": extra})

    def vnum(s, new=False):
        """observed version id string -> model number (None = null, -2 = an id never handed out)"""
        if s in (None, ""): return "absent"
        if s == "null": return None
        if s not in idmap:
            if not new: return -2
            if s <= maxid[0]:
                viol("id-not-increasing", "new version id %s does not sort after the earlier id %s" % (s, maxid[0]))
            maxid[0] = max(maxid[0], s)
            idmap[s] = len(idmap)
        elif new:
            viol("id-reused", "version id %s was handed out twice" % s)
        return idmap[s]

    def vstr(i):
        if i is None: return "null"
        for s, n in idmap.items():
            if n == i: return s
        return "01ARZ3NDEKTSV4RRFFQ69G5FAV"

    def record(c, t, o):
        ops.append(c); text.append(t + " -> " + str(o)); obs.append(o)

    def set_status(st):
        r = cl.req("PUT", "/" + bk, query={"versioning": ""}, body=(VCFG % st).encode())
        chk.require(r.status == 200, "c09:setup", "PutBucketVersioning %s failed: %d %s" % (st, r.status, r.code))
        sh.status = st
        record("SetStatus %s" % st, "versioning " + st, ("ok",))

    def new_id():
        n = len(idmap)
        return n

    force_how = [None]

    def do_put(k):
        bi = nblob[0]; nblob[0] += 1; body = blob(bi); blobs[hashlib.md5(body).hexdigest()] = bi
        m = rnd.randrange(len(METAS)); hd = dict(METAS[m][0]); hd.update({"x-amz-meta-" + a: b for a, b in METAS[m][1].items()})
        how = force_how[0] or rnd.choice(["plain", "plain", "plain", "copy", "multipart", "copy-version", "part-copy-version", "self-copy-replace"])
        srcs = [(k2, i) for k2 in KEYS if k2 != k for i, mk_ in sh.stacks.get(k2, []) if not mk_]
        if how == "self-copy-replace" and not (sh.stacks.get(k) and not sh.stacks[k][0][1]):
            how = "plain"         # (nothing to copy onto itself: the key is absent or reads as deleted)
        if how == "self-copy-replace":
            # the key copied onto itself with new metadata (x-amz-metadata-directive: REPLACE): a write like any other - in a versioned
            # bucket a new version with the same bytes; the version it was made from keeps its own metadata
            nblob[0] -= 1
            r1 = cl.req("GET", path(k)); o1 = obj_obs(r1)
            if o1[0] == "obj" and o1[3] == "absent": o1 = o1[:3] + (None,)
            record("Get %d" % KEYS.index(k), "get %s" % k, o1)
            if o1[0] != "obj" or o1[1] < 0:
                return
            bi = o1[1]
            hd2 = dict(hd); hd2.update({"x-amz-copy-source": urllib.parse.quote("%s/%s" % (bk, k)), "x-amz-metadata-directive": "REPLACE"})
            r = cl.req("PUT", path(k), headers=hd2)
            if r.status != 200 or (r.xml() is not None and r.xml().tag == "Error"):
                viol("write-failed", "%s write of %r answered %d %s" % (how, k, r.status, r.code)); return
            v = vnum(r.headers.get("x-amz-version-id"), new=(sh.status == "Enabled"))
            record("Put %d %d %d" % (KEYS.index(k), bi, m), "%s put %s blob#%d" % (how, k, bi), ("put", v))
            st = sh.stacks.setdefault(k, [])
            if sh.status == "Off": sh.stacks[k] = [(None, False)]
            elif sh.status == "Enabled": st.insert(0, (v if isinstance(v, int) else -9, False))
            else: sh.stacks[k] = [(None, False)] + [e for e in st if e[0] is not None]
            chk.count("put:%s:%s" % (how, sh.status))
            return
        if how.endswith("-version") and (not srcs or sh.status == "Off"):
            how = "plain"         # (no version ids before versioning was ever enabled)
        if how.endswith("-version"):
            # the new content is one stored version of ANOTHER key, named by its version id in the copy source; which blob that is
            # comes from reading that version first (a recorded step of its own, compared with the model like every other)
            k2, i2 = rnd.choice(srcs)
            nblob[0] -= 1
            r1 = cl.req("GET", path(k2), query={"versionId": vstr(i2)}); o1 = obj_obs(r1)
            record("GetVersion %d %s" % (KEYS.index(k2), cvid(i2)), "get %s version %s" % (k2, "null" if i2 is None else "#%d" % i2), o1)
            if o1[0] != "obj" or o1[1] < 0:
                return
            bi = o1[1]; body = blob(bi); blobs[e2e.multipart_etag([body])] = bi
            src = urllib.parse.quote("%s/%s" % (bk, k2)) + "?versionId=" + vstr(i2)
            if how == "copy-version":
                hd2 = dict(hd); hd2.update({"x-amz-copy-source": src, "x-amz-metadata-directive": "REPLACE"})
                r = cl.req("PUT", path(k), headers=hd2)
            else:
                r0 = cl.req("POST", path(k), query={"uploads": ""}, headers=hd); r = r0
                if r0.status == 200:
                    uid = r0.xml().findtext("UploadId")
                    rp = cl.req("PUT", path(k), query={"partNumber": "1", "uploadId": uid}, headers={"x-amz-copy-source": src})
                    et = rp.xml().findtext("ETag") if rp.status == 200 and rp.xml() is not None and rp.xml().tag != "Error" else ""
                    r = cl.req("POST", path(k), query={"uploadId": uid}, body=("<CompleteMultipartUpload><Part><PartNumber>1</PartNumber><ETag>%s</ETag></Part></CompleteMultipartUpload>" % et).encode())
        elif how == "plain":
            r = cl.req("PUT", path(k), body=body, headers=hd)
        elif how == "copy":
            r0 = cl.req("PUT", "/%s-src/s%d" % (bk, bi), body=body, headers=hd)
            r = cl.req("PUT", path(k), headers={"x-amz-copy-source": "%s-src/s%d" % (bk, bi)}) if r0.status == 200 else r0
        else:
            # multipart ETags differ from the MD5 of the body: the blob is recognised by its multipart ETag too
            blobs[e2e.multipart_etag([body])] = bi
            r0 = cl.req("POST", path(k), query={"uploads": ""}, headers=hd)
            r = r0
            if r0.status == 200:
                uid = r0.xml().findtext("UploadId")
                rp = cl.req("PUT", path(k), query={"partNumber": "1", "uploadId": uid}, body=body)
                r = cl.req("POST", path(k), query={"uploadId": uid}, body=("<CompleteMultipartUpload><Part><PartNumber>1</PartNumber><ETag>%s</ETag></Part></CompleteMultipartUpload>" % rp.headers.get("etag", "")).encode())
        if r.status != 200 or (r.xml() is not None and r.xml().tag == "Error"):
            viol("write-failed", "%s write of %r answered %d %s" % (how, k, r.status, r.code)); return
        v = vnum(r.headers.get("x-amz-version-id"), new=(sh.status == "Enabled"))
        o = ("put", v)
        record("Put %d %d %d" % (KEYS.index(k), bi, m), "%s put %s blob#%d" % (how, k, bi), o)
        st = sh.stacks.setdefault(k, [])
        if sh.status == "Off": sh.stacks[k] = [(None, False)]
        elif sh.status == "Enabled": st.insert(0, (v if isinstance(v, int) else -9, False))
        else: sh.stacks[k] = [(None, False)] + [e for e in st if e[0] is not None]
        chk.count("put:%s:%s" % (how, sh.status))

    def do_failed_write(k):
        """a write the gateway must refuse (digest mismatch): the version history must not change; not an operation of the model"""
        import base64, zlib
        body = blob(9000 + len(text)); how = rnd.choice(["content-md5", "crc32", "multipart-crc32", "copy-of-deleted-key", "part-copy-of-deleted-key"])
        if how.endswith("copy-of-deleted-key"):
            # a copy whose source key currently reads as missing (its newest entry is a delete marker) has nothing to copy
            gone = [k2 for k2 in KEYS if k2 != k and sh.stacks.get(k2) and sh.stacks[k2][0][1]]
            if not gone:
                how = "content-md5"
            else:
                k2 = rnd.choice(gone); src = urllib.parse.quote("%s/%s" % (bk, k2))
                if how == "copy-of-deleted-key":
                    r = cl.req("PUT", path(k), headers={"x-amz-copy-source": src})
                else:
                    r0 = cl.req("POST", path(k), query={"uploads": ""})
                    if r0.status != 200: return
                    uid = r0.xml().findtext("UploadId")
                    r = cl.req("PUT", path(k), query={"partNumber": "1", "uploadId": uid}, headers={"x-amz-copy-source": src})
                    cl.req("DELETE", path(k), query={"uploadId": uid})
                ok_ = r.status == 200 and not (r.xml() is not None and r.xml().tag == "Error")
                if text: text[-1] += " ; then a %s of the deleted key %s into %s (%d %s)" % (how, k2, k, r.status, r.code)
                chk.count("failed-write:%s:%d" % (how, r.status))
                if ok_:
                    viol("deleted-key-copied", "%s from %r, whose newest entry is a delete marker (GET answers 404), is acknowledged%s" % (
                        "CopyObject" if how == "copy-of-deleted-key" else "UploadPartCopy", k2, " and creates a version of %r" % k if how == "copy-of-deleted-key" else ""))
                    if how == "copy-of-deleted-key":      # keep the shadow in step with what the gateway now holds
                        v = vnum(r.headers.get("x-amz-version-id"), new=(sh.status == "Enabled"))
                        st = sh.stacks.setdefault(k, [])
                        if sh.status == "Enabled": st.insert(0, (v if isinstance(v, int) else -9, False))
                        else: sh.stacks[k] = [(None, False)] + [e for e in st if e[0] is not None]
                return
        if how == "content-md5":
            r = cl.req("PUT", path(k), body=body, headers={"content-md5": base64.b64encode(hashlib.md5(b"other").digest()).decode()})
        elif how == "crc32":
            r = cl.req("PUT", path(k), body=body, headers={"x-amz-checksum-crc32": base64.b64encode((zlib.crc32(b"other") & 0xffffffff).to_bytes(4, "big")).decode()})
        else:
            crc = lambda b: base64.b64encode((zlib.crc32(b) & 0xffffffff).to_bytes(4, "big")).decode()
            r0 = cl.req("POST", path(k), query={"uploads": ""}, headers={"x-amz-checksum-algorithm": "CRC32", "x-amz-checksum-type": "FULL_OBJECT"})
            if r0.status != 200: return
            uid = r0.xml().findtext("UploadId")
            rp = cl.req("PUT", path(k), query={"partNumber": "1", "uploadId": uid}, body=body, headers={"x-amz-checksum-crc32": crc(body)})
            r = cl.req("POST", path(k), query={"uploadId": uid}, headers={"x-amz-checksum-crc32": crc(b"other"), "x-amz-checksum-type": "FULL_OBJECT"},
                       body=("<CompleteMultipartUpload><Part><PartNumber>1</PartNumber><ETag>%s</ETag><ChecksumCRC32>%s</ChecksumCRC32></Part></CompleteMultipartUpload>" % (rp.headers.get("etag", ""), crc(body))).encode())
            cl.req("DELETE", path(k), query={"uploadId": uid})
        if text: text[-1] += " ; then a refused %s write of %s (%d %s)" % (how, k, r.status, r.code)
        chk.count("failed-write:%s:%d" % (how, r.status))
        if r.status == 200:
            viol("bad-digest-accepted", "a %s write of %r whose digest does not match its body is acknowledged" % (how, k))

    def do_delete(k):
        r = cl.req("DELETE", path(k))
        mk = r.headers.get("x-amz-delete-marker") == "true"
        v = vnum(r.headers.get("x-amz-version-id"), new=(sh.status == "Enabled" and mk)) if mk else "absent"
        o = ("deleted", v) if r.status == 204 else ("err", ERRMAP.get(r.code, r.code), False)
        record("Delete %d" % KEYS.index(k), "delete %s" % k, o)
        st = sh.stacks.get(k, [])
        if st:
            if sh.status == "Off": sh.stacks[k] = []
            elif sh.status == "Enabled": st.insert(0, (v if isinstance(v, int) else -9, True))
            else: sh.stacks[k] = [(None, True)] + [e for e in st if e[0] is not None]
        chk.count("delete:%s" % sh.status)

    def pick_version(k):
        ids = sh.ids(k); x = rnd.random()
        if ids and x < 0.8: return rnd.choice(ids)
        if x < 0.9: return None
        return rnd.choice([i for i in range(len(idmap) + 1)] or [0])       # an id of another key, or one never handed out

    def do_delete_version(k, current=False):
        i = pick_version(k)
        if current and sh.ids(k):
            i = sh.ids(k)[0]
        r = cl.req("DELETE", path(k), query={"versionId": vstr(i)})
        o = ("delver", r.headers.get("x-amz-delete-marker") == "true") if r.status == 204 else ("err", ERRMAP.get(r.code, r.code), False)
        record("DeleteVersion %d %s" % (KEYS.index(k), cvid(i)), "delete %s version %s" % (k, "null" if i is None else "#%d" % i), o)
        if r.status == 204 and k in sh.stacks:
            sh.stacks[k] = [e for e in sh.stacks[k] if e[0] != i]
        chk.count("delete-version:%s" % ("ok" if r.status == 204 else r.code))

    def obj_obs(r):
        if r.status == 200:
            et = e2e.etag_clean(r.headers.get("etag")); bi = blobs.get(hashlib.md5(r.body).hexdigest(), -1)
            if blobs.get(et, -3) != bi: bi = -4       # body and ETag disagree
            mi = [i for i, (mh, mm) in enumerate(METAS) if e2e.meta_of(r.headers) == {a.lower(): b for a, b in mm.items()} and all(r.headers.get(a) == b for a, b in mh.items())
                  and (mh.get("content-type") or "binary/octet-stream") == r.headers.get("content-type")]
            return ("obj", bi, mi[0] if mi else -1, vnum(r.headers.get("x-amz-version-id")))
        return ("err", ERRMAP.get(r.code, r.code), r.headers.get("x-amz-delete-marker") == "true")

    def do_get(k):
        r = cl.req("GET", path(k)); o = obj_obs(r)
        if o[0] == "obj" and o[3] == "absent": o = o[:3] + (None,)
        record("Get %d" % KEYS.index(k), "get %s" % k, o)

    def do_get_version(k, i=None, pick=True):
        if pick: i = pick_version(k)
        method = rnd.choice(["GET", "GET", "HEAD"])
        r = cl.req(method, path(k), query={"versionId": vstr(i)})
        if method == "HEAD":
            if r.status == 200:
                bi = blobs.get(e2e.etag_clean(r.headers.get("etag")), -1)
                mi = [j for j, (mh, mm) in enumerate(METAS) if e2e.meta_of(r.headers) == {a.lower(): b for a, b in mm.items()} and all(r.headers.get(a) == b for a, b in mh.items())
                      and (mh.get("content-type") or "binary/octet-stream") == r.headers.get("content-type")]
                o = ("obj", bi, mi[0] if mi else -1, vnum(r.headers.get("x-amz-version-id")))
            else:
                o = ("err", {404: "NoSuchKey", 405: "MethodNotAllowed", 400: "NoSuchVersion"}.get(r.status, str(r.status)), r.headers.get("x-amz-delete-marker") == "true")
        else:
            o = obj_obs(r)
        record("GetVersion %d %s" % (KEYS.index(k), cvid(i)), "get %s version %s" % (k, "null" if i is None else "#%d" % i), o)

    def do_list():
        per = {}
        token_k, token_v, pages = "", "", 0
        mx = rnd.choice([1000, 1000, 1, 2, 3])
        dl = rnd.choice(["", "", "/"])
        cps = set()
        while True:
            q = {"versions": "", "max-keys": str(mx)}
            if dl: q["delimiter"] = dl
            if token_k: q["key-marker"] = token_k
            if token_v: q["version-id-marker"] = token_v
            r = cl.req("GET", "/" + bk, query=q)
            if r.status != 200 or r.xml() is None:
                viol("list-failed", "ListObjectVersions answered %d %s" % (r.status, r.code)); break
            x = r.xml(); n = 0
            for el in x:
                if el.tag == "Version":
                    per.setdefault(el.findtext("Key"), []).append((vnum(el.findtext("VersionId")), False, blobs.get(e2e.etag_clean(el.findtext("ETag")), -1), el.findtext("IsLatest") == "true")); n += 1
                elif el.tag == "DeleteMarker":
                    per.setdefault(el.findtext("Key"), []).append((vnum(el.findtext("VersionId")), True, None, el.findtext("IsLatest") == "true")); n += 1
            for el in x.findall("CommonPrefixes"):
                cps.add(el.findtext("Prefix"))      # (not counted against max-keys here: C09 does not speak of the page size of prefixes)
            if n > mx: viol("list-page-too-long", "a ListObjectVersions page with max-keys=%d has %d entries" % (mx, n))
            pages += 1
            if x.findtext("IsTruncated") != "true": break
            token_k, token_v = x.findtext("NextKeyMarker") or "", x.findtext("NextVersionIdMarker") or ""
            if pages > 200 or not token_k:
                viol("list-paging-stuck", "ListObjectVersions paging with max-keys=%d does not terminate (page %d, next markers %r %r)" % (mx, pages, token_k, token_v)); break
        # versions and markers are separate sequences in the document: compare each in order
        canon = {}
        for k, ents in per.items():
            if k in KEYS:
                canon[KEYS.index(k)] = ([(v, b, lt) for v, m, b, lt in ents if not m], [(v, lt) for v, m, b, lt in ents if m])
        if dl:
            record("ListVersions", "list-versions delimiter=/ max-keys=%d (%d pages)" % (mx, pages), ("listd", canon, tuple(sorted(cps))))
        else:
            record("ListVersions", "list-versions max-keys=%d (%d pages)" % (mx, pages), ("list", canon))
        chk.count("list:pages=%d" % min(pages, 3))

    # ---- the program
    if script is not None:
        for st in script:
            if st[0] == "put": do_put(KEYS[st[1]])
            elif st[0] == "delete": do_delete(KEYS[st[1]])
            elif st[0] == "delete-current": do_delete_version(KEYS[st[1]], current=True)
            elif st[0] == "status": set_status(st[1])
            elif st[0] == "list": do_list()
            elif st[0] == "get": do_get(KEYS[st[1]])
            elif st[0] == "self-copy":
                force_how[0] = "self-copy-replace"; do_put(KEYS[st[1]]); force_how[0] = None
            chk.traces += 1
        n_ops = 0
    pre = script is None and rnd.random() < 0.6
    if pre:
        for k in rnd.sample(KEYS, rnd.randint(1, 3)):
            do_put(k)
            if rnd.random() < 0.2: do_delete(k)
    if script is None: set_status("Enabled")
    for _ in range(n_ops):
        k = rnd.choice(KEYS[:3] if rnd.random() < 0.9 else KEYS); x = rnd.random()
        if x < 0.28: do_put(k)
        elif x < 0.33:
            if interrupt is not None and rnd.random() < 0.5 and sh.stacks.get(k) and not sh.stacks[k][0][1]:
                # an overwrite that dies before it is published (the gateway is killed at a hook site and restarted): nothing was
                # acknowledged and nothing became visible, so the version history must not change; not an operation of the model
                where = interrupt(path(k), blob(9500 + len(text)))
                if text: text[-1] += " ; then an overwrite of %s killed at %s and a restart" % (k, where)
                chk.count("interrupted-write:%s" % where)
                if rnd.random() < 0.6:
                    do_delete_version(k, current=True)      # the version the interrupted overwrite was about to replace
            else:
                do_failed_write(k)
        elif x < 0.43: do_delete(k)
        elif x < 0.57: do_delete_version(k)
        elif x < 0.67: do_get(k)
        elif x < 0.82: do_get_version(k)
        elif x < 0.92: do_list()
        else: set_status("Suspended" if sh.status == "Enabled" else "Enabled")
        chk.traces += 1
    # sweep: every version the history left behind is retrievable by id
    for k in KEYS:
        for i in list(sh.ids(k)):
            if i != -9: do_get_version(k, i, pick=False)
    do_list()
    return ops, obs, text


def decode(enc):
    t = enc[0]
    vid = lambda z: None if z == -1 else z
    if t == 1: return ("ok",)
    if t == 2: return ("put", "absent" if enc[1] == 0 else vid(enc[2]))
    if t == 3: return ("deleted", "absent" if enc[1] == 0 else vid(enc[2]))
    if t == 4: return ("delver", bool(enc[1]))
    if t == 0: return ("err", ERR[enc[1]], bool(enc[2]))
    if t == 5: return ("obj", enc[1], enc[2], vid(enc[3]))
    if t == 6:
        i, canon = 1, {}
        while i < len(enc):
            k, n = enc[i], enc[i + 1]; i += 2; ents = []
            for _ in range(n):
                ents.append((vid(enc[i]), bool(enc[i + 1]), enc[i + 2], bool(enc[i + 3]))); i += 4
            canon[k] = ([(v, b, lt) for v, m, b, lt in ents if not m], [(v, lt) for v, m, b, lt in ents if m])
        return ("list", canon)
    return ("?", enc)


def run(chk):
    quick = chk.tier == "quick"
    chk.rule = ("a case is one random program (15-45 steps) on a fresh bucket: optional writes before versioning is enabled (the null version), "
                "then put (plain / CopyObject / multipart completion / CopyObject and UploadPartCopy from a stored version of another key) / delete / delete-by-version (existing, null, foreign and unknown ids) / "
                "get / get-and-head-by-version / list-versions (unpaged and paged with max-keys 1-3, with and without a delimiter, following the markers) / enable-suspend "
                "toggles on four keys, interleaved with refused writes and with overwrites killed before publication (gateway restarted), ending with a sweep that reads every remaining version by id; plus a burst of 500 overwrites of one key whose listing must be the acknowledgements in reverse; every answer of the real gateway is "
                "compared with the reference version machine (Model/Versions.v) evaluated in Coq. Non-trivial: at least one overwrite or delete "
                "of an existing key in a versioned state; distinct by program text.")
    gwbin = gobuild.build_gateway("verif")
    built = coq.ensure_built(chk, TARGETS)
    if built:
        coq.check_assumptions(chk, "Properties.C09", THEOREMS)
    rnd = chk.rnd
    hists = []
    n_hist = 60 if quick else 600
    # the attribute store by name (--sidecar) keeps a version's attributes apart from its data: the same programs run there
    for label, cfg, hbase, nh in (("xattr", {"iam": False, "versioning": True}, 0, n_hist), ("sidecar", {"iam": False, "versioning": True, "meta": "sidecar"}, n_hist, max(n_hist // 3, 12))):
        with gw.Site(cfg, name="c09") as site:
            hk = hooks.Hooks(site.base)
            g = site.gateway(gwbin, extra_env=hk.env())
            cl = s3c.Client(g.port, "root", "rootsecret")
            def interrupt(pth, body):
                where = rnd.choice(["posix.putobject.bodywritten", "posix.objversion.copied", "posix.objversion.stored", "posix.objversion.stored", "posix.putobject.beforelink"])
                g.restart(); hk.clear(); hk.crash_at(where, 1)
                hk.crash_at("posix.putobject.beforelink", 1)        # (the archiving sites are only passed when there is something to archive)
                r = cl.req("PUT", pth, body=body)
                if r.status == -1:
                    try: g.proc.wait(timeout=3)
                    except Exception: pass
                died = not g.alive()
                hk.clear(); g.restart()
                chk.require(died, "c09:setup", "an overwrite armed to die at %s was answered %d" % (where, r.status))
                return where
            for h in range(hbase, hbase + nh):
                bk = "vb%04d" % h
                chk.require(cl.req("PUT", "/" + bk).status == 200 and cl.req("PUT", "/%s-src" % bk).status == 200, "c09:setup", "CreateBucket failed")
                idmap = {}
                # (an overwrite killed before publication is C11's question; with the sidecar store it is a listed C11 finding)
                ops, obs, text = history(chk, cl, bk, rnd, rnd.randint(15, 45), idmap, interrupt if label == "xattr" else None, script=SCRIPTS[h - hbase] if h - hbase < len(SCRIPTS) else None)
                hists.append((ops, obs, text))
                chk.case(("hist", tuple(ops)), sum(1 for o in ops if o.startswith(("Put", "Delete"))) >= 3)
                for d in (site.root, site.verdir):
                    shutil.rmtree(os.path.join(d, bk), ignore_errors=True); shutil.rmtree(os.path.join(d, bk + "-src"), ignore_errors=True)
            if label != "xattr":
                chk.tie("gateway still running (%s)" % label, g.alive(), g.log_tail())
                continue
            # ---- a burst of overwrites of one key (several within one millisecond): the listing is newest first in the order the writes were
            # acknowledged, and deleting the newest by id re-exposes the write before it
            bk = "vburst"
            chk.require(cl.req("PUT", "/" + bk).status == 200 and cl.req("PUT", "/" + bk, query={"versioning": ""}, body=b"<VersioningConfiguration><Status>Enabled</Status></VersioningConfiguration>").status == 200,
                        "c09:setup", "burst bucket setup failed")
            nburst = 500 if quick else 3000
            acks = []
            for i in range(nburst):
                r = cl.req("PUT", "/%s/burst" % bk, body=b"burst-write-%06d" % i)
                if r.status == 200: acks.append((i, r.headers.get("x-amz-version-id")))
            listed, km, vm = [], "", ""
            for _ in range(nburst // 100 + 5):
                q = {"versions": "", "max-keys": "1000"}
                if km: q["key-marker"] = km
                if vm: q["version-id-marker"] = vm
                lv = cl.req("GET", "/" + bk, query=q)
                if lv.status != 200 or lv.xml() is None: break
                listed += [x.findtext("VersionId") for x in lv.xml().findall("Version")]
                if lv.xml().findtext("IsTruncated") != "true": break
                km, vm = lv.xml().findtext("NextKeyMarker") or "", lv.xml().findtext("NextVersionIdMarker") or ""
            # the same against the backend itself (no HTTP in between: most adjacent writes fall into one millisecond, where only the
            # monotonic part of the id generator orders them)
            import subprocess
            pb = subprocess.run([gobuild.build_tool("corr"), "versionburst"], input=b"3000\n", stdout=subprocess.PIPE, stderr=subprocess.PIPE, env=common.env(), timeout=300)
            ub = (pb.stdout.decode().strip().splitlines() or [""])[-1].split()
            chk.case(("burst-unit", 3000), True); chk.traces += 1
            if len(ub) == 4 and ub[0].isdigit():
                chk.count("burst-unit:same-millisecond-pairs:%s" % ("many" if int(ub[3]) > 100 else ub[3]))
                if ub[0] != "3000" or ub[1] != ub[0] or ub[2] != "-1":
                    chk.fail("c09:burst:listing-not-newest-first", "3000 overwrites of one key issued to the posix backend back to back (%s adjacent pairs within one millisecond): %s acknowledged, %s listed, "
                             "the listing differs from the acknowledgements in reverse at position %s" % (ub[3], ub[0], ub[1], ub[2]), {"answer": ub})
            else:
                chk.tie("corr versionburst ran", False, (pb.stdout.decode() + pb.stderr.decode())[-600:])
            want = [v for _, v in reversed(acks)]
            same_ms = sum(1 for (_, a), (_, b) in zip(acks, acks[1:]) if a and b and a[:10] == b[:10])
            chk.case(("burst", nburst), True); chk.traces += 1; chk.count("burst:same-millisecond-pairs:%d" % min(same_ms, 5))
            if listed != want:
                firstbad = next((i for i, (a, b) in enumerate(zip(listed, want)) if a != b), min(len(listed), len(want)))
                chk.fail("c09:burst:listing-not-newest-first", "after %d acknowledged overwrites of one key (%d adjacent pairs within one millisecond) ListObjectVersions is not the acknowledgements in reverse: %d listed, first difference at position %d (listed %s, written %s)"
                         % (len(acks), same_ms, len(listed), firstbad, listed[firstbad:firstbad + 2], want[firstbad:firstbad + 2]), {"acks": acks[-12:], "listed_head": listed[:12], "same_ms_pairs": same_ms})
            else:
                for step in range(1, 4):
                    i, v = acks[-step]
                    dv = cl.req("DELETE", "/%s/burst" % bk, query={"versionId": v}); gv = cl.req("GET", "/%s/burst" % bk)
                    if dv.status != 204 or gv.body != b"burst-write-%06d" % acks[-step - 1][0]:
                        chk.fail("c09:burst:wrong-version-re-exposed", "deleting the newest version (write %d) by id answers %d and the key then reads %r; the write before it was %d"
                                 % (i, dv.status, gv.body[:30], acks[-step - 1][0]), {"acks": acks[-8:]})
                        break
            shutil.rmtree(os.path.join(site.root, bk), ignore_errors=True); shutil.rmtree(os.path.join(site.verdir, bk), ignore_errors=True)
            chk.tie("gateway still running", g.alive(), g.log_tail())
    if not built:
        return
    text = ("From Coq Require Import List ZArith Bool.\nFrom VGW Require Import Model.Versions Check.VersionsCheck.\nImport ListNotations.\nOpen Scope nat_scope.\n")
    text += "Definition progs : list (list op) :=\n " + coq_list([coq_list(o) for o, _, _ in hists]).replace("]; [", "];\n [") + ".\n"
    text += "Definition OUT := Eval vm_compute in map run_enc progs.\nPrint OUT.\n"
    rc, out = coq.run_cases("C09_cases", text)
    res = coq.printed_nested(out, "OUT")
    if rc != 0 or res is None or len(res) != len(hists):
        chk.tie("case file evaluates", False, out[-3000:])
        return
    nbad = 0
    for hi, ((ops, obs, txt), encs) in enumerate(zip(hists, res)):
        for i, (o, e) in enumerate(zip(obs, encs)):
            m = decode(e)
            if o[0] == "listd" and m[0] == "list":
                # with a delimiter: keys without it are listed as they are, the others collapse into their common prefix
                flat = {k: v for k, v in m[1].items() if "/" not in KEYS[k]}
                pref = tuple(sorted({KEYS[k].split("/")[0] + "/" for k, v in m[1].items() if "/" in KEYS[k] and (v[0] or v[1])}))
                o, m = ("list", o[1], o[2]), ("list", flat, pref)
            if hi >= n_hist and o[0] == "err" and m[0] == "err":
                continue      # the attribute store by name reports a missing key / version under other codes: which error is not a question of the version history
            if tuple(o) != tuple(m):
                # the reference machine is the Spec: a disagreement is a concrete failing history
                kind = ops[i].split(" ")[0]
                chk.fail("c09:%s:%s" % (kind, classify(o, m)), "step %d (%s): the gateway answered %s, the version history requires %s [history: %s]" % (
                    i, txt[i].split(" -> ")[0], str(o)[:300], str(m)[:300], "; ".join(t.split(" -> ")[0] for t in txt[max(0, i - 12):i])),
                    {"history": [t for t in txt[:i + 1]], "gateway": repr(o), "required": repr(m)})
                nbad += 1
                break
    chk.tie("T3 version programs: every answer of the real gateway = Model.Versions.run on %d programs (%d steps)" % (len(hists), sum(len(o) for o, _, _ in hists)), nbad == 0, "%d programs disagree (each reported as a failing history)" % nbad)
    chk.samples.append({"program": hists[0][2][:12]})


def classify(o, m):
    if o[0] != m[0]: return "%s-instead-of-%s" % (o[0], m[0])
    if o[0] == "list":
        for k in sorted(set(o[1]) | set(m[1])):
            a, b = o[1].get(k, ([], [])), m[1].get(k, ([], []))
            if a != b:
                if sorted(map(str, a[0])) == sorted(map(str, b[0])) and sorted(map(str, a[1])) == sorted(map(str, b[1])): return "order"
                if len(a[0]) + len(a[1]) > len(b[0]) + len(b[1]): return "extra-entries"
                if len(a[0]) + len(a[1]) < len(b[0]) + len(b[1]): return "missing-entries"
                return "different-entries"
    if o[0] == "obj": return "wrong-version" if o[3] != m[3] or o[1] != m[1] else "wrong-metadata"
    return "different"


def replay(chk, data):
    print(json.dumps(data.get("replay"), indent=1, default=str))
    return 0
