"""C05 — Per-key reads and writes are atomic and linearizable (DESIGN.md §7 C05)."""
import base64, hashlib, json, os, random, struct, threading, time, zlib
from vlib import common, coq, gobuild, gw, s3c, e2e, hooks
from vlib.common import coq_list

THEOREMS = ["C05_reads_return_one_write", "C05_linearizable", "C05_log_events_are_requests", "C05_overwritten_key_never_missing", "C05_read_after_ack_is_fresh", "C05_publishes_once"]
TARGETS = ["Properties/C05.vo", "Check/PublishCheck.vo"]
CONFIGS = [("otmpfile", {"iam": False}), ("named-temp", {"iam": False, "otmp": False})]


def body_of(i):
    """the content of write number i: its length, bytes, ETag and metadata all identify i"""
    n = 100 + (i * 977) % 5000
    return (("w%06d-" % i).encode() * (n // 8 + 1))[:n]


def crc_of(i):
    return base64.b64encode(struct.pack(">I", zlib.crc32(body_of(i)) & 0xffffffff)).decode()


def write_headers(i, tags=True, cksum=False):
    hd = {"x-amz-meta-write": str(i), "content-type": "application/x-w%d" % i}
    if tags: hd["x-amz-tagging"] = "write=%d" % i
    if cksum: hd["x-amz-checksum-crc32"] = crc_of(i)
    return hd


def classify(r):
    """which write does a GET/HEAD response show? returns (kind, detail): ('write', i) | ('missing',) | ('mixture', what) | ('error', ...)"""
    if r.status == 404: return ("missing", r.code)
    if r.status != 200: return ("error", r.status, r.code)
    meta = e2e.meta_of(r.headers).get("write")
    et = e2e.etag_clean(r.headers.get("etag"))
    cl = r.headers.get("content-length")
    seen = {}
    if meta is not None: seen["metadata"] = int(meta)
    m = None
    if r.headers.get("content-type", "").startswith("application/x-w"):
        seen["content-type"] = int(r.headers["content-type"][15:])
    if r.body:
        try: seen["body"] = int(r.body[1:7])
        except ValueError: return ("mixture", "unrecognisable body %r" % r.body[:20])
        w = seen["body"]
        if r.body != body_of(w): return ("mixture", "the body is not the complete body of write %d (%d bytes read, %d written)" % (w, len(r.body), len(body_of(w))))
        if cl is not None and int(cl) != len(r.body): return ("mixture", "Content-Length %s with a body of %d bytes" % (cl, len(r.body)))
    if not et:
        return ("mixture", "the response has no ETag (write %s otherwise)" % sorted(set(seen.values())))
    if et:
        ws = [i for i in set(seen.values()) | {seen.get("body", -1)} if i >= 0 and et in (hashlib.md5(body_of(i)).hexdigest(), e2e.multipart_etag([body_of(i)]))]
        if not ws:
            # find the write the ETag belongs to among recent ones
            for i in range(0, 400):
                if hashlib.md5(body_of(i)).hexdigest() == et: seen["etag"] = i; break
            else: seen["etag"] = -1
        else: seen["etag"] = ws[0]
    if cl is not None and "body" not in seen:
        lens = [i for i in set(seen.values()) if i >= 0 and len(body_of(i)) == int(cl)]
        seen["length"] = lens[0] if lens else -2
    ck = r.headers.get("x-amz-checksum-crc32")
    if ck:
        ws = [i for i in set(seen.values()) if i >= 0 and crc_of(i) == ck]
        seen["checksum"] = ws[0] if ws else next((i for i in range(0, 400) if crc_of(i) == ck), -3)
    tc = r.headers.get("x-amz-tagging-count")
    vals = set(seen.values())
    if len(vals) > 1:
        return ("mixture", "the response combines " + ", ".join("%s of write %s" % (k, v) for k, v in sorted(seen.items())))
    if not vals: return ("error", "nothing identifies the write")
    w = vals.pop()
    if tc != "1" and r.body: return ("mixture", "write %d is shown without its tag (x-amz-tagging-count %r)" % (w, tc))      # (HEAD does not report the tag count)
    return ("write", w)


AFTER = {'posix.link.published', 'posix.putobject.linked', 'posix.putobject.done', 'posix.cmu.linked', 'posix.cmu.beforecleanup', 'posix.getobject.opened', 'posix.deleteobject.removed'}


def schedules(chk, gwbin, label, cfg, mcases):
    """hook-driven interleavings of two requests on one key"""
    with gw.Site(cfg, name="c05s") as site:
        hk = hooks.Hooks(site.base)
        g = site.gateway(gwbin, extra_env=hk.env())
        A, B = s3c.Client(g.port, "root", "rootsecret"), s3c.Client(g.port, "root", "rootsecret")
        chk.require(A.req("PUT", "/bkt").status == 200, "c05:setup", "CreateBucket failed")
        n = [0]
        def fresh_key(initial=True):
            n[0] += 1; k = "k%03d" % n[0]
            if initial:
                r = A.req("PUT", "/bkt/" + k, body=body_of(2 * n[0]), headers=write_headers(2 * n[0], cksum=True))
                chk.require(r.status == 200, "c05:setup", "initial PUT failed: %d %s" % (r.status, r.code))
            return k, 2 * n[0], 2 * n[0] + 1
        def put(cl, k, w): return lambda: cl.req("PUT", "/bkt/" + k, body=body_of(w), headers=write_headers(w, cksum=True))
        def get(cl, k, method="GET"): return lambda: cl.req(method, "/bkt/" + k, headers={"x-amz-checksum-mode": "ENABLED"})
        def dele(cl, k): return lambda: cl.req("DELETE", "/bkt/" + k)
        def copy(cl, k, w):
            # (the source is uploaded before the schedule starts: only the copy itself is the request under test)
            cl.req("PUT", "/bkt/src%d" % w, body=body_of(w), headers=write_headers(w, cksum=True))
            return lambda: cl.req("PUT", "/bkt/" + k, headers={"x-amz-copy-source": "bkt/src%d" % w})
        def mpu(cl, k, w):
            r0 = cl.req("POST", "/bkt/" + k, query={"uploads": ""}, headers=write_headers(w))
            uid = r0.xml().findtext("UploadId") if r0.status == 200 else "none"
            rp = cl.req("PUT", "/bkt/" + k, query={"partNumber": "1", "uploadId": uid}, body=body_of(w))
            return lambda: cl.req("POST", "/bkt/" + k, query={"uploadId": uid}, body=("<CompleteMultipartUpload><Part><PartNumber>1</PartNumber><ETag>%s</ETag></Part></CompleteMultipartUpload>" % rp.headers.get("etag", "")).encode())
        WRITE_SITES = ["posix.putobject.bodywritten", "posix.putobject.beforelink", "posix.link.enter", "posix.link.named", "posix.link.beforerename", "posix.link.published", "posix.putobject.linked", "posix.putobject.done"]
        READ_SITES = ["posix.getobject.statted", "posix.getobject.attrsread", "posix.getobject.opened"]
        def report(name, site_, k, old, new, results, parked, allowed, row_extra=None):
            chk.case((label, name, site_), True); chk.traces += 1
            row = dict(row_extra or {}, config=label, schedule=name, parked_at=site_, parked=parked)
            if not parked:
                chk.count("%s:%s:not-reached" % (label, name)); return      # the site is not on this request's path in this configuration
            kind = 0 if "-overwrite|" in name else 1 if name.startswith("get|") and "overwrite" in name else 2 if name == "get|delete" else 3 if name == "delete|get" else None
            for who, c in results:
                row[who] = str(c)
                if kind is not None and c[0] in ("write", "missing"):
                    mcases.append(((kind, site_ in AFTER, 0 if c[0] == "missing" else 1 if c[1] == old else 2 if c[1] == new else 9), dict(row)))
                chk.count("%s:%s:%s" % (label, name, c[0] if c[0] != "write" else ("old" if c[1] == old else "new" if c[1] == new else "other")))
                if c[0] == "mixture":
                    chk.fail("c05:mixture:%s:%s" % (name, site_.split(".")[-1]), "[%s] %s with the first request parked at %s: %s" % (label, name, site_, c[1]), row)
                elif c[0] == "missing" and "missing" not in allowed:
                    chk.fail("c05:missing:%s:%s" % (name, site_.split(".")[-1]), "[%s] %s with the first request parked at %s: the key, which existed and was only being overwritten, reads as missing (%s)" % (label, name, site_, c[1]), row)
                elif c[0] == "error":
                    chk.fail("c05:error:%s:%s" % (name, site_.split(".")[-1]), "[%s] %s with the first request parked at %s: %s answered %s" % (label, name, site_, who, c[1:]), row)
                elif c[0] == "write" and c[1] not in allowed:
                    chk.fail("c05:stale-or-foreign:%s:%s" % (name, site_.split(".")[-1]), "[%s] %s with the first request parked at %s: %s shows write %d; admissible are %s" % (label, name, site_, who, c[1], sorted(x for x in allowed if x != "missing")), row)
        # 1. a writer parked at each of its steps; a reader (GET, HEAD) runs to completion meanwhile, and again after the writer finished
        for wname, writer in (("put", put), ("copy", copy), ("multipart", mpu)):
            sites = WRITE_SITES if wname != "multipart" else ["posix.cmu.beforelink", "posix.link.enter", "posix.link.named", "posix.link.beforerename", "posix.link.published", "posix.cmu.linked", "posix.cmu.beforecleanup"]
            for s_ in sites:
                for method in ("GET", "HEAD"):
                    k, old, new = fresh_key()
                    w, rd, parked = hooks.held(hk, s_, writer(A, k, new), get(B, k, method))
                    after = A.req(method, "/bkt/" + k)
                    res = [("%s during the overwrite" % method, classify(rd))] if parked and rd is not None else []
                    report("%s-overwrite|%s" % (wname, method.lower()), s_, k, old, new, res, parked, {old, new})
                    if parked and w is not None and w.status == 200:
                        report("%s-overwrite;%s" % (wname, method.lower()), s_, k, old, new, [("%s after the acknowledged overwrite" % method, classify(after))], True, {new})
                    hk.clear()
        # 2. a reader parked at each of its steps; a writer / deleter runs to completion meanwhile
        for s_ in READ_SITES:
            for wname, writer in (("put", put), ("copy", copy), ("multipart", mpu)):
                k, old, new = fresh_key()
                rd, w, parked = hooks.held(hk, s_, get(A, k), writer(B, k, new))
                report("get|%s-overwrite" % wname, s_, k, old, new, [("GET overlapping the overwrite", classify(rd))] if parked else [], parked, {old, new})
                hk.clear()
            k, old, new = fresh_key()
            rd, d, parked = hooks.held(hk, s_, get(A, k), dele(B, k))
            report("get|delete", s_, k, old, new, [("GET overlapping the delete", classify(rd))] if parked else [], parked, {old, "missing"})
            hk.clear()
        # 2b. a HEAD parked between its stat by name and its open, and right after the open
        for s_ in ["posix.headobject.statted", "posix.headobject.opened"]:
            for wname, writer in (("put", put), ("copy", copy), ("multipart", mpu)):
                k, old, new = fresh_key()
                rd, w, parked = hooks.held(hk, s_, get(A, k, "HEAD"), writer(B, k, new))
                report("head|%s-overwrite" % wname, s_, k, old, new, [("HEAD overlapping the overwrite", classify(rd))] if parked else [], parked, {old, new})
                hk.clear()
        # 2c. a reader parked; an overwrite is acknowledged; a second, identical read issued after the acknowledgement must show the new
        # write although the older read is still in flight (a read is never answered from another read that started earlier)
        C = s3c.Client(g.port, "root", "rootsecret")
        for s_, method in (("posix.headobject.statted", "HEAD"), ("posix.headobject.opened", "HEAD"), ("posix.getobject.statted", "GET"), ("posix.getobject.opened", "GET")):
            k, old, new = fresh_key()
            def second(k=k, new=new, method=method):
                w = B.req("PUT", "/bkt/" + k, body=body_of(new), headers=write_headers(new, cksum=True))
                # (short timeout: a read that waits for the parked one would otherwise wait for the release below)
                r2 = C.req(method, "/bkt/" + k, headers={"x-amz-checksum-mode": "ENABLED"}, timeout=4)
                return w, r2
            rd, wr, parked = hooks.held(hk, s_, get(A, k, method), second)
            if parked and wr is not None and wr[0].status == 200:
                c2 = classify(wr[1]) if wr[1].status != -1 else ("error", "no answer within 4 s while the older %s was parked" % method)
                report("second-%s-after-acknowledged-put" % method.lower(), s_, k, old, new, [("second %s, issued after the acknowledged overwrite while the first is parked" % method, c2)], True, {new})
            else:
                report("second-%s-after-acknowledged-put" % method.lower(), s_, k, old, new, [], parked and False, {new})
            hk.clear()
        # 3. two writers: the first parked at each step while the second completes
        for s_ in WRITE_SITES:
            k, old, new = fresh_key()
            w1, w2, parked = hooks.held(hk, s_, put(A, k, new), put(B, k, new + 1000))
            fin = classify(A.req("GET", "/bkt/" + k))
            ok1, ok2 = w1 is not None and w1.status == 200, w2 is not None and w2.status == 200
            allowed = ({new} if ok1 else set()) | ({new + 1000} if ok2 else set()) or {old}
            report("put|put", s_, k, old, new, [("GET after both writers finished", fin)] if parked else [], parked, allowed)
            hk.clear()
        # 4. delete parked; get / put meanwhile
        for s_ in ["posix.deleteobject.beforeremove", "posix.deleteobject.removed"]:
            k, old, new = fresh_key()
            d, rd, parked = hooks.held(hk, s_, dele(A, k), get(B, k))
            report("delete|get", s_, k, old, new, [("GET during the delete", classify(rd))] if parked else [], parked, {old, "missing"})
            hk.clear()
            k, old, new = fresh_key()
            d, w, parked = hooks.held(hk, s_, dele(A, k), put(B, k, new))
            fin = classify(A.req("GET", "/bkt/" + k))
            report("delete|put", s_, k, old, new, [("GET after delete and put finished", fin)] if parked else [], parked, {new, "missing"})
            hk.clear()
        # 5. an upload of a new key parked before it is published; an object below that key ("<key>/x") is stored meanwhile, which makes
        # the key a directory: the parked upload is then either refused or, if acknowledged, readable
        for s_ in ["posix.putobject.beforelink", "posix.link.enter", "posix.link.named", "posix.link.beforerename"]:
            k, old, new = fresh_key(initial=False)
            w1, w2, parked = hooks.held(hk, s_, put(A, k, new), put(B, k + "/x", new + 1000))
            res = []
            if parked and w1 is not None and w1.status == 200:
                res.append(("GET of the key after its acknowledged upload", classify(A.req("GET", "/bkt/" + k, headers={"x-amz-checksum-mode": "ENABLED"}))))
            if parked and w2 is not None and w2.status == 200:
                c2 = classify(A.req("GET", "/bkt/" + k + "/x", headers={"x-amz-checksum-mode": "ENABLED"}))
                res.append(("GET of the key below it after its acknowledged upload", c2 if c2 != ("write", new + 1000) else ("write", new)))
            report("put|put-below", s_, k, old, new, res, parked, {new}, {"first_put": None if w1 is None else (w1.status, w1.code), "put_below": None if w2 is None else (w2.status, w2.code)})
            hk.clear()
        chk.tie("gateway still running after the schedules (%s)" % label, g.alive(), g.log_tail())


def version_reads(chk, gwbin):
    """a read that names a version by its id, parked at each of its steps while that version (the current one) is overwritten: the answer
    is that version - its body, ETag, metadata and id - whatever happens to the key meanwhile (versions do not change)"""
    with gw.Site({"iam": False, "versioning": True}, name="c05v") as site:
        hk = hooks.Hooks(site.base)
        g = site.gateway(gwbin, extra_env=hk.env())
        A, B = s3c.Client(g.port, "root", "rootsecret"), s3c.Client(g.port, "root", "rootsecret")
        chk.require(A.req("PUT", "/bkt").status == 200 and A.req("PUT", "/bkt", query={"versioning": ""}, body=b"<VersioningConfiguration><Status>Enabled</Status></VersioningConfiguration>").status == 200,
                    "c05:setup", "versioned bucket setup failed")
        n = 0
        for method, sites in (("GET", ["posix.getobject.statted", "posix.getobject.attrsread", "posix.getobject.opened"]), ("HEAD", ["posix.headobject.statted", "posix.headobject.opened"])):
            for s_ in sites:
                for second in ("put", "delete"):
                    n += 1; k = "v%03d" % n; old, new = 2 * n, 2 * n + 1
                    r1 = A.req("PUT", "/bkt/" + k, body=body_of(old), headers=write_headers(old, cksum=True)); v1 = r1.headers.get("x-amz-version-id", "")
                    chk.require(r1.status == 200 and v1, "c05:setup", "initial versioned PUT failed")
                    other = (lambda: B.req("PUT", "/bkt/" + k, body=body_of(new), headers=write_headers(new, cksum=True))) if second == "put" else (lambda: B.req("DELETE", "/bkt/" + k))
                    rd, w, parked = hooks.held(hk, s_, lambda: A.req(method, "/bkt/" + k, query={"versionId": v1}, headers={"x-amz-checksum-mode": "ENABLED"}), other)
                    chk.case(("version-read", method, s_, second), True); chk.traces += 1
                    hk.clear()
                    if not parked or rd is None:
                        chk.count("versioned:%s|%s:not-reached" % (method.lower(), second)); continue
                    c = classify(rd)
                    ok_ = c == ("write", old) and rd.headers.get("x-amz-version-id") == v1
                    chk.count("versioned:%s-by-id|%s:%s" % (method.lower(), second, "the-version" if ok_ else "other"))
                    if not ok_:
                        chk.fail("c05:version-read:%s|%s:%s" % (method.lower(), second, s_.split(".")[-1]), "%s ?versionId=<v1> parked at %s while the key is %s: answered %d with %s and x-amz-version-id %s; v1 is write %d with id %s" % (
                            method, s_, "overwritten" if second == "put" else "deleted (a delete marker on top)", rd.status, c[:2], rd.headers.get("x-amz-version-id"), old, v1),
                            {"method": method, "parked_at": s_, "meanwhile": second, "status": rd.status, "classified": str(c), "version_id_header": rd.headers.get("x-amz-version-id"), "v1": v1})
        chk.tie("gateway still running after the reads by version id", g.alive(), g.log_tail())


def bare_overwrites(chk, gwbin, label, cfg):
    """one client, no overlap: a write that supplies no metadata at all replaces a write that had all of it; the read
    afterwards must show the new write alone (no content type, user metadata, tag or checksum of the replaced one)"""
    with gw.Site(cfg, name="c05b") as site:
        g = site.gateway(gwbin)
        A = s3c.Client(g.port, "root", "rootsecret")
        chk.require(A.req("PUT", "/bkt").status == 200, "c05:setup", "CreateBucket failed")
        A.req("PUT", "/bkt/baresrc", body=body_of(301))
        for n, how in enumerate(["put", "copy", "copy-replace", "multipart", "put-after-multipart", "multipart-after-multipart"]):
            k, old, new = "b%d" % n, 310 + 2 * n, 311 + 2 * n
            if how.endswith("after-multipart"):
                r0 = A.req("POST", "/bkt/" + k, query={"uploads": ""}, headers=write_headers(old))
                uid = r0.xml().findtext("UploadId") if r0.status == 200 else "none"
                rp = A.req("PUT", "/bkt/" + k, query={"partNumber": "1", "uploadId": uid}, body=body_of(old))
                r1 = A.req("POST", "/bkt/" + k, query={"uploadId": uid}, body=("<CompleteMultipartUpload><Part><PartNumber>1</PartNumber><ETag>%s</ETag></Part></CompleteMultipartUpload>" % rp.headers.get("etag", "")).encode())
            else:
                r1 = A.req("PUT", "/bkt/" + k, body=body_of(old), headers=write_headers(old, cksum=True))
            if how in ("put", "put-after-multipart"):
                r2 = A.req("PUT", "/bkt/" + k, body=body_of(new)); want = body_of(new)
            elif how.startswith("copy"):
                hd = {"x-amz-copy-source": "bkt/baresrc"}
                if how == "copy-replace": hd["x-amz-metadata-directive"] = "REPLACE"; hd["x-amz-tagging-directive"] = "REPLACE"
                r2 = A.req("PUT", "/bkt/" + k, headers=hd); want = body_of(301)
            else:
                r0 = A.req("POST", "/bkt/" + k, query={"uploads": ""})
                uid = r0.xml().findtext("UploadId") if r0.status == 200 else "none"
                rp = A.req("PUT", "/bkt/" + k, query={"partNumber": "1", "uploadId": uid}, body=body_of(new))
                r2 = A.req("POST", "/bkt/" + k, query={"uploadId": uid}, body=("<CompleteMultipartUpload><Part><PartNumber>1</PartNumber><ETag>%s</ETag></Part></CompleteMultipartUpload>" % rp.headers.get("etag", "")).encode())
                want = body_of(new)
            chk.case((label, "bare-overwrite", how), True); chk.traces += 1
            if r1.status != 200 or r2.status != 200:
                chk.tie("[%s] the two writes of the bare-overwrite history (%s) are acknowledged" % (label, how), False, "%s / %s" % (r1, r2))
                continue
            g_ = A.req("GET", "/bkt/" + k, headers={"x-amz-checksum-mode": "ENABLED"})
            t_ = A.req("GET", "/bkt/" + k, query={"tagging": ""})
            left = []
            if g_.status != 200 or g_.body != want: left.append("GET %d with %d bytes (expected the %d bytes of the second write)" % (g_.status, len(g_.body or b""), len(want)))
            if e2e.meta_of(g_.headers): left.append("user metadata %r" % e2e.meta_of(g_.headers))
            if g_.headers.get("content-type", "").startswith("application/x-w"): left.append("content-type %s" % g_.headers.get("content-type"))
            if g_.headers.get("x-amz-tagging-count") not in (None, "0"): left.append("x-amz-tagging-count %s" % g_.headers.get("x-amz-tagging-count"))
            if t_.status == 200 and b"<Tag>" in (t_.body or b""): left.append("tags %r" % t_.body[-120:])
            if g_.headers.get("x-amz-checksum-crc32") == crc_of(old): left.append("x-amz-checksum-crc32 of the replaced write")
            chk.count("%s:bare-overwrite:%s:%s" % (label, how, "mixed" if left else "clean"))
            if left:
                chk.fail("c05:mixture:bare-overwrite:%s" % how, "[%s] after write %d (body, content type, metadata, tag, checksum) was replaced by a %s that supplies none of them, the key reads as: %s"
                         % (label, old, how, "; ".join(left)), {"config": label, "history": how, "left_over": left})
        chk.tie("gateway still running after the bare overwrites (%s)" % label, g.alive(), g.log_tail())


def linearizable(history):
    """history: list of (start, end, kind, arg, result) on one register; writes have unique values.
    Wing-Gong search with memoisation; returns True when some order respecting real time explains every result."""
    ops = sorted(history, key=lambda o: o[0])
    n = len(ops)
    import functools
    @functools.lru_cache(maxsize=None)
    def go(done, state):
        if done == (1 << n) - 1: return True
        # an operation may be linearized next if no undone operation finished before it started
        min_end = min(ops[i][1] for i in range(n) if not done >> i & 1)
        for i in range(n):
            if done >> i & 1: continue
            s, e, kind, arg, res = ops[i]
            if s > min_end: continue
            if kind == "put":
                if res == "ok":
                    if go(done | 1 << i, arg): return True
                else:
                    # a failed write may or may not have taken effect
                    if go(done | 1 << i, state) or go(done | 1 << i, arg): return True
            elif kind == "delete":
                if go(done | 1 << i, None): return True
            else:
                if res == state and go(done | 1 << i, state): return True
        return False
    return go(0, None)


def stress(chk, gwbin, label, cfg, rounds, procs):
    rnd = chk.rnd
    with gw.Site(cfg, name="c05x") as site:
        gws = [site.gateway(gwbin) for _ in range(procs)]
        R = s3c.Client(gws[0].port, "root", "rootsecret")
        chk.require(R.req("PUT", "/bkt").status == 200, "c05:setup", "CreateBucket failed")
        wcount = [0]
        for rd_ in range(rounds):
            key = "x%04d" % rd_
            hist, lock = [], threading.Lock()
            srv_errors = []
            nthreads = rnd.choice([3, 4, 6])
            plan = []
            for t in range(nthreads):
                ops = []
                for _ in range(rnd.choice([2, 3, 4])):
                    x = rnd.random()
                    if x < 0.4:
                        wcount[0] += 1; ops.append(("put", wcount[0]))
                    elif x < 0.5: ops.append(("delete", None))
                    elif x < 0.9: ops.append(("get", None))
                    else: ops.append(("head", None))
                plan.append(ops)
            def worker(t):
                cl = s3c.Client(gws[t % procs].port, "root", "rootsecret")
                for kind, arg in plan[t]:
                    t0 = time.monotonic()
                    if kind == "put":
                        r = cl.req("PUT", "/bkt/" + key, body=body_of(arg), headers=write_headers(arg)); res = "ok" if r.status == 200 else "fail"
                        if r.status >= 500 or r.status == -1:
                            with lock: srv_errors.append(("PUT", r.status, r.code))
                    elif kind == "delete":
                        r = cl.req("DELETE", "/bkt/" + key); res = "ok"
                    else:
                        r = cl.req("GET" if kind == "get" else "HEAD", "/bkt/" + key); c = classify(r)
                        res = c[1] if c[0] == "write" else None if c[0] == "missing" else c
                    t1 = time.monotonic()
                    with lock: hist.append((t0, t1, "read" if kind in ("get", "head") else kind, arg, res))
            ts = [threading.Thread(target=worker, args=(t,)) for t in range(nthreads)]
            [t.start() for t in ts]; [t.join() for t in ts]
            chk.case((label, "stress", rd_, tuple(tuple(p) for p in plan)), True); chk.traces += 1
            if srv_errors:
                chk.fail("c05:error:concurrent-put", "[%s, %d process(es)] a valid PutObject among concurrent requests on one key was answered %r" % (label, procs, srv_errors[0]), {"config": label, "errors": srv_errors[:5]})
            bad = [h for h in hist if isinstance(h[4], tuple)]
            for h in bad[:1]:
                kind = h[4][0]
                chk.fail("c05:%s:concurrent" % kind, "[%s, %d process(es)] a concurrent %s on one key: %s" % (label, procs, "read", h[4][1:]), {"config": label, "history": [(round(a, 4), round(b, 4), k, x, str(r)) for a, b, k, x, r in sorted(hist)]})
            if not bad:
                ok = linearizable(tuple(hist))
                chk.count("%s:stress:procs=%d:%s" % (label, procs, "linearizable" if ok else "NOT-linearizable"))
                if not ok:
                    chk.fail("c05:not-linearizable", "[%s, %d process(es)] no order respecting real time explains this history of one key" % (label, procs),
                             {"config": label, "history": [(round(a, 4), round(b, 4), k, x, str(r)) for a, b, k, x, r in sorted(hist)]})
        chk.tie("gateways still running after the stress rounds (%s)" % label, all(g.alive() for g in gws), gws[0].log_tail())


def run(chk):
    quick = chk.tier == "quick"
    chk.rule = ("cases: (a) hook-driven interleavings on one key, for both temp-file strategies: a writer (PutObject, CopyObject, multipart completion) parked at each "
                "of its filesystem steps while a GET / HEAD runs, and the read repeated after the acknowledgement; a GET (and a HEAD) parked at each of its steps while an "
                "overwrite (three kinds) or a delete runs; two writers; a delete parked against GET and PUT. Every write has a body, length, ETag, content-type, "
                "user metadata and tag that identify it, so a response mixing two writes, a prefix, or a key that reads as missing is recognised. (b) concurrent "
                "rounds of 3-6 clients (put / delete / get / head on one key) through one and through two gateway processes sharing the storage, each history "
                "checked for linearizability (Wing-Gong search). (c) sequential histories in which a write supplying no metadata (put, copy, copy with REPLACE, "
                "multipart completion) replaces a write that had all of it, in the xattr, sidecar and versioned configurations. Reads ask for the stored checksum "
                "(x-amz-checksum-mode), which identifies the write as well. Non-trivial: every case; distinct by schedule.")
    gwbin = gobuild.build_gateway("verif")
    from vlib import gen
    gen.regenerate()
    built = coq.ensure_built(chk, TARGETS)
    if built:
        coq.check_assumptions(chk, "Properties.C05", THEOREMS)
    else:
        rc_, out_ = coq.run_cases("C05_rows", "From VGW Require Import Gen.LinkCalls Check.LinkOnceCheck.\nFrom Coq Require Import List.\nImport ListNotations.\n"
                                  "Definition BL := Eval vm_compute in map (fun e => List.length (snd e)) (link_bad posix_link_calls).\nPrint BL.\nEval vm_compute in link_bad posix_link_calls.\n")
        bl = coq.printed_list(out_, "BL")
        if bl:
            chk.obligation("functions of backend/posix/posix.go that call link() on a temporary file other than exactly once: %s" % " ".join(out_.split())[-300:], False, str(bl))
    mcases = []
    for label, cfg in CONFIGS:
        schedules(chk, gwbin, label, cfg, mcases)
    version_reads(chk, gwbin)
    for label, cfg in CONFIGS + [("sidecar", {"iam": False, "meta": "sidecar"}), ("versioned", {"iam": False, "versioning": True})]:
        bare_overwrites(chk, gwbin, label, cfg)
    for label, cfg in CONFIGS:
        stress(chk, gwbin, label, cfg, 25 if quick else 400, 1)
        stress(chk, gwbin, label, cfg, 25 if quick else 400, 2)
    if built:
        text = ("From Coq Require Import List Arith Bool ZArith.\nFrom VGW Require Import Model.Publish Check.Common Check.PublishCheck.\nImport ListNotations.\n")
        text += "Definition cases : list (nat * bool * Z) := " + coq_list(["(%d, %s, %d%%Z)" % (k, "true" if a else "false", z) for (k, a, z), _ in mcases]) + ".\n"
        text += "Definition MS := Eval vm_compute in bad case_ok cases.\nPrint MS.\n"
        rc, out = coq.run_cases("C05_cases", text)
        ms = coq.printed_list(out, "MS")
        if rc != 0 or ms is None:
            chk.tie("case file evaluates", False, out[-2000:])
        else:
            chk.tie("T4 hook-driven schedules: the outcome of the real gateway = Model.Publish.run on the same step order (%d schedules)" % len(mcases), not ms, [mcases[int(i)][1] for i in ms[:5]])


def replay(chk, data):
    print(json.dumps(data.get("replay"), indent=1, default=str))
    return 0
