"""C11 — A gateway crash never leaves a half-written or vanished object (DESIGN.md §7 C11)."""
import json, os
from vlib import common, coq, gobuild, gw, s3c, e2e, hooks
from vlib.common import coq_list
from props.c05 import body_of, write_headers, classify

THEOREMS = ["C11_crash_leaves_old_or_new", "C11_acknowledged_writes_survive", "C11_recovery_is_possible", "C11_versioned_delete_keeps_version", "C11_versioned_delete_frame", "C11_marker_first_order_refuted", "C11_directory_object_first_upload_atomic", "C11_directory_object_overwrite_refuted",
            "C11_delete_current_version_atomic", "C11_delete_current_version_completes", "C11_remove_first_order_refuted", "C11_versioned_delete_atomic"]
TARGETS = ["Properties/C11.vo", "Check/CrashCheck.vo"]
CONFIGS = [("otmpfile+xattr", {"iam": False}), ("named-temp+xattr", {"iam": False, "otmp": False}), ("otmpfile+xattr+versioned", {"iam": False, "versioning": True}),
           ("otmpfile+sidecar", {"iam": False, "meta": "sidecar"}), ("named-temp+sidecar", {"iam": False, "otmp": False, "meta": "sidecar"}),
           ("named-temp+xattr+versioned", {"iam": False, "otmp": False, "versioning": True}), ("otmpfile+sidecar+versioned", {"iam": False, "meta": "sidecar", "versioning": True})]
PUT_SITES = ["posix.putobject.bodywritten", "posix.objversion.copied", "posix.objversion.stored", "posix.putobject.beforelink", "posix.link.enter", "posix.link.named", "posix.link.beforerename",
             "posix.link.published", "posix.putobject.linked", "posix.putobject.done"]
CMU_SITES = ["posix.objversion.copied", "posix.objversion.stored", "posix.cmu.beforelink", "posix.link.enter", "posix.link.named", "posix.link.beforerename", "posix.link.published", "posix.cmu.linked", "posix.cmu.beforecleanup"]
PART_SITES = ["posix.link.enter", "posix.link.named", "posix.link.beforerename", "posix.link.published"]
DEL_SITES = ["posix.deleteobject.beforeremove", "posix.deleteobject.removed", "posix.objversion.copied", "posix.objversion.stored", "posix.deleteobject.marker.between", "posix.deleteobject.marker.set"]
# model step index of the site within its operation (Model/Crash.v): the number of steps completed when the process dies
STEP_OF = {"posix.putobject.bodywritten": 1, "posix.objversion.copied": 1, "posix.objversion.stored": 2, "posix.putobject.beforelink": 2, "posix.cmu.beforelink": 2, "posix.link.enter": 2, "posix.link.named": 2,
           "posix.link.beforerename": 2, "posix.link.published": 3, "posix.putobject.linked": 3, "posix.putobject.done": 3, "posix.cmu.linked": 3, "posix.cmu.beforecleanup": 3,
           "posix.deleteobject.beforeremove": 0, "posix.deleteobject.removed": 1}


def run(chk):
    quick = chk.tier == "quick"
    chk.rule = ("a case is (storage configuration, operation, kill point): configurations = temp-file strategy x metadata store x versioning (4 in the quick tier, 7 in "
                "the thorough one); operations = PutObject on a new key / over an existing object, CopyObject over an existing object, multipart completion on a new "
                "key / over an existing object, UploadPart (incl. re-upload), DeleteObject (in versioned buckets also of the current version by its id, which promotes the version before it); kill points = every verifhook site on the operation's path (the gateway "
                "SIGKILLs itself there). After the restart: the key reads as the complete previous or the complete new state (body, length, ETag, content-type, user "
                "metadata, tag all of one write); listings show no stray keys, uploads or duplicate versions; the current version can be deleted by id; a new write, a delete and finally DeleteBucket succeed. "
                "Non-trivial: the kill point was reached (the request got no answer); distinct by the tuple.")
    gwbin = gobuild.build_gateway("verif")
    built = coq.ensure_built(chk, TARGETS)
    if built:
        coq.check_assumptions(chk, "Properties.C11", THEOREMS)
    mcases = []
    dcases = []          # directory-object uploads: (existing, attribute writes completed, class 0 missing / 1 old / 2 new / 9 neither)
    vcases = []          # DeleteObject in a versioned bucket: (steps completed, key still reads the old data, the old version still shown)
    VSTEP_OF = {"posix.objversion.stored": 1, "posix.deleteobject.marker.between": 2, "posix.deleteobject.marker.set": 3}
    pcases = []          # DeleteObject ?versionId=<current>: (steps completed, what the key reads: 2 current / 1 previous / 0 nothing / 9 else, entries listed)
    PSTEP_OF = {"posix.link.enter": 1, "posix.link.named": 1, "posix.link.beforerename": 1, "posix.link.published": 2}
    nb = [0]
    for label, cfg in (CONFIGS[:4] if quick else CONFIGS):
        versioned = bool(cfg.get("versioning"))
        with gw.Site(cfg, name="c11") as site:
            hk = hooks.Hooks(site.base)
            g = site.gateway(gwbin, extra_env=hk.env())
            def client(): return s3c.Client(g.port, "root", "rootsecret")

            def scenario(opname, site_, wid):
                """returns a dict describing the case, or None when the kill point is not on this operation's path"""
                nonlocal g
                nb[0] += 1; bk = "cr%05d" % nb[0]; key = "dir/obj"; path = "/%s/%s" % (bk, key)
                R = client()
                r_ = R.req("PUT", "/" + bk); chk.require(r_.status == 200, "c11:setup", "CreateBucket failed: %d %s %s alive=%s poll=%s log=%s trace=%s" % (r_.status, r_.code, getattr(r_, "error", ""), g.alive(), g.proc.poll(), g.log_tail(300), hk.trace()[-5:]) + " pid=%s ps=%s" % (g.proc.pid, os.popen("ps -eo pid,ppid,etimes,cmd | grep versitygw-verif | grep -v grep").read()))
                # "-prever": the object under the key was stored before versioning was enabled (it is the null version)
                prever = opname.endswith("-prever"); opname = opname[:-7] if prever else opname
                # "-suspended": a null version from before versioning, a version with an id on top of it (current), versioning then suspended:
                # the overwrite replaces the stored null version by the new null object and archives the current version
                suspended = opname.endswith("-suspended"); opname = opname[:-10] if suspended else opname
                nullw = 500000 + 2 * wid
                if suspended:
                    chk.require(R.req("PUT", path, body=body_of(nullw), headers=write_headers(nullw)).status == 200, "c11:setup", "PUT before versioning failed")
                if versioned and not prever:
                    R.req("PUT", "/" + bk, query={"versioning": ""}, body=b"<VersioningConfiguration><Status>Enabled</Status></VersioningConfiguration>")
                old, new = 2 * wid, 2 * wid + 1
                existing = not opname.endswith("-new")
                old_vid = None
                if existing:
                    r0_ = R.req("PUT", path, body=body_of(old), headers=write_headers(old))
                    chk.require(r0_.status == 200, "c11:setup", "initial PUT failed")
                    old_vid = r0_.headers.get("x-amz-version-id") or ("null" if prever else None)
                if versioned and prever:
                    R.req("PUT", "/" + bk, query={"versioning": ""}, body=b"<VersioningConfiguration><Status>Enabled</Status></VersioningConfiguration>")
                if suspended:
                    R.req("PUT", "/" + bk, query={"versioning": ""}, body=b"<VersioningConfiguration><Status>Suspended</Status></VersioningConfiguration>")
                uid = None
                if opname.startswith("multipart") or opname.startswith("uploadpart"):
                    r0 = R.req("POST", path, query={"uploads": ""}, headers=write_headers(new)); uid = r0.xml().findtext("UploadId")
                    if opname.startswith("multipart") or opname == "uploadpart-again":
                        rp = R.req("PUT", path, query={"partNumber": "1", "uploadId": uid}, body=body_of(new if opname.startswith("multipart") else old))
                        petag = rp.headers.get("etag", "")
                if opname == "copy":
                    R.req("PUT", "/%s/src" % bk, body=body_of(new), headers=write_headers(new))
                mid_vid = None
                if opname == "delete-version":
                    # the key has two versions; the current one ("new") is deleted by its id, which makes the older one ("old") current again
                    r1_ = R.req("PUT", path, body=body_of(new), headers=write_headers(new))
                    chk.require(r1_.status == 200, "c11:setup", "second PUT failed")
                    mid_vid = r1_.headers.get("x-amz-version-id")
                # fresh process (fresh passage counters), armed
                g.restart(); hk.clear(); hk.crash_at(site_, 1); R = client()
                if opname.startswith("put"): r = R.req("PUT", path, body=body_of(new), headers=write_headers(new))
                elif opname == "copy": r = R.req("PUT", path, headers={"x-amz-copy-source": "%s/src" % bk})
                elif opname.startswith("multipart"):
                    r = R.req("POST", path, query={"uploadId": uid}, body=("<CompleteMultipartUpload><Part><PartNumber>1</PartNumber><ETag>%s</ETag></Part></CompleteMultipartUpload>" % petag).encode())
                elif opname.startswith("uploadpart"): r = R.req("PUT", path, query={"partNumber": "1", "uploadId": uid}, body=body_of(new))
                elif opname == "delete-version": r = R.req("DELETE", path, query={"versionId": mid_vid})
                else: r = R.req("DELETE", path)
                if r.status == -1:
                    try: g.proc.wait(timeout=3)          # the kill is in flight when the connection drops
                    except Exception: pass
                crashed = not g.alive()
                hk.clear()
                if not crashed:
                    R.req("DELETE", path); return None
                g.restart(); R = client()
                row = {"config": label, "operation": opname + ("-prever" if prever else "") + ("-suspended" if suspended else ""), "killed_at": site_, "request_answer": r.status}
                problems = []
                # ---- (a) the key: complete previous or complete new state
                if opname.startswith("uploadpart"):
                    lp = R.req("GET", path, query={"uploadId": uid})
                    parts = [(p.findtext("PartNumber"), e2e.etag_clean(p.findtext("ETag")), int(p.findtext("Size"))) for p in lp.xml().findall("Part")] if lp.status == 200 and lp.xml() is not None else None
                    import hashlib
                    okold = [("1", hashlib.md5(body_of(old)).hexdigest(), len(body_of(old)))] if opname == "uploadpart-again" else []
                    oknew = [("1", hashlib.md5(body_of(new)).hexdigest(), len(body_of(new)))]
                    state = "old" if parts == okold else "new" if parts == oknew else "broken"
                    if state == "broken": problems.append("ListParts after the restart shows %r: neither the previous part nor the complete new one" % (parts,))
                    lu = R.req("GET", "/" + bk, query={"uploads": ""})
                    ups = [(u.findtext("Key"), u.findtext("UploadId")) for u in lu.xml().findall("Upload")] if lu.status == 200 and lu.xml() is not None else None
                    if ups != [(key, uid)]: problems.append("ListMultipartUploads after the restart shows %r, expected the one upload in progress %r" % (ups, [(key, uid)]))
                    rc = R.req("PUT", path, query={"partNumber": "1", "uploadId": uid}, body=body_of(new))
                    if rc.status != 200: problems.append("the part cannot be uploaded again after the restart: %d %s" % (rc.status, rc.code))
                    R.req("DELETE", path, query={"uploadId": uid})
                else:
                    gr = R.req("GET", path); c = classify(gr)
                    state = "missing" if c[0] == "missing" else "old" if c == ("write", old) else "new" if c == ("write", new) else "broken"
                    allowed = {"delete": {"old", "missing"}}.get(opname, {"old", "new"} if existing else {"missing", "new"})
                    row["state"] = state
                    if state not in allowed:
                        problems.append("after the restart the key reads as %s%s; admissible: %s" % (state, "" if state != "broken" else " (%s)" % (c[1:],), sorted(allowed)))
                    # ---- (b) nothing else is visible
                    ls = R.req("GET", "/" + bk, query={"list-type": "2"})
                    keys = sorted(x.findtext("Key") for x in ls.xml().findall("Contents")) if ls.status == 200 and ls.xml() is not None else None
                    expect = sorted(([key] if state in ("old", "new", "broken") else []) + (["src"] if opname == "copy" else []))
                    if keys != expect: problems.append("ListObjectsV2 after the restart shows %r, expected %r" % (keys, expect))
                    if versioned:
                        lv = R.req("GET", "/" + bk, query={"versions": "", "prefix": key})
                        ids = [x.findtext("VersionId") for x in list(lv.xml().findall("Version")) + list(lv.xml().findall("DeleteMarker"))] if lv.status == 200 and lv.xml() is not None else []
                        if len(ids) != len(set(ids)): problems.append("ListObjectVersions after the restart shows a version id twice: %r" % ids)
                        if "null" in ids and not prever and not suspended: problems.append("ListObjectVersions after the restart shows a null version although every write happened with versioning enabled: %r" % ids)
                        latest = [x.findtext("VersionId") for x in list(lv.xml().findall("Version")) + list(lv.xml().findall("DeleteMarker")) if x.findtext("IsLatest") == "true"] if lv.status == 200 and lv.xml() is not None else []
                        if ids and len(latest) != 1: problems.append("ListObjectVersions after the restart flags %d entries as latest" % len(latest))
                    if versioned and existing and old_vid:
                        # ---- (b0) the version the operation replaces (or hides behind a delete marker) is still there under its id
                        gv0 = R.req("GET", path, query={"versionId": old_vid})
                        listed0 = old_vid in [x.findtext("VersionId") for x in lv.xml().findall("Version")] if lv.status == 200 and lv.xml() is not None else False
                        if gv0.status != 200 or gv0.body != body_of(old) or not listed0:
                            problems.append("after the restart the version %s written before the %s (acknowledged) is %s: GET by its id answers %d %s, ListObjectVersions lists %r" % (
                                old_vid, opname, "gone" if gv0.status != 200 else "altered" if gv0.body != body_of(old) else "not listed", gv0.status, gv0.code, ids))
                        if suspended:
                            # ---- (b0s) the null version: the one stored before versioning until the new object is published, the new object afterwards
                            gn_ = R.req("GET", path, query={"versionId": "null"}); cn_ = classify(gn_)
                            wantn = ("write", nullw) if state == "old" else ("write", new)
                            if state in ("old", "new") and cn_ != wantn:
                                problems.append("after the restart the key reads as the %s state but GET ?versionId=null answers %d %s %s; the null version is write %d" % (
                                    "previous" if state == "old" else "new", gn_.status, gn_.code, cn_[:2], wantn[1]))
                        if opname == "delete-version" and site_ in PSTEP_OF:
                            row["pcase"] = (PSTEP_OF[site_], {"new": 2, "old": 1, "missing": 0}.get(state, 9), len(ids))
                        if opname == "delete" and not suspended and site_ in VSTEP_OF:
                            row["vcase"] = (VSTEP_OF[site_], state == "old", gv0.status == 200 and gv0.body == body_of(old) and listed0)
                    # every other case goes straight to emptying and deleting the bucket: what the killed request left behind must not
                    # need another request on the same key to be cleared away
                    direct = wid % 2 == 1
                    row["then"] = "bucket emptied and deleted at once" if direct else "later requests on the key, then bucket emptied and deleted"
                    if state == "missing" and not direct and not (versioned and ids):
                        # ---- (b3) the name of the key's parent directory can be used as a key (unless the key still has versions or a delete marker)
                        pp = "/%s/dir" % bk
                        rq_ = R.req("PUT", pp, body=b"parent-name-as-key")
                        gq_ = R.req("GET", pp)
                        if rq_.status != 200 or gq_.status != 200 or gq_.body != b"parent-name-as-key":
                            problems.append("after the restart (nothing is listed) a PUT of the key 'dir' answers %d %s, GET %d" % (rq_.status, rq_.code, gq_.status))
                        if versioned:
                            lq_ = R.req("GET", "/" + bk, query={"versions": "", "prefix": "dir"})
                            for x in (list(lq_.xml().findall("Version")) + list(lq_.xml().findall("DeleteMarker")) if lq_.status == 200 and lq_.xml() is not None else []):
                                if x.findtext("Key") == "dir": R.req("DELETE", pp, query={"versionId": x.findtext("VersionId")})
                        R.req("DELETE", pp)
                    if opname.startswith("multipart") and state != "new":
                        # the upload must still be completable
                        rc = R.req("POST", path, query={"uploadId": uid}, body=("<CompleteMultipartUpload><Part><PartNumber>1</PartNumber><ETag>%s</ETag></Part></CompleteMultipartUpload>" % petag).encode())
                        if rc.status != 200 or classify(R.req("GET", path)) != ("write", new):
                            problems.append("the multipart upload cannot be completed after the restart (%d %s)" % (rc.status, rc.code))
                    if versioned and state in ("old", "new") and not direct and opname in ("put-overwrite", "copy", "multipart-overwrite"):
                        # ---- (b1a) the current version (of which the killed request may have left an archived copy behind), its tags replaced
                        # in place by PutObjectTagging, is archived with the new tags by the next overwrite
                        c1_ = classify(R.req("GET", path))
                        wcur = c1_[1] if c1_[0] == "write" else None
                        hv0_ = R.req("HEAD", path); cid0_ = hv0_.headers.get("x-amz-version-id")
                        rt_ = R.req("PUT", path, query={"tagging": ""}, body=b"<Tagging><TagSet><Tag><Key>gen</Key><Value>2</Value></Tag><Tag><Key>second</Key><Value>tag</Value></Tag></TagSet></Tagging>")
                        nw0_ = 700000 + nb[0]
                        rp0_ = R.req("PUT", path, body=body_of(nw0_), headers=write_headers(nw0_))
                        if wcur is not None and rt_.status in (200, 204) and rp0_.status == 200 and cid0_ and cid0_ != "null":
                            # (GetObjectTagging takes no version id in this gateway: the number of tags of the version is read from GET ?versionId)
                            gt_ = R.req("GET", path, query={"versionId": cid0_})
                            if gt_.status != 200 or gt_.body != body_of(wcur) or gt_.headers.get("x-amz-tagging-count") != "2":
                                problems.append("after the restart the current version had its tags replaced by two tags (PutObjectTagging, acknowledged) and was then overwritten (acknowledged): GET by its id answers %d with %s and x-amz-tagging-count %s" % (
                                    gt_.status, "its own bytes" if gt_.body == body_of(wcur) else "other bytes", gt_.headers.get("x-amz-tagging-count")))
                        # ---- (b1) the (now) current version, copied onto itself with new metadata, is a version of its own when the next overwrite archives it
                        c1_ = classify(R.req("GET", path))
                        wcur = c1_[1] if c1_[0] == "write" else None
                        hd_ = dict(write_headers(wcur if wcur is not None else 0)); hd_.update({"x-amz-copy-source": "%s/%s" % (bk, key), "x-amz-metadata-directive": "REPLACE", "x-amz-tagging-directive": "REPLACE", "x-amz-meta-gen": "2"})
                        rs_ = R.req("PUT", path, headers=hd_) if wcur is not None else R.req("HEAD", path + "-none")
                        hv_ = R.req("HEAD", path); cid_ = hv_.headers.get("x-amz-version-id")
                        nw_ = 800000 + nb[0]
                        rp2_ = R.req("PUT", path, body=body_of(nw_), headers=write_headers(nw_))
                        if rs_.status == 200 and rp2_.status == 200 and cid_:
                            ga_ = R.req("GET", path, query={"versionId": cid_})
                            if ga_.status != 200 or ga_.body != body_of(wcur) or e2e.meta_of(ga_.headers).get("gen") != "2":
                                problems.append("after the restart the current version had its metadata replaced (self-copy, acknowledged) and was then overwritten (acknowledged): read by its id it answers %d with %s and metadata %r, not the replaced metadata" % (
                                    ga_.status, "its own bytes" if ga_.body == body_of(wcur) else "other bytes", e2e.meta_of(ga_.headers)))
                        lv = R.req("GET", "/" + bk, query={"versions": "", "prefix": key})
                    if versioned and state in ("old", "new") and not direct and lv.status == 200 and lv.xml() is not None:
                        # ---- (b2) the current version can be deleted by its id, and is then gone
                        cur = [x.findtext("VersionId") for x in lv.xml().findall("Version") if x.findtext("IsLatest") == "true"]
                        if cur:
                            dv = R.req("DELETE", path, query={"versionId": cur[0]})
                            gv = R.req("GET", path, query={"versionId": cur[0]})
                            lv2 = R.req("GET", "/" + bk, query={"versions": "", "prefix": key})
                            ids2 = [x.findtext("VersionId") for x in lv2.xml().findall("Version")] if lv2.status == 200 and lv2.xml() is not None else []
                            if dv.status == 204 and (gv.status == 200 or cur[0] in ids2):
                                problems.append("after the restart DELETE ?versionId=<current version> answers 204 but the version is still %s" % (
                                    "served" if gv.status == 200 else "listed"))
                            elif dv.status != 204:
                                problems.append("after the restart the current version cannot be deleted by id: %d %s" % (dv.status, dv.code))
                    # ---- (c) later operations work
                    newer = 900000 + nb[0]
                    if not direct:
                        rp_ = R.req("PUT", path, body=body_of(newer), headers=write_headers(newer))
                        if rp_.status != 200 or classify(R.req("GET", path)) != ("write", newer):
                            problems.append("a later PUT of the key answers %d %s / reads %s" % (rp_.status, rp_.code, classify(R.req("GET", path))))
                        if R.req("DELETE", path).status != 204: problems.append("a later DELETE of the key fails")
                # empty the bucket through the API and delete it
                for x in (R.req("GET", "/" + bk, query={"uploads": ""}).xml() or []):
                    if x.tag == "Upload": R.req("DELETE", "/%s/%s" % (bk, x.findtext("Key")), query={"uploadId": x.findtext("UploadId")})
                for _ in range(3):
                    lv = R.req("GET", "/" + bk, query={"versions": ""}) if versioned else None
                    if lv is not None and lv.status == 200 and lv.xml() is not None:
                        for x in list(lv.xml().findall("Version")) + list(lv.xml().findall("DeleteMarker")):
                            R.req("DELETE", "/%s/%s" % (bk, x.findtext("Key")), query={"versionId": x.findtext("VersionId")})
                    ls = R.req("GET", "/" + bk, query={"list-type": "2"})
                    for x in (ls.xml().findall("Contents") if ls.status == 200 and ls.xml() is not None else []):
                        R.req("DELETE", "/%s/%s" % (bk, x.findtext("Key")))
                db = R.req("DELETE", "/" + bk)
                if db.status != 204: problems.append("DeleteBucket of the emptied bucket answers %d %s" % (db.status, db.code))
                row["problems"] = problems
                return row

            wid = 0
            for opname, sites in (("put-new", PUT_SITES), ("put-overwrite", PUT_SITES), ("copy", PUT_SITES), ("multipart-new", CMU_SITES), ("multipart-overwrite", CMU_SITES),
                                  ("uploadpart-new", PART_SITES), ("uploadpart-again", PART_SITES), ("delete", DEL_SITES)) + (
                                  (("put-overwrite-prever", PUT_SITES), ("multipart-overwrite-prever", CMU_SITES), ("delete-prever", DEL_SITES), ("delete-version", PART_SITES),
                                   ("put-overwrite-suspended", PUT_SITES), ("multipart-overwrite-suspended", CMU_SITES), ("delete-suspended", DEL_SITES)) if versioned else ()):
                for s_ in sites:
                    wid += 1
                    row = scenario(opname, s_, wid)
                    chk.case((label, opname, s_), row is not None)
                    if row is None:
                        chk.count("%s:%s:not-on-path" % (label, opname)); continue
                    chk.traces += 1; chk.count("%s:%s:%s" % (label, opname, row.get("state", "part")))
                    for pr in row["problems"]:
                        kind = "state" if "reads as" in pr or "ListParts" in pr else "listing" if "List" in pr else "recovery"
                        sidecar = cfg.get("meta") == "sidecar"
                        # (with the sidecar store the attributes are files keyed by the object's name: one finding per operation, whatever the kill point)
                        # ("-prever" / "-suspended" only say what was under the key before; the mechanism and the finding are the operation's)
                        baseop = opname[:-7] if opname.endswith("-prever") else opname[:-10] if opname.endswith("-suspended") else opname
                        chk.fail("c11:state:sidecar:%s" % baseop if sidecar and (kind == "state" or (kind == "listing" and "is altered" in pr)) else "c11:%s:%s:%s:%s" % (kind, opname, s_.split(".", 1)[1], label.split("+")[1] + ("+versioned" if versioned else "")),
                                 "[%s] %s killed at %s: %s" % (label, opname, s_, pr), row)
                    if "vcase" in row and cfg.get("meta") != "sidecar":      # (the sidecar store's attributes are not bound to the file: listed findings)
                        vcases.append((row["vcase"], row))
                    if "pcase" in row and cfg.get("meta") != "sidecar":
                        pcases.append((row["pcase"], row))
                    if "state" in row and s_ in STEP_OF and not versioned and cfg.get("meta") != "sidecar" and opname in ("put-new", "put-overwrite", "copy", "multipart-new", "multipart-overwrite", "delete"):
                        mcases.append(((0 if opname == "delete" else 1, not opname.endswith("-new"), STEP_OF[s_], {"old": 1, "new": 2, "missing": 0}.get(row["state"], 9)), row))
            # ---- directory objects: PutObject of a key ending in "/" writes its attributes one by one onto the directory (no temporary
            # file, no rename); killed after the n-th attribute write
            if "sidecar" not in label or not quick:
                for existing in (False, True):
                    for n in range(1, 10):
                        nb[0] += 1; bk = "cd%05d" % nb[0]; key = "dir/sub/"; path = "/%s/%s" % (bk, key)
                        R = client(); chk.require(R.req("PUT", "/" + bk).status == 200, "c11:setup", "CreateBucket failed")
                        old_md, new_md = {"write": "old", "only-old": "1", "both": "o"}, {"write": "new", "only-new": "2", "both": "n"}
                        if existing:
                            chk.require(R.req("PUT", path, body=b"", headers={"x-amz-meta-" + k_: v_ for k_, v_ in old_md.items()}).status == 200, "c11:setup", "initial PUT of the directory object failed")
                        g.restart(); hk.clear(); hk.crash_at("posix.putobject.dirattr", n); R = client()
                        r = R.req("PUT", path, body=b"", headers={"x-amz-meta-" + k_: v_ for k_, v_ in new_md.items()})
                        if r.status == -1:
                            try: g.proc.wait(timeout=3)
                            except Exception: pass
                        crashed = not g.alive(); hk.clear()
                        opname = "dirobj-overwrite" if existing else "dirobj-new"
                        chk.case((label, opname, n), crashed)
                        if not crashed:
                            R.req("DELETE", path); R.req("DELETE", "/" + bk); chk.count("%s:%s:not-on-path" % (label, opname)); break
                        g.restart(); R = client()
                        ls = R.req("GET", "/" + bk, query={"list-type": "2"})
                        keys = sorted(x.findtext("Key") for x in ls.xml().findall("Contents")) if ls.status == 200 and ls.xml() is not None else None
                        hd = R.req("HEAD", path); md = e2e.meta_of(hd.headers) if hd.status == 200 else None
                        state = "missing" if keys == [] else "broken" if keys != [key] else "old" if md == old_md else "new" if md == new_md else "broken"
                        row = {"config": label, "operation": opname, "killed_after_attribute_write": n, "request_answer": r.status, "listed": keys, "user_metadata_after_restart": md, "state": state}
                        chk.traces += 1; chk.count("%s:%s:%s" % (label, opname, state))
                        dcases.append(((existing, n, {"missing": 0, "old": 1, "new": 2}.get(state, 9)), row))
                        allowed = {"old", "new"} if existing else {"missing", "new"}
                        if state not in allowed:
                            chk.fail("c11:state:%s" % opname, "[%s] PutObject of the directory object %s killed after its attribute write no. %d: after the restart the key is listed as %r with user metadata %r; "
                                     "the previous upload had %r, the killed one %r" % (label, key, n, keys, md, old_md if existing else None, new_md), row)
                        rp_ = R.req("PUT", path, body=b"", headers={"x-amz-meta-later": "3"})
                        h2 = R.req("HEAD", path)
                        if rp_.status != 200 or e2e.meta_of(h2.headers) != {"later": "3"}:
                            chk.fail("c11:recovery:%s:%s" % (opname, label.split("+")[1]), "[%s] after the restart a later PUT of the directory object answers %d and reads metadata %r" % (label, rp_.status, e2e.meta_of(h2.headers)), row)
                        R.req("DELETE", path)
                        db = R.req("DELETE", "/" + bk)
                        if db.status != 204:
                            chk.fail("c11:recovery:%s:%s" % (opname, label.split("+")[1]), "[%s] after the restart, the later PUT and DELETE of the key, DeleteBucket answers %d %s" % (label, db.status, db.code), row)
            chk.tie("gateway restarts after every kill (%s)" % label, g.alive(), g.log_tail())
    if built:
        text = ("From Coq Require Import List Arith Bool ZArith.\nFrom VGW Require Import Model.Crash Check.Common Check.CrashCheck.\nImport ListNotations.\n")
        text += "Definition cases : list (nat * bool * nat * Z) := " + coq_list(["(%d, %s, %d, %d%%Z)" % (k, "true" if ex else "false", st, z) for (k, ex, st, z), _ in mcases]) + ".\n"
        text += "Definition MS := Eval vm_compute in bad case_ok cases.\nPrint MS.\n"
        text += "Definition vcases : list (nat * bool * bool) := " + coq_list(["(%d, %s, %s)" % (k, "true" if a else "false", "true" if b else "false") for (k, a, b), _ in vcases]) + ".\n"
        text += "Definition VS := Eval vm_compute in bad vcase_ok vcases.\nPrint VS.\n"
        text += "Definition pcases : list (nat * nat * nat) := " + coq_list(["(%d, %d, %d)" % c_ for c_, _ in pcases]) + ".\n"
        text += "Definition PS := Eval vm_compute in bad pcase_ok pcases.\nPrint PS.\n"
        text += "Definition dcases : list (bool * nat * nat) := " + coq_list(["(%s, %d, %d)" % ("true" if ex else "false", n_, cl) for (ex, n_, cl), _ in dcases]) + ".\n"
        text += "Definition DS := Eval vm_compute in bad dcase_ok dcases.\nPrint DS.\n"
        rc, out = coq.run_cases("C11_cases", text)
        ms = coq.printed_list(out, "MS")
        if rc != 0 or ms is None:
            chk.tie("case file evaluates", False, out[-2000:])
        else:
            chk.tie("T4 kill points: the state the real gateway comes back with = Model.Crash on the same step count (%d kills)" % len(mcases), not ms, [mcases[int(i)][1] for i in ms[:5]])
            vs = coq.printed_list(out, "VS")
            chk.tie("T4 kill points of a versioned DeleteObject: what the key reads and whether the hidden version is still shown = Model.CrashVersions (%d kills)" % len(vcases),
                    vs is not None and not vs and len(vcases) >= 1, [vcases[int(i)][1] for i in (vs or [])[:5]] or "no kill reached")
            ps = coq.printed_list(out, "PS")
            chk.tie("T4 kill points of DeleteObject ?versionId=<current>: what the key reads and how many entries are listed = Model.CrashPromote (%d kills)" % len(pcases),
                    ps is not None and not ps and len(pcases) >= 1, [pcases[int(i)][1] for i in (ps or [])[:5]] or "no kill reached")
            ds = coq.printed_list(out, "DS")
            chk.tie("T4 kill points of directory-object uploads: nothing listed / old / new / neither after the n-th attribute write = Model.CrashDirObj (%d kills)" % len(dcases),
                    ds is not None and not ds and len(dcases) >= 4, [dcases[int(i)][1] for i in (ds or [])[:5]] or "no kill reached")


def replay(chk, data):
    print(json.dumps(data.get("replay"), indent=1, default=str))
    return 0
