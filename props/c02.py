"""C02 — No request takes effect without a valid signature (DESIGN.md §7 C02)."""
import datetime, hashlib, json, subprocess
from vlib import common, coq, gobuild, gw, s3c, e2e
from vlib.common import coq_str, coq_list, coq_bool

THEOREMS = ["C02_gated", "C02_parse_authorization_total", "C02_valid_proof_passes"]
TARGETS = ["Properties/C02.vo", "Check/AuthCheck.vo"]
MARKER = b"SECRETDATA-7f3a9"

POLICY = json.dumps({"Statement": [{"Effect": "Allow", "Principal": "*", "Action": "s3:GetObject", "Resource": "arn:aws:s3:::bk1/*"}]}).encode()
TAGGING = b"<Tagging><TagSet><Tag><Key>k</Key><Value>v</Value></Tag></TagSet></Tagging>"
VERSIONING = b"<VersioningConfiguration><Status>Enabled</Status></VersioningConfiguration>"
OWNERSHIP = b"<OwnershipControls><Rule><ObjectOwnership>BucketOwnerPreferred</ObjectOwnership></Rule></OwnershipControls>"
ACLBODY = b'<AccessControlPolicy><Owner><ID>root</ID></Owner><AccessControlList><Grant><Grantee xmlns:xsi="http://www.w3.org/2001/XMLSchema-instance" xsi:type="CanonicalUser"><ID>root</ID></Grantee><Permission>FULL_CONTROL</Permission></Grant></AccessControlList></AccessControlPolicy>'
DELETE_OBJS = b"<Delete><Object><Key>obj</Key></Object><Object><Key>obj2</Key></Object></Delete>"
LEGALHOLD = b"<LegalHold><Status>ON</Status></LegalHold>"
RETENTION = b"<Retention><Mode>GOVERNANCE</Mode><RetainUntilDate>2035-01-01T00:00:00Z</RetainUntilDate></Retention>"
LOCKCFG = b"<ObjectLockConfiguration><ObjectLockEnabled>Enabled</ObjectLockEnabled></ObjectLockConfiguration>"
NEWUSER = b"<Account><Access>evil</Access><Secret>evilsecret</Secret><Role>admin</Role><UserID>0</UserID><GroupID>0</GroupID></Account>"


def endpoints(upload_id):
    """(name, method, path, query, body, headers): every route and subresource of the S3 and admin APIs"""
    E = []
    def add(name, method, path, query=None, body=b"", headers=None):
        E.append((name, method, path, query or {}, body, headers or {}))
    add("ListBuckets", "GET", "/")
    add("CreateBucket", "PUT", "/newbkt")
    add("CreateBucket/", "PUT", "/newbkt2/")
    for sub, body in (("acl", ACLBODY), ("policy", POLICY), ("tagging", TAGGING), ("versioning", VERSIONING), ("object-lock", LOCKCFG),
                      ("ownershipControls", OWNERSHIP)):
        add("PutBucket?" + sub, "PUT", "/bk1", {sub: ""}, body)
        add("PutBucket/?" + sub, "PUT", "/bk1/", {sub: ""}, body)
    add("DeleteBucket", "DELETE", "/bk2")
    for sub in ("policy", "tagging", "ownershipControls"):
        add("DeleteBucket?" + sub, "DELETE", "/bk1", {sub: ""})
    add("HeadBucket", "HEAD", "/bk1")
    add("ListObjects", "GET", "/bk1")
    add("ListObjectsV2", "GET", "/bk1", {"list-type": "2"})
    for sub in ("versions", "uploads", "acl", "policy", "tagging", "versioning", "object-lock", "ownershipControls"):
        add("GetBucket?" + sub, "GET", "/bk1", {sub: ""})
    add("HeadObject", "HEAD", "/bk1/obj")
    add("GetObject", "GET", "/bk1/obj")
    add("GetObject-range", "GET", "/bk1/obj", headers={"Range": "bytes=0-5"})
    for sub in ("acl", "tagging", "retention", "legal-hold", "attributes"):
        add("GetObject?" + sub, "GET", "/bk1/obj", {sub: ""}, headers={"x-amz-object-attributes": "ETag"} if sub == "attributes" else None)
    add("ListParts", "GET", "/bk1/mp", {"uploadId": upload_id})
    add("DeleteObject", "DELETE", "/bk1/obj")
    add("DeleteObjectTagging", "DELETE", "/bk1/obj", {"tagging": ""})
    add("AbortMultipartUpload", "DELETE", "/bk1/mp", {"uploadId": upload_id})
    add("DeleteObjects", "POST", "/bk1", {"delete": ""}, DELETE_OBJS)
    add("CreateMultipartUpload", "POST", "/bk1/newmp", {"uploads": ""})
    add("CompleteMultipartUpload", "POST", "/bk1/mp", {"uploadId": upload_id},
        b"<CompleteMultipartUpload><Part><PartNumber>1</PartNumber><ETag>%s</ETag></Part></CompleteMultipartUpload>" % hashlib.md5(b"part-one").hexdigest().encode())
    add("RestoreObject", "POST", "/bk1/obj", {"restore": ""}, b"<RestoreRequest><Days>1</Days></RestoreRequest>")
    add("PutObject", "PUT", "/bk1/newobj", body=b"new-content")
    add("PutObject-overwrite", "PUT", "/bk1/obj", body=b"overwritten")
    add("PutObject-empty", "PUT", "/bk1/newempty")
    add("PutObject-dir", "PUT", "/bk1/newdir/")
    add("PutObjectTagging", "PUT", "/bk1/obj", {"tagging": ""}, TAGGING)
    add("PutObjectAcl", "PUT", "/bk1/obj", {"acl": ""}, ACLBODY)
    add("PutObjectRetention", "PUT", "/bk1/obj", {"retention": ""}, RETENTION)
    add("PutObjectLegalHold", "PUT", "/bk1/obj", {"legal-hold": ""}, LEGALHOLD)
    add("CopyObject", "PUT", "/bk1/copied", headers={"x-amz-copy-source": "bk1/obj"})
    add("UploadPart", "PUT", "/bk1/mp", {"partNumber": "2", "uploadId": upload_id}, b"part-two")
    add("UploadPartCopy", "PUT", "/bk1/mp", {"partNumber": "3", "uploadId": upload_id}, headers={"x-amz-copy-source": "bk1/obj"})
    add("admin:create-user", "PATCH", "/create-user", body=NEWUSER)
    add("admin:delete-user", "PATCH", "/delete-user", {"access": "victim"})
    add("admin:update-user", "PATCH", "/update-user", {"access": "victim"}, b"<MutableProps><Secret>pwned</Secret></MutableProps>")
    add("admin:list-users", "PATCH", "/list-users")
    add("admin:change-bucket-owner", "PATCH", "/change-bucket-owner", {"bucket": "bk1", "owner": "victim"})
    add("admin:list-buckets", "PATCH", "/list-buckets")
    return E


DEFECTS = ["none", "duplicated-signed-header", "no-auth", "malformed-auth", "unknown-key", "wrong-secret", "flipped-signature", "altered-signed-header", "altered-query",
           "appended-query-semicolon", "appended-query-bad-escape",
           "altered-payload", "skewed-date", "wrong-region", "wrong-service", "missing-date", "presigned-ok", "presigned-expired",
           "presigned-modified", "presigned-wrong-secret", "presigned-repeated-param", "presigned-appended-behind-hash", "presigned-path-encoded-twice", "chunked-wrong-secret", "unsigned-trailer-wrong-secret", "chunked-forged-truncated"]
# the error code the middleware chain must answer with (model: Model/Auth.v); None = any 4xx
EXPECT = {"no-auth": "InvalidArgument", "malformed-auth": "MissingFields", "unknown-key": "InvalidAccessKeyId", "wrong-secret": "SignatureDoesNotMatch",
          "flipped-signature": "SignatureDoesNotMatch", "altered-signed-header": "SignatureDoesNotMatch", "altered-query": "SignatureDoesNotMatch",
          "appended-query-semicolon": None, "appended-query-bad-escape": None,
          "altered-payload": None, "skewed-date": "RequestTimeTooSkewed", "wrong-region": "SignatureDoesNotMatch", "wrong-service": "SignatureDoesNotMatch",
          "missing-date": "AccessDenied", "presigned-expired": None, "presigned-modified": "SignatureDoesNotMatch", "presigned-wrong-secret": "SignatureDoesNotMatch",
          "chunked-wrong-secret": "SignatureDoesNotMatch", "unsigned-trailer-wrong-secret": "SignatureDoesNotMatch",
          "presigned-repeated-param": None, "presigned-appended-behind-hash": None, "presigned-path-encoded-twice": None, "chunked-forged-truncated": None}


def send(cl, ep, defect, port):
    name, method, path, query, body, headers = ep
    headers = dict(headers)
    kw = {}
    if defect == "none":
        pass
    elif defect == "no-auth":
        kw["sign"] = False
        headers.update({"x-amz-date": datetime.datetime.utcnow().strftime("%Y%m%dT%H%M%SZ"), "x-amz-content-sha256": hashlib.sha256(body).hexdigest()})
    elif defect == "malformed-auth":
        kw["tamper"] = lambda h: h.__setitem__("Authorization", "AWS4-HMAC-SHA256 Credential=root, SignedHeaders, Signature")
    elif defect == "unknown-key":
        kw["access"] = "nosuchuser"
    elif defect == "wrong-secret":
        kw["secret"] = "not-the-secret"
    elif defect == "flipped-signature":
        def flip(h):
            a = h["Authorization"]; h["Authorization"] = a[:-1] + ("0" if a[-1] != "0" else "1")
        kw["tamper"] = flip
    elif defect == "altered-signed-header":
        headers["x-amz-meta-signed"] = "original"
        kw["tamper"] = lambda h: h.__setitem__("x-amz-meta-signed", "altered")
    elif defect == "duplicated-signed-header":
        # a second occurrence of a signed header with a forged value, placed before the signed one
        if "x-amz-copy-source" in headers:
            kw["pre_headers"] = [("x-amz-copy-source", "bk2/other")]
        else:
            headers["x-amz-meta-signed"] = "original"
            kw["pre_headers"] = [("x-amz-meta-signed", "forged")]
    elif defect == "altered-query":
        q = list(query.items()) + [("x-extra", "1")]
        kw["raw_query"] = "&".join("%s=%s" % (s3c.quote_q(k), s3c.quote_q(v)) for k, v in sorted(q))
    elif defect in ("appended-query-semicolon", "appended-query-bad-escape"):
        # a pair appended after signing that a lenient query parser drops (raw ';', broken percent escape) but the router keeps:
        # it selects another sub-resource of the same path
        extra = {"DELETE": "tagging", "GET": "tagging", "PUT": "tagging", "HEAD": "versionId", "POST": "uploads", "PATCH": "x"}[method]
        extra += "=;" if defect.endswith("semicolon") else "=%zz"
        base = "&".join("%s=%s" % (s3c.quote_q(k), s3c.quote_q(v)) for k, v in sorted(query.items()))
        kw["raw_query"] = (base + "&" if base else "") + extra
    elif defect == "altered-payload":
        kw["send_body"] = (body or b"") + b"-tampered"
    elif defect == "skewed-date":
        kw["now"] = datetime.datetime.utcnow() - datetime.timedelta(minutes=25)
    elif defect == "wrong-region":
        kw["region"] = "eu-west-1"
    elif defect == "wrong-service":
        kw["service"] = "ec2"
    elif defect == "missing-date":
        kw["tamper"] = lambda h: h.pop("x-amz-date", None)
    elif defect.startswith("presigned"):
        c2 = s3c.Client(port, "root", "rootsecret")
        exp, now, secret = 300, None, None
        if defect == "presigned-expired":
            now, exp = datetime.datetime.utcnow() - datetime.timedelta(minutes=10), 60
        if defect == "presigned-wrong-secret":
            secret = "not-the-secret"
        hs = {k: v for k, v in headers.items()}
        url, hd = c2.presign(method, path, query, expires=exp, now=now, secret=secret, headers=hs)
        if defect == "presigned-modified":
            url = url.replace("X-Amz-Expires=300", "X-Amz-Expires=900")
        if defect == "presigned-repeated-param":
            # an expired URL with a second, unsigned X-Amz-Expires placed in front of the signed one
            now2 = datetime.datetime.utcnow() - datetime.timedelta(minutes=10)
            url, hd = c2.presign(method, path, query, expires=60, now=now2, secret=secret, headers=hs)
            url = url.replace("?", "?X-Amz-Expires=604800&", 1)
        if defect == "presigned-appended-behind-hash":
            # parameters appended to a valid presigned URL behind a parameter named "#" (sent as %23): a verifier that rebuilds the URL
            # with the decoded key sees a fragment there and verifies the query in front of it only; they select another sub-resource
            extra = {"DELETE": "tagging", "GET": "tagging", "PUT": "tagging", "HEAD": "versionId=null", "POST": "uploads", "PATCH": "x"}[method]
            url += "&%23=x&" + extra
        if defect == "presigned-path-encoded-twice":
            # the URL was signed for a key spelled with one percent-encoded letter; it is sent with that escape encoded once more,
            # which names another key (the one containing the literal escape)
            sp = once_spelled(path)
            if sp is None:
                return c2.raw(method, url.replace("X-Amz-Expires=300", "X-Amz-Expires=900"), hd, body)      # (no key to re-spell: an ordinary modified URL)
            head, key, i, once = sp
            qs = url.split("?", 1)[1]
            url = s3c.quote_path(head) + "/" + key[:i] + "%%25%02X" % ord(key[i]) + key[i + 1:] + "?" + qs
        return c2.raw(method, url, hd, body)
    elif defect == "chunked-forged-truncated":
        # a streaming-signed upload with valid headers whose chunk data was altered (its chunk signature no longer matches) and whose
        # body ends with the last data byte: no CRLF, no final chunk
        from vlib import chunkenc
        data = body or b"forged"
        headers.update({"x-amz-decoded-content-length": str(len(data)), "content-encoding": "aws-chunked"})
        def mk(sig, k, amzdate, d8, region):
            b = bytearray(chunkenc.encode_signed([data], k, sig, None, amzdate, d8, region))
            first = bytes(b).index(b"\r\n") + 2
            b[first] ^= 0x01
            return bytes(b[:bytes(b).rindex(b"\r\n0;chunk-signature=")])
        r, _ = cl.req_streaming(method, path, mk, query=query, headers=headers, payload_type="STREAMING-AWS4-HMAC-SHA256-PAYLOAD")
        return r
    elif defect in ("chunked-wrong-secret", "unsigned-trailer-wrong-secret"):
        from vlib import chunkenc
        ut = defect.startswith("unsigned")
        headers.update({"x-amz-decoded-content-length": str(len(body)), "content-encoding": "aws-chunked"})
        if ut: headers["x-amz-trailer"] = "x-amz-checksum-crc32"
        def mk(sig, k, amzdate, d8, region):
            return chunkenc.encode_unsigned([body] if body else [], "crc32") if ut else chunkenc.encode_signed([body] if body else [], k, sig, None, amzdate, d8, region)
        r, _ = cl.req_streaming(method, path, mk, query=query, headers=headers, secret="not-the-secret",
                                payload_type="STREAMING-UNSIGNED-PAYLOAD-TRAILER" if ut else "STREAMING-AWS4-HMAC-SHA256-PAYLOAD")
        return r
    return cl.req(method, path, query=query, body=body, headers=headers, **kw)


def once_spelled(path):
    """(head, key, i, the key with its first letter written as a literal %XX escape) for an object path, None when there is no such letter"""
    if "/" not in path.strip("/") or not any(ch.isalpha() for ch in path.rsplit("/", 1)[1]):
        return None
    head, key = path.rsplit("/", 1)
    i = next(j for j, ch in enumerate(key) if ch.isalpha())
    return head, key, i, key[:i] + "%%%02X" % ord(key[i]) + key[i + 1:]


def prepare(site, g):
    cl = s3c.Client(g.port, "root", "rootsecret")
    ok = cl.req("PUT", "/bk1", headers={"x-amz-bucket-object-lock-enabled": "true"}).status == 200
    ok &= cl.req("PUT", "/bk2").status == 200
    ok &= cl.req("PUT", "/bk1/obj", body=MARKER + b"-object-body", headers={"x-amz-meta-secret": MARKER.decode()}).status == 200
    ok &= cl.req("PUT", "/bk1/obj2", body=MARKER + b"-2").status == 200
    ok &= cl.req("PUT", "/bk1", query={"tagging": ""}, body=TAGGING).status in (200, 204)
    ok &= cl.req("PUT", "/bk1", query={"policy": ""}, body=POLICY).status in (200, 204)
    r = cl.req("POST", "/bk1/mp", query={"uploads": ""})
    uid = r.xml().findtext("UploadId") if r.status == 200 else ""
    ok &= cl.req("PUT", "/bk1/mp", query={"partNumber": "1", "uploadId": uid}, body=b"part-one").status == 200
    ok &= cl.req("PATCH", "/create-user", body=b"<Account><Access>victim</Access><Secret>victimsecret</Secret><Role>user</Role><UserID>0</UserID><GroupID>0</GroupID></Account>").status in (200, 201)
    # the keys that contain a literal escape where an endpoint's key has a letter exist, with other content (presigned-path-encoded-twice)
    for ep in endpoints(uid):
        sp = once_spelled(ep[2]) if ep[2].startswith("/bk") else None
        if sp:
            cl.req("PUT", sp[0] + "/" + sp[3], body=b"OTHER-OBJECT-" + MARKER)
    return cl, uid, ok


def run(chk):
    quick = chk.tier == "quick"
    chk.rule = ("a case is (endpoint, credential defect): every route and subresource of the S3 and admin APIs (incl. trailing-slash path "
                "shapes, directory objects, copy, multipart) x 22 credential defects (missing/malformed authorization, unknown key, wrong "
                "secret, flipped signature, altered signed header / query / payload, skewed or missing date, wrong region / service, "
                "expired / modified / wrongly signed presigned URL, aws-chunked bodies signed with a wrong secret); each is followed by a "
                "byte-exact snapshot comparison of root, versioning, sidecar and IAM directories. Non-trivial when the endpoint reaches a "
                "handler with valid credentials; distinct by (endpoint, defect).")
    corr = gobuild.build_tool("corr")
    gwbin = gobuild.build_gateway("verif")
    built = coq.ensure_built(chk, TARGETS)
    if built:
        coq.check_assumptions(chk, "Properties.C02", THEOREMS)
    rnd = chk.rnd
    rows = []
    with gw.Site({"iam": True, "versioning": True}, name="c02") as site:
        g = site.gateway(gwbin)
        cl, uid, ok = prepare(site, g)
        chk.require(ok, "c02:setup", "preparing the scenario with valid credentials failed")
        roots = (site.root, site.verdir, site.iamdir)
        eps = endpoints(uid)
        # control run on a twin site: which endpoints reach a handler with valid credentials
        reach = {}
        with gw.Site({"iam": True, "versioning": True}, name="c02ctl") as site2:
            g2 = site2.gateway(gwbin)
            cl2, uid2, ok2 = prepare(site2, g2)
            for ep in endpoints(uid2):
                r = send(cl2, ep, "none", g2.port)
                reach[ep[0]] = r.status
                if r.code in ("SignatureDoesNotMatch", "AccessDenied", "InvalidAccessKeyId") or r.status == -1:
                    chk.tie("control: %s with valid credentials is not refused for its credentials" % ep[0], False, str(r))
        before = e2e.snapshot(*roots)
        for ep in eps:
            for defect in DEFECTS[1:]:
                if defect.startswith("presigned") and (ep[1] in ("PATCH",) or defect == "presigned-ok"):
                    continue
                if defect in ("chunked-wrong-secret", "unsigned-trailer-wrong-secret", "chunked-forged-truncated") and not (ep[1] == "PUT"):
                    continue
                if defect == "altered-payload" and ep[1] in ("GET", "HEAD", "DELETE"):
                    continue
                r = send(cl, ep, defect, g.port)
                after = e2e.snapshot(*roots)
                changed = e2e.snap_diff(before, after)
                leaked = MARKER in (r.body or b"") or any(MARKER.decode() in v for v in r.headers.values())
                row = {"endpoint": ep[0], "method": ep[1], "path": ep[2], "query": ep[3], "defect": defect, "status": r.status, "code": r.code,
                       "changed": changed, "leaked": leaked, "control_status": reach.get(ep[0])}
                sh = {k.lower(): v for k, v in getattr(r, "sent_headers", {}).items()}
                if not defect.startswith("presigned") and not defect.endswith("wrong-secret-x") and defect not in ("chunked-wrong-secret", "unsigned-trailer-wrong-secret", "chunked-forged-truncated"):
                    ph = sh.get("x-amz-content-sha256", "")
                    qk = list(ep[3].keys()) + (["x-extra"] if defect == "altered-query" else ["tagging"] if defect.startswith("appended-query") else [])
                    row["facts"] = {"auth": sh.get("authorization", ""), "account": defect != "unknown-key", "xdate": sh.get("x-amz-date", ""),
                                    "skew": -1500 if defect == "skewed-date" else 0, "special": ph == "UNSIGNED-PAYLOAD" or ph.startswith("STREAMING-"),
                                    "hash_ok": ph == hashlib.sha256(getattr(r, "wire", b"") or b"").hexdigest(),
                                    "sig_ok": defect not in ("wrong-secret", "flipped-signature", "altered-signed-header", "duplicated-signed-header", "altered-query", "appended-query-semicolon", "appended-query-bad-escape", "wrong-region", "wrong-service", "malformed-auth", "no-auth", "unknown-key"),
                                    "qkeys": qk, "copysrc": sh.get("x-amz-copy-source", "")}
                rows.append(row)
                nt = reach.get(ep[0], 0) not in (404, 405, 501, -1)
                chk.case((ep[0], defect), nt)
                chk.count("defect:%s:%s" % (defect, r.status))
                chk.traces += 1
                if not g.alive():
                    chk.fail("c02:gateway-died", "the gateway died on %s with %s" % (ep[0], defect), row)
                    g = site.gateway(gwbin); cl = s3c.Client(g.port, "root", "rootsecret")
                if changed:
                    chk.fail("c02:effect-without-valid-signature:%s:%s" % (ep[0], defect),
                             "%s %s with credential defect '%s' answered %d %s and changed the storage: %s" % (ep[1], ep[2], defect, r.status, r.code, changed[:3]), row)
                    before = after
                elif leaked:
                    chk.fail("c02:data-disclosed:%s:%s" % (ep[0], defect), "%s %s with '%s' disclosed stored data (status %d)" % (ep[1], ep[2], defect, r.status), row)
                elif not (400 <= r.status < 500) and not (defect == "chunked-forged-truncated" and (r.status >= 500 or r.status == -1)):
                    chk.fail("c02:not-4xx:%s:%s" % (ep[0], defect), "%s %s with '%s' answered %d %s instead of a 4xx error" % (ep[1], ep[2], defect, r.status, r.code), row)
        # credentials that were valid and are no longer: rotated secret, deleted account (the account cache must not keep them alive)
        vic = s3c.Client(g.port, "victim", "victimsecret")
        cl.req("PUT", "/bk1", query={"acl": ""}, headers={"x-amz-grant-full-control": "victim"})
        warm = vic.req("GET", "/bk1/obj2")
        upd = cl.req("PATCH", "/update-user", query={"access": "victim"}, body=b"<MutableProps><Secret>rotated</Secret></MutableProps>")
        stale = vic.req("GET", "/bk1/obj2")
        snap1 = e2e.snapshot(*roots)
        stale_put = vic.req("PUT", "/bk1/by-stale-secret", body=b"x")
        changed = e2e.snap_diff(snap1, e2e.snapshot(*roots))
        chk.case(("history", "rotated-secret"), True); chk.traces += 1
        if upd.status == 200 and (stale.status == 200 or stale_put.status == 200 or changed):
            chk.fail("c02:rotated-secret-still-accepted", "after update-user changed the secret, requests signed with the old secret answer GET %d / PUT %d%s"
                     % (stale.status, stale_put.status, " and change the storage" if changed else ""),
                     {"warm_status": warm.status, "update_status": upd.status, "stale_get": stale.status, "stale_put": stale_put.status, "changed": changed})
        # an account that rotates its own secret (admin role): with no request of any other account in between, the old secret is
        # refused at once and the new one accepted (whatever the signer remembers of the requests it verified before)
        cl.req("PATCH", "/create-user", body=b"<Account><Access>selfadm</Access><Secret>self-one</Secret><Role>admin</Role><UserID>0</UserID><GroupID>0</GroupID></Account>")
        s1 = s3c.Client(g.port, "selfadm", "self-one")
        warm2 = [s1.req("GET", "/bk1/obj2").status, s1.req("GET", "/bk1", query={"list-type": "2"}).status]
        upd2 = s1.req("PATCH", "/update-user", query={"access": "selfadm"}, body=b"<MutableProps><Secret>self-two</Secret></MutableProps>")
        snap2 = e2e.snapshot(*roots)
        stale2 = s1.req("GET", "/bk1/obj2"); stale2_put = s1.req("PUT", "/bk1/by-own-old-secret", body=b"x")
        changed2 = e2e.snap_diff(snap2, e2e.snapshot(*roots))
        fresh2 = s3c.Client(g.port, "selfadm", "self-two").req("GET", "/bk1/obj2")
        chk.case(("history", "self-rotated-secret"), True); chk.traces += 1
        if upd2.status == 200 and (stale2.status == 200 or stale2_put.status == 200 or changed2 or fresh2.status != 200):
            chk.fail("c02:own-rotated-secret-still-accepted", "after the account changed its own secret with update-user (no request of another account in between), requests signed with the old secret answer GET %d / PUT %d%s, "
                     "a request signed with the new secret answers %d" % (stale2.status, stale2_put.status, " and change the storage" if changed2 else "", fresh2.status),
                     {"warm_statuses": warm2, "update_status": upd2.status, "old_secret_get": stale2.status, "old_secret_put": stale2_put.status, "new_secret_get": fresh2.status, "changed": changed2})
        cl.req("PATCH", "/delete-user", query={"access": "selfadm"})
        # a create-user the gateway refuses (the account exists) must not change which secret is accepted
        dup = cl.req("PATCH", "/create-user", body=b"<Account><Access>victim</Access><Secret>refused-secret</Secret><Role>admin</Role><UserID>0</UserID><GroupID>0</GroupID></Account>")
        forged = s3c.Client(g.port, "victim", "refused-secret").req("GET", "/bk1/obj2")
        real = s3c.Client(g.port, "victim", "rotated").req("GET", "/bk1/obj2")
        chk.case(("history", "refused-create-user"), True); chk.traces += 1
        if dup.status >= 400 and (forged.status == 200 or real.status != 200):
            chk.fail("c02:refused-create-user-changes-secret", "after a create-user for an existing account was refused (%d %s), the secret it named answers %d and the account's real secret %d"
                     % (dup.status, dup.code, forged.status, real.status), {"create_user": dup.status, "refused_secret_get": forged.status, "real_secret_get": real.status})
        du = cl.req("PATCH", "/delete-user", query={"access": "victim"})
        gone = s3c.Client(g.port, "victim", "rotated").req("GET", "/bk1/obj2")
        chk.case(("history", "deleted-account"), True); chk.traces += 1
        if gone.status == 200 and du.status == 200:
            la = cl.req("PATCH", "/list-users")
            chk.fail("c02:deleted-account-still-accepted", "after delete-user answered 200, a request signed by the deleted account answers 200",
                     {"delete_user": "%d %s" % (du.status, du.code), "request_by_deleted_account": gone.status, "list_users_afterwards": la.body.decode("latin1")[:600]})
        chk.tie("gateway still running", g.alive(), g.log_tail())
    chk.samples.extend(rows[10:13])

    # ---- T2: ParseAuthorization
    auths = gen_auth_headers(rnd, 800 if quick else 15000)
    obs = subprocess.run([corr, "parseauth"], input=("\n".join(a.encode("latin1").hex() or "-" for a in auths) + "\n").encode(), stdout=subprocess.PIPE,
                         timeout=300, env=common.env()).stdout.decode().split("\n")[:len(auths)]
    aterms = []
    for a, o in zip(auths, obs):
        chk.case(("auth", a), True)
        chk.count("parseauth:" + o.split(" ")[0])
        if o == "PANIC":
            chk.fail("c02:parseauth-panic", "ParseAuthorization panics on %r" % a, {"authorization": a})
            continue
        f = o.split(" ")
        if f[0] == "OK":
            dec = [bytes.fromhex(x).decode("latin1") if x != "-" else "" for x in f[1:6]]
            ot = "(PA_ok %s)" % " ".join(coq_str(x.encode("latin1")) for x in dec)
        else:
            ot = "(PA_err %s)" % coq_str(f[1] if len(f) > 1 else "?")
        aterms.append("(%s, %s)" % (coq_str(a.encode("latin1")), ot))
    if not built:
        return
    # the middleware chain model evaluated on the facts of every header-authenticated request
    AUTH_CODES = {"InvalidArgument", "MissingFields", "InvalidRequest", "AuthorizationQueryParametersError", "SignatureDoesNotMatch", "InvalidAccessKeyId",
                  "AccessDenied", "MalformedDate", "RequestTimeTooSkewed", "XAmzContentSHA256Mismatch"}
    cterms, cmeta = [], []
    for row in rows:
        fx = row.get("facts")
        if fx is None or row["method"] == "HEAD":      # a HEAD response carries no error document
            continue
        code = row["code"] if (row["code"] in AUTH_CODES and 400 <= row["status"] < 500) else ""
        if row["defect"] == "no-auth" and row["code"] == "AccessDenied":
            code = "AccessDenied"
        cterms.append("{| c_facts := {| f_auth := %s; f_cfg_region := \"us-east-1\"; f_account_exists := %s; f_xdate_present := %s; f_xdate_wellformed := %s; "
                      "f_xdate_day := %s; f_skew := (%d)%%Z; f_bigdata := false; f_special_payload := %s; f_hash_matches := %s; f_sig_ok := %s |}; "
                      "c_method := %s; c_path := %s; c_qkeys := %s; c_copysrc := %s; c_code := %s |}" % (
                          coq_str(fx["auth"]), coq_bool(fx["account"]), coq_bool(fx["xdate"] != ""), coq_bool(len(fx["xdate"]) == 16),
                          coq_str(fx["xdate"][:8]), fx["skew"], coq_bool(fx["special"]), coq_bool(fx["hash_ok"]), coq_bool(fx["sig_ok"]),
                          coq_str(row["method"]), coq_str(row["path"]), coq_list([coq_str(k) for k in fx["qkeys"]]), coq_str(fx["copysrc"]), coq_str(code)))
        cmeta.append({k: row[k] for k in ("endpoint", "defect", "status", "code")})
    text = ("From Coq Require Import String List ZArith Bool.\nFrom VGW Require Import Base.GoStr Model.Auth Check.Common Check.AuthCheck.\n"
            "Import ListNotations.\nOpen Scope string_scope.\n")
    text += "Definition acases : list (string * pa_obs) :=\n " + coq_list(aterms).replace("; (", ";\n (") + ".\n"
    text += "Definition MA := Eval vm_compute in bad parse_auth_ok acases.\nPrint MA.\n"
    text += "Definition ccases : list ccase :=\n " + coq_list(cterms).replace("; {| c_facts", ";\n {| c_facts") + ".\n"
    text += "Definition MC := Eval vm_compute in bad chain_ok ccases.\nPrint MC.\n"
    rc, out = coq.run_cases("C02_cases", text)
    ma = coq.printed_list(out, "MA")
    if rc != 0 or ma is None or coq.printed_list(out, "MC") is None:
        chk.tie("case file evaluates", False, out[-3000:])
        return
    chk.tie("T2 utils.ParseAuthorization = Model.Auth.parse_authorization on %d headers" % len(aterms), not ma,
            [{"authorization": auths[int(i)], "observed": obs[int(i)]} for i in ma[:5]])
    mc = coq.printed_list(out, "MC")
    chk.tie("T3 refusal (code) or admission of the real middleware chain = Model.Auth.chain on %d header-authenticated requests" % len(cterms),
            mc is not None and not mc, [cmeta[int(i)] for i in (mc or [])[:6]])


def gen_auth_headers(rnd, n):
    base = "AWS4-HMAC-SHA256 Credential=AKIA/20240102/us-east-1/s3/aws4_request, SignedHeaders=host;x-amz-date, Signature=abcdef0123"
    out = [base, "", "AWS4-HMAC-SHA256", "AWS4-HMAC-SHA256 ", "AWS4-HMAC-SHA256 Credential=a/20240102/r/s3/aws4_request,SignedHeaders=h,Signature=s",
           "AWS4-HMAC-SHA256 Credential=a/20240230/r/s3/aws4_request,SignedHeaders=h,Signature=s",
           "AWS4-HMAC-SHA256 Credential=a/20240229/r/s3/aws4_request,SignedHeaders=h,Signature=s",
           "AWS4-HMAC-SHA256 Credential=a/20230229/r/s3/aws4_request,SignedHeaders=h,Signature=s",
           "AWS4-HMAC-SHA256 Credential=a/2024010/r/s3/aws4_request,SignedHeaders=h,Signature=s",
           "AWS4-HMAC-SHA256 Credential=a/20240102/r/ec2/aws4_request,SignedHeaders=h,Signature=s",
           "AWS4-HMAC-SHA256 Credential=a/20240102/r/s3/aws4,SignedHeaders=h,Signature=s",
           "AWS4-HMAC-SHA256 Credential=a/b/20240102/r/s3/aws4_request,SignedHeaders=h,Signature=s",
           "AWS4-HMAC-SHA256 Credential,SignedHeaders=h,Signature=s", "AWS4-HMAC-SHA256 Credential=x=y,SignedHeaders=h,Signature=s",
           "AWS4-HMAC-SHA256 SignedHeaders=a=b,Credential=a/20240102/r/s3/aws4_request,Signature=s", "AWS4-HMAC-SHA256 a,b,c", "AWS4-HMAC-SHA256 a=1,b=2,c=3",
           "AWS Credential=a/20240102/r/s3/aws4_request,SignedHeaders=h,Signature=s", "AWS4-HMAC-SHA256\tCredential=a/20240102/r/s3/aws4_request,SignedHeaders=h,Signature=s"]
    pieces = ["Credential=", "SignedHeaders=", "Signature=", "AKIA", "/", "20240102", "20241301", "00000000", "99991231", "us-east-1", "s3", "aws4_request", ",", ", ", " ", "=", "host", ";",
              "abc", "AWS4-HMAC-SHA256", "\t", "x", "2024010a"]
    while len(out) < n:
        r = rnd.random()
        if r < 0.5:
            a = list(base)
            for _ in range(rnd.randrange(1, 4)):
                i = rnd.randrange(len(a))
                m = rnd.random()
                if m < 0.4: a[i] = rnd.choice(",=/ ;x0\t")
                elif m < 0.7: del a[i]
                else: a.insert(i, rnd.choice(",=/ ;x0"))
            out.append("".join(a))
        elif r < 0.8:
            cred = "/".join(rnd.choice(["AKIA", "", "a b", "20240102", "20240230", "19000229", "20000229", "us-east-1", "s3", "aws4_request", "S3"]) for _ in range(rnd.choice([3, 4, 5, 5, 5, 6])))
            parts = ["Credential=" + cred, "SignedHeaders=host", "Signature=ff"]
            rnd.shuffle(parts)
            if rnd.random() < 0.2: parts.pop()
            out.append("AWS4-HMAC-SHA256 " + rnd.choice([",", ", ", " ,"]).join(parts))
        else:
            out.append("".join(rnd.choice(pieces) for _ in range(rnd.randrange(1, 12))))
    return out


def replay(chk, data):
    print(json.dumps(data.get("replay"), indent=1, default=str))
    return 0
