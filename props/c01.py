"""C01 — Stored objects read back byte-identical with their metadata (DESIGN.md §7 C01)."""
import base64, hashlib, json, urllib.parse
from vlib import common, coq, gobuild, gw, s3c, e2e, chunkenc
from vlib.common import coq_str, coq_list, coq_bool

THEOREMS = ["C01_read_back_partial", "C01_directory_object_read_back", "C01_put_changes_only_its_key", "C01_history_refines_map", "C01_read_after_any_history", "C01_get_is_pure"]
TARGETS = ["Properties/C01.vo", "Check/PosixCheck.vo"]
LENS = [0, 1, 5, 100, 3000, 4097, 32768, 65537, 70001]
CONFIGS = [("xattr+otmp", {"iam": False}), ("xattr+named-temp", {"iam": False, "otmp": False}), ("sidecar", {"iam": False, "meta": "sidecar"}),
           ("versioned-root", {"iam": False, "versioning": True})]
KEYS = ["plain", "with space", "plus+sign", "pct%25", "amp&eq=", "q?mark", "hash#tag", "semi;colon", "quote'\"", "back\\slash", "star*", "tilde~at@", "dollar$,", "colon:[]",
        "brace{}|^", "lt<gt>", "tab\there", "uni-ü-日本", "deep/er/and/deeper/key", "dir1/file.txt", "x" * 255, ".hidden", "..dots", "trail.", "a.b/c.d"]


def blob(n, salt=0):
    return bytes((i * 7 + salt * 13 + (i >> 8) + 1) % 251 for i in range(n))


# ---------------------------------------------------------------- part 1: tree-model histories
SEGS = ["a", "b", "c", "a.x"]
ERRS = {"NoSuchBucket", "NoSuchKey", "ExistingObjectIsDirectory", "ObjectParentIsFile", "DirectoryObjectContainsData", "BucketAlreadyOwnedByYou", "BucketNotEmpty", "InvalidURI"}


def errsym(c):
    if c == "ErrDirectoryNotEmpty": return "DirectoryNotEmpty"
    return c if c in ERRS else None


def attrs(d):
    return "[" + "; ".join("(%s, %s)" % (coq_str(k), coq_str(v)) for k, v in sorted(d.items())) + "]"


def model_histories(chk, gwbin, n_hist):
    rnd = chk.rnd
    blobs = [blob(n, i) for i, n in enumerate([0, 1, 5, 100, 3000, 4097])]
    md5s = {hashlib.md5(b).hexdigest(): i for i, b in enumerate(blobs)}
    def etag_sym(e):
        if e == "d41d8cd98f00b204e9800998ecf8427e": return "EMPTY"        # the unquoted ETag of a directory object
        e = e2e.etag_clean(e)
        if e == "": return ""
        if e in md5s: return "E%d" % md5s[e]
        if e == "d41d8cd98f00b204e9800998ecf8427e": return "EMPTY"
        return "?" + e
    hists = []
    with gw.Site({"iam": False}, name="c01m") as site:
        g = site.gateway(gwbin)
        R = s3c.Client(g.port, "root", "rootsecret")
        for h in range(n_hist):
            bk = "bkt%03d" % h
            ops, exp, known = ['CreateBucket %s' % coq_str(bk)], [], []
            r = R.req("PUT", "/" + bk)
            exp.append("O_ok" if r.status == 200 else "(O_err %s)" % (errsym(r.code) or "NoSuchBucket"))
            def genkey(fresh=False):
                if not fresh and known and rnd.random() < 0.7:
                    k = rnd.choice(known); x = rnd.random()
                    if x < 0.1: return k.rstrip("/") + ("" if k.endswith("/") else "/")
                    if x < 0.2 and "/" in k.rstrip("/"): return k.rstrip("/").rsplit("/", 1)[0] + rnd.choice(["", "/"])
                    if x < 0.25: return k + "/sub"
                    return k
                k = "/".join(rnd.choice(SEGS) for _ in range(rnd.randint(1, 3)))
                if rnd.random() < 0.2: k += "/"
                if rnd.random() < 0.04: k = k.replace("/", "//", 1) if "/" in k else "./" + k
                return k
            for _ in range(rnd.randint(8, 22)):
                x = rnd.random()
                if x < 0.5:
                    key = genkey(fresh=rnd.random() < 0.6); bi = rnd.randrange(len(blobs))
                    if key.endswith("/") and rnd.random() < 0.8: bi = 0
                    ct = rnd.choice(["", "text/x"]); meta = {rnd.choice(["k1", "k2"]): rnd.choice(["v1", "v2"])} if rnd.random() < 0.4 else {}
                    hd = {"x-amz-meta-" + k: v for k, v in meta.items()}
                    if ct: hd["content-type"] = ct
                    r = R.req("PUT", "/%s/%s" % (bk, key), body=blobs[bi], headers=hd, raw_path="/%s/%s" % (bk, urllib.parse.quote(key)))
                    ops.append("PutObject %s %s %d %d %s %s" % (coq_str(bk), coq_str(key), bi, len(blobs[bi]), coq_str(ct), attrs(meta)))
                    if r.status == 200: exp.append("O_ok"); known.append(key)
                    else: exp.append("(O_err %s)" % (errsym(r.code) or "NoSuchBucket"))
                    chk.count("model-put:%d" % r.status)
                elif x < 0.72:
                    key = genkey(); r = R.req("GET", "/%s/%s" % (bk, key), raw_path="/%s/%s" % (bk, urllib.parse.quote(key)))
                    ops.append("GetObject %s %s" % (coq_str(bk), coq_str(key)))
                    if r.status == 200:
                        bsym = "None" if key.endswith("/") else ("(Some %d)" % blobs.index(r.body) if r.body in blobs else "(Some 99)")
                        exp.append("(O_get %s %s %s %s)" % (bsym, coq_str(etag_sym(r.headers.get("etag"))), coq_str(r.headers.get("content-type", "")), attrs(e2e.meta_of(r.headers))))
                    else: exp.append("(O_err %s)" % (errsym(r.code) or "NoSuchBucket"))
                    chk.count("model-get:%d" % r.status)
                elif x < 0.88:
                    key = genkey(); r = R.req("DELETE", "/%s/%s" % (bk, key), raw_path="/%s/%s" % (bk, urllib.parse.quote(key)))
                    ops.append("DeleteObject %s %s" % (coq_str(bk), coq_str(key)))
                    exp.append("O_ok" if r.status == 204 else "(O_err %s)" % (errsym(r.code) or "NoSuchBucket"))
                    chk.count("model-delete:%d" % r.status)
                else:
                    prefix = rnd.choice(["", "", "a/", "a", "b/c"]); delim = rnd.choice(["", "/"]); mx = rnd.choice([1000, 1000, 2])
                    r = R.req("GET", "/" + bk, query={"list-type": "2", "prefix": prefix, "delimiter": delim, "max-keys": str(mx)})
                    ops.append("ListV2 %s %s %s \"\" %d" % (coq_str(bk), coq_str(prefix), coq_str(delim), mx))
                    x_ = r.xml()
                    ents = [(c.findtext("Key"), etag_sym(c.findtext("ETag"))) for c in x_.findall("Contents")] + [(c.findtext("Prefix"), "CP") for c in x_.findall("CommonPrefixes")]
                    exp.append("(O_list %s %s)" % (coq_list(["(%s, %s)" % (coq_str(k), coq_str(e)) for k, e in ents]), coq_bool(x_.findtext("IsTruncated") == "true")))
                    chk.count("model-list")
            nt = any(o.startswith("PutObject") for o in ops)
            chk.case(("hist", tuple(ops)), nt)
            chk.traces += 1
            hists.append((ops, exp))
        chk.tie("gateway still running after the model histories", g.alive(), g.log_tail())
    return hists


# ---------------------------------------------------------------- part 2: the Spec on the real gateway (read-back)
def put_variants(rnd):
    return rnd.choice(["plain", "plain", "unsigned-payload", "chunk-signed", "chunk-signed-trailer", "chunk-unsigned-trailer", "multipart", "copy", "copy-replace", "self-copy-replace"])


def spec_readback(chk, gwbin, label, cfg, n_ops):
    rnd = chk.rnd
    content_sets = [{}, {"content-type": "text/plain; charset=utf-8"}, {"content-type": "application/x-custom", "content-encoding": "gzip", "content-language": "de-DE",
                                                                    "content-disposition": 'attachment; filename="a b.txt"', "cache-control": "max-age=60, no-store", "expires": "Wed, 21 Oct 2026 07:28:00 GMT"}]
    meta_sets = [{}, {"alpha": "1"}, {"Mixed-Case": "Value With Spaces", "k2": "v=2&x"}, {"alpha": "1", "beta": "2", "gamma": "3"},
                 {"app.version": "1.2.3", "org.example.owner": "me", "version": "plain"}, {"a-b_c.d": "x.y", "x-amz-meta-nested": "n", "0": "zero", "trailing.": "t", ".leading": "l"}]
    tag_sets = [{}, {"t1": "v1"}, {"t1": "v1", "t2": "v 2", "t3": "a+b=c&d"}]
    with gw.Site(cfg, name="c01s") as site:
        gws = [site.gateway(gwbin), site.gateway(gwbin)]
        cls = [s3c.Client(g.port, "root", "rootsecret") for g in gws]
        chk.require(cls[0].req("PUT", "/bk1").status == 200, "c01:setup", "CreateBucket failed in configuration %s" % label)
        state = {}           # key -> expectation of the last acknowledged upload
        def readback(c2, key, exp, variant, body, md, tg, ch, note=""):
            path = "/bk1/" + key
            g_ = c2.req("GET", path); h_ = c2.req("HEAD", path)
            t_ = c2.req("GET", path, query={"tagging": ""}); a_ = c2.req("GET", path, query={"attributes": ""}, headers={"x-amz-object-attributes": "ETag,ObjectSize"})
            l_ = c2.req("GET", "/bk1", query={"list-type": "2", "prefix": key})
            problems = []
            if g_.status != 200: problems.append("GET %d %s" % (g_.status, g_.code))
            else:
                if g_.body != exp["body"]: problems.append("body differs (%d bytes read, %d uploaded)" % (len(g_.body), len(exp["body"])))
                if e2e.etag_clean(g_.headers.get("etag")) != exp["etag"]: problems.append("ETag %s, expected %s" % (g_.headers.get("etag"), exp["etag"]))
                if g_.headers.get("content-length") != str(len(exp["body"])): problems.append("Content-Length %s" % g_.headers.get("content-length"))
                for ck, cv in exp["content"].items():
                    if g_.headers.get(ck) != cv: problems.append("%s read back as %r, supplied %r" % (ck, g_.headers.get(ck), cv))
                gm = {k.lower(): v for k, v in e2e.meta_of(g_.headers).items()}
                if gm != {k.lower(): v for k, v in exp["meta"].items()}: problems.append("user metadata read back as %r, supplied %r" % (gm, exp["meta"]))
                tc = g_.headers.get("x-amz-tagging-count")
                if (int(tc) if tc else 0) != len(exp["tags"]): problems.append("x-amz-tagging-count %r for %d tags" % (tc, len(exp["tags"])))
            if h_.status != 200 or e2e.etag_clean(h_.headers.get("etag")) != exp["etag"] or h_.headers.get("content-length") != str(len(exp["body"])):
                problems.append("HEAD %d etag %s length %s" % (h_.status, h_.headers.get("etag"), h_.headers.get("content-length")))
            if t_.status == 200 and t_.xml() is not None:
                tags = {t.findtext("Key"): t.findtext("Value") for t in t_.xml().iter("Tag")}
                if tags != exp["tags"]: problems.append("tags read back as %r, supplied %r" % (tags, exp["tags"]))
            elif exp["tags"]:
                problems.append("GetObjectTagging %d" % t_.status)
            if a_.status == 200 and a_.xml() is not None:
                if e2e.etag_clean(a_.xml().findtext("ETag")) != exp["etag"] or a_.xml().findtext("ObjectSize") != str(len(exp["body"])):
                    problems.append("GetObjectAttributes ETag %s size %s" % (a_.xml().findtext("ETag"), a_.xml().findtext("ObjectSize")))
            if l_.status == 200 and l_.xml() is not None:
                ent = [c for c in l_.xml().findall("Contents") if c.findtext("Key") == key]
                if not ent or e2e.etag_clean(ent[0].findtext("ETag")) != exp["etag"] or ent[0].findtext("Size") != str(len(exp["body"])):
                    problems.append("listing entry %s" % ([(c.findtext("Key"), c.findtext("ETag"), c.findtext("Size")) for c in ent] or "missing"))
            chk.case(("spec", label, key, variant, len(body), tuple(sorted(md)), tuple(sorted(tg)), tuple(sorted(ch))), True)
            chk.traces += 1
            if problems:
                kinds = sorted(set(p.split(" ")[0] for p in problems))
                prev = exp["how"]
                chk.fail("c01:readback%s:%s:%s" % ("-after-refused-" + variant if note else "", label.split("+")[0], "+".join(kinds)[:50]),
                         "after an acknowledged %s upload of key %r (%d bytes)%s in configuration %s, reading it back through another gateway process shows: %s" % (
                             exp["how"], key, len(exp["body"]), note, label, "; ".join(problems)[:600]),
                         {"config": label, "variant": variant, "note": note, "key": key, "size": len(body), "supplied_content": ch, "supplied_meta": md, "supplied_tags": tg, "problems": problems})

        for i in range(n_ops):
            w, rd = rnd.randrange(2), rnd.randrange(2)      # which gateway process writes / reads
            if rnd.random() < 0.05:
                gws[rd].restart(); cls[rd] = s3c.Client(gws[rd].port, "root", "rootsecret")
            key = rnd.choice(KEYS) if rnd.random() < 0.5 else rnd.choice(list(state) or KEYS)
            body = blob(rnd.choice(LENS), i)
            ch, md, tg = rnd.choice(content_sets), rnd.choice(meta_sets), rnd.choice(tag_sets)
            hd = dict(ch); hd.update({"x-amz-meta-" + k: v for k, v in md.items()})
            if tg: hd["x-amz-tagging"] = urllib.parse.urlencode(tg)
            path = "/bk1/" + key
            variant = put_variants(rnd)
            etag = hashlib.md5(body).hexdigest()
            cl = cls[w]
            if variant in ("plain", "unsigned-payload"):
                r = cl.req("PUT", path, body=body, headers=hd, payload_hash="UNSIGNED-PAYLOAD" if variant == "unsigned-payload" else None)
            elif variant.startswith("chunk"):
                sizes = [len(body)] if len(body) < 10 else [len(body) // 3, len(body) // 3, len(body) - 2 * (len(body) // 3)]
                chunks, o = [], 0
                for sz in sizes:
                    if sz: chunks.append(body[o:o + sz]); o += sz
                h2 = dict(hd); h2.update({"x-amz-decoded-content-length": str(len(body)), "content-encoding": (ch.get("content-encoding", "") + ",aws-chunked").lstrip(",")})
                if "content-encoding" in ch:
                    h2["content-encoding"] = "aws-chunked," + ch["content-encoding"]
                trailer = "crc32" if variant != "chunk-signed" else None
                if trailer: h2["x-amz-trailer"] = "x-amz-checksum-crc32"
                if variant == "chunk-unsigned-trailer":
                    r, _ = cl.req_streaming("PUT", path, lambda *a: chunkenc.encode_unsigned(chunks, "crc32"), headers=h2, payload_type="STREAMING-UNSIGNED-PAYLOAD-TRAILER")
                else:
                    r, _ = cl.req_streaming("PUT", path, lambda sig, k, ad, d8, reg: chunkenc.encode_signed(chunks, k, sig, trailer, ad, d8, reg), headers=h2,
                                            payload_type="STREAMING-AWS4-HMAC-SHA256-PAYLOAD-TRAILER" if trailer else "STREAMING-AWS4-HMAC-SHA256-PAYLOAD")
            elif variant == "multipart":
                big = len(body) >= 65537
                parts = [blob(5 * 1024 * 1024, i), body] if big else [body]
                r0 = cl.req("POST", path, query={"uploads": ""}, headers=hd)
                if r0.status != 200:
                    r = r0
                else:
                    uid = r0.xml().findtext("UploadId"); xml = "<CompleteMultipartUpload>"
                    # part numbering: contiguous 1..n, sparse numbers, or listed parts interleaved with uploaded-but-unlisted ones
                    mode = rnd.choice(["contiguous", "sparse", "unlisted-extra", "reuploaded"])
                    nums = list(range(1, len(parts) + 1))
                    if mode == "sparse":
                        nums = sorted(rnd.sample(range(2, 40), len(parts)))
                    elif mode == "unlisted-extra":
                        nums = [2 * n + 1 for n in range(1, len(parts) + 1)]
                        for n in range(1, nums[-1] + 2):
                            if n not in nums:
                                cl.req("PUT", path, query={"partNumber": str(n), "uploadId": uid}, body=blob(33, 1000 + n))
                    elif mode == "reuploaded":
                        for n in nums:
                            cl.req("PUT", path, query={"partNumber": str(n), "uploadId": uid}, body=blob(77, 2000 + n))
                    variant = "multipart-" + mode
                    for n, p in zip(nums, parts):
                        rp = cls[rnd.randrange(2)].req("PUT", path, query={"partNumber": str(n), "uploadId": uid}, body=p)
                        xml += "<Part><PartNumber>%d</PartNumber><ETag>%s</ETag></Part>" % (n, rp.headers.get("etag", ""))
                    r = cl.req("POST", path, query={"uploadId": uid}, body=(xml + "</CompleteMultipartUpload>").encode())
                    body = b"".join(parts); etag = e2e.multipart_etag(parts)
            else:
                src = "copysrc-%d" % (i % 3)
                src_md, src_ch, src_tg = {"from": "source"}, {"content-type": "text/source"}, {"st": "sv"}
                if variant == "self-copy-replace":
                    src = key
                    if key not in state:
                        continue
                    body, etag, src_md, src_ch, src_tg = state[key]["body"], state[key]["etag"], state[key]["meta"], state[key]["content"], state[key]["tags"]
                else:
                    sh = dict(src_ch); sh.update({"x-amz-meta-" + k: v for k, v in src_md.items()}); sh["x-amz-tagging"] = urllib.parse.urlencode(src_tg)
                    if cl.req("PUT", "/bk1/" + src, body=body, headers=sh).status != 200:
                        continue
                    state[src] = {"body": body, "etag": etag, "content": src_ch, "meta": src_md, "tags": src_tg, "how": "plain"}
                h2 = {"x-amz-copy-source": urllib.parse.quote("bk1/" + src)}
                if variant != "copy":
                    h2.update(hd); h2["x-amz-metadata-directive"] = "REPLACE"
                    if tg: h2["x-amz-tagging-directive"] = "REPLACE"
                    else: tg = src_tg
                else:
                    ch, md, tg = src_ch, src_md, src_tg
                r = cl.req("PUT", path, headers=h2)
            chk.count("%s:upload:%s:%d" % (label, variant, r.status))
            if r.status != 200:
                if r.status >= 500 or r.status == -1:
                    chk.fail("c01:upload-5xx:%s" % variant, "a valid %s upload of %d bytes to key %r answered %d %s (%s)" % (variant, len(body), key, r.status, r.code, label),
                             {"config": label, "variant": variant, "key": key, "size": len(body), "status": r.status, "code": r.code})
                continue
            state[key] = {"body": body, "etag": etag, "content": ch, "meta": md, "tags": tg, "how": variant}
            # read back through the other process
            readback(cls[rd], key, state[key], variant, body, md, tg, ch)
            # a refused upload onto an existing key (other content and metadata) must leave what is stored as it was
            if rnd.random() < 0.4:
                k2 = rnd.choice(list(state))
                other = blob(rnd.choice([1, 100, 4097]), 5000 + i)
                h3 = {"content-type": "refused/type", "x-amz-meta-refused": "yes", "x-amz-tagging": "refused=1"}
                how = rnd.choice(["bad-md5", "bad-sha256", "bad-crc32", "legal-hold-without-lock", "copy-missing-source", "complete-wrong-etag"])
                p2 = "/bk1/" + k2
                if how == "bad-md5":
                    h3["content-md5"] = base64.b64encode(hashlib.md5(other + b"x").digest()).decode(); rr = cls[w].req("PUT", p2, body=other, headers=h3)
                elif how == "bad-sha256":
                    rr = cls[w].req("PUT", p2, body=other, headers=h3, payload_hash=hashlib.sha256(other + b"x").hexdigest())
                elif how == "bad-crc32":
                    h3["x-amz-checksum-crc32"] = "AAAAAA=="; rr = cls[w].req("PUT", p2, body=other, headers=h3)
                elif how == "legal-hold-without-lock":
                    h3["x-amz-object-lock-legal-hold"] = "ON"; rr = cls[w].req("PUT", p2, body=other, headers=h3)
                elif how == "copy-missing-source":
                    h3.update({"x-amz-copy-source": "bk1/no-such-source-key", "x-amz-metadata-directive": "REPLACE"}); rr = cls[w].req("PUT", p2, headers=h3)
                else:
                    r0 = cls[w].req("POST", p2, query={"uploads": ""}, headers=h3)
                    uid = r0.xml().findtext("UploadId") if r0.status == 200 else ""
                    cls[w].req("PUT", p2, query={"partNumber": "1", "uploadId": uid}, body=other)
                    rr = cls[w].req("POST", p2, query={"uploadId": uid},
                                    body=b"<CompleteMultipartUpload><Part><PartNumber>1</PartNumber><ETag>\"00000000000000000000000000000000\"</ETag></Part></CompleteMultipartUpload>")
                    cls[w].req("DELETE", p2, query={"uploadId": uid})
                chk.count("%s:refused:%s:%d" % (label, how, rr.status))
                if 400 <= rr.status < 500:
                    e2 = state[k2]
                    readback(cls[rd], k2, e2, how, e2["body"], e2["meta"], e2["tags"], e2["content"], note=", followed by a %s upload refused with %d %s" % (how, rr.status, rr.code))
                elif rr.status == 200:
                    state.pop(k2, None)       # not refused after all (nothing claimed about it here)
        # directory objects (keys ending in "/", empty body): the user metadata read back is the metadata of the last acknowledged
        # upload, not a mixture with what an earlier upload of the same key supplied
        for dk in ("dirobj/", "dirobj/nested/"):
            seq = [rnd.choice(meta_sets[1:]) for _ in range(3)] + [{}]
            for j, md in enumerate(seq):
                w, rd = rnd.randrange(2), rnd.randrange(2)
                r = cls[w].req("PUT", "/bk1/" + dk, body=b"", headers={"x-amz-meta-" + k: v for k, v in md.items()})
                chk.count("%s:upload:dirobj:%d" % (label, r.status))
                if r.status != 200:
                    if r.status >= 500:
                        chk.fail("c01:upload-5xx:dirobj", "a valid PutObject of the directory object %r answered %d %s (%s)" % (dk, r.status, r.code, label), {"config": label, "key": dk, "status": r.status})
                    continue
                h_ = cls[rd].req("HEAD", "/bk1/" + dk); g_ = cls[rd].req("GET", "/bk1/" + dk)
                gm = {k.lower(): v for k, v in e2e.meta_of(h_.headers).items()} if h_.status == 200 else None
                gm2 = {k.lower(): v for k, v in e2e.meta_of(g_.headers).items()} if g_.status == 200 else None
                want = {k.lower(): v for k, v in md.items()}
                chk.case(("spec-dirobj", label, dk, j, tuple(sorted(md))), True); chk.traces += 1
                if gm != want or gm2 != want or g_.body != b"":
                    chk.fail("c01:readback:%s:dirobj-metadata" % label.split("+")[0], "after %d acknowledged uploads of the directory object %r (user metadata %r, the last one %r) in configuration %s, "
                             "HEAD reads back %r and GET %r" % (j + 1, dk, seq[:j + 1], md, label, gm, gm2),
                             {"config": label, "key": dk, "uploads": seq[:j + 1], "head_meta": gm, "get_meta": gm2})
                    break
        # directory objects stay what they are when objects below them come and go: uploading and deleting "dkeep/sub/file" leaves
        # the explicitly uploaded "dkeep/" and "dkeep/sub/" readable with their metadata
        for dks, child in ((("dkeep/",), "dkeep/child.txt"), (("dkeep2/", "dkeep2/sub/"), "dkeep2/sub/deep/file")):
            for dk in dks:
                cls[0].req("PUT", "/bk1/" + dk, body=b"", headers={"x-amz-meta-kind": "dir-" + dk.strip("/").replace("/", "-")})
            rc_ = cls[rnd.randrange(2)].req("PUT", "/bk1/" + child, body=b"child")
            rd_ = cls[rnd.randrange(2)].req("DELETE", "/bk1/" + child)
            for dk in dks:
                h_ = cls[rnd.randrange(2)].req("HEAD", "/bk1/" + dk)
                gm = e2e.meta_of(h_.headers) if h_.status == 200 else None
                chk.case(("spec-dirobj-child", label, dk), True); chk.traces += 1
                if rc_.status == 200 and rd_.status == 204 and gm != {"kind": "dir-" + dk.strip("/").replace("/", "-")}:
                    chk.fail("c01:readback:%s:dirobj-after-child-delete" % label.split("+")[0], "the directory object %r (uploaded with user metadata) answers HEAD %d with metadata %r after the object %r below it was uploaded and "
                             "deleted again (%s)" % (dk, h_.status, gm, child, label), {"config": label, "key": dk, "child": child, "head_status": h_.status, "head_meta": gm})
        chk.tie("gateways still running (%s)" % label, all(g.alive() for g in gws), gws[0].log_tail())


def run(chk):
    quick = chk.tier == "quick"
    chk.rule = ("part 1: histories of create/put/get/delete/list on the real gateway compared step by step with the tree model (keys of 1-3 segments "
                "over 4 names with directory objects, file/directory conflicts, dot and empty segments); part 2: the Spec itself on the real "
                "gateway — after every acknowledged upload (plain, UNSIGNED-PAYLOAD, three aws-chunked encodings, multipart completion with a "
                "5 MiB part, CopyObject with COPY / REPLACE directives incl. self-copy) the key is read back through a second gateway "
                "process sharing the storage (GET, HEAD, GetObjectTagging, GetObjectAttributes, ListObjectsV2) and body, length, ETag, six content "
                "headers, user metadata and tags are compared with what was supplied; 25 keys with special characters; four storage "
                "configurations; random restarts. Non-trivial: a successful mutation followed by an observation of the key; distinct by content.")
    gwbin = gobuild.build_gateway("verif")
    built = coq.ensure_built(chk, TARGETS)
    if built:
        coq.check_assumptions(chk, "Properties.C01", THEOREMS)
    hists = model_histories(chk, gwbin, 60 if quick else 500)
    for label, cfg in CONFIGS:
        spec_readback(chk, gwbin, label, cfg, 45 if quick else 400)
    if not built:
        return
    text = ("From Coq Require Import String List Bool.\nFrom VGW Require Import Base.GoStr Model.Walk Model.Posix Check.Common Check.PosixCheck.\n"
            "Import ListNotations.\nOpen Scope string_scope.\n")
    text += "Definition hcases : list (list op * list obs) :=\n " + coq_list(["(%s, %s)" % (coq_list(o), coq_list(e)) for o, e in hists]).replace("; ([", ";\n ([") + ".\n"
    text += "Definition MH := Eval vm_compute in bad hist_ok hcases.\nPrint MH.\nDefinition FB := Eval vm_compute in map hist_first_bad hcases.\nPrint FB.\n"
    rc, out = coq.run_cases("C01_cases", text)
    mh, fb = coq.printed_list(out, "MH"), coq.printed_list(out, "FB")
    if rc != 0 or mh is None:
        chk.tie("case file evaluates", False, out[-3000:])
        return
    detail = []
    for i in mh[:4]:
        ops, exp = hists[int(i)]; j = int(fb[int(i)]) if fb else 0
        detail.append({"history": int(i), "first_disagreement_at": j, "op": ops[j] if j < len(ops) else None, "observed": exp[j] if j < len(exp) else None, "prefix": ops[:j][-6:]})
    chk.tie("T3 create/put/get/delete/list histories of the real gateway = Model.Posix.run on %d histories" % len(hists), not mh, detail)
    chk.samples.append({"history": hists[3][0][:6], "observed": hists[3][1][:6]})


def replay(chk, data):
    print(json.dumps(data.get("replay"), indent=1, default=str))
    return 0
